"""Source-derived inventories regenerated from /repo's working tree on every run (Python ast,
fail closed: constructs the provenance rules do not know are reported as 'unknown').

  mutation_sites(): every in-place write site of src/fast_ticc with the provenance of its target
  nondeterminism_sources(): calls that read randomness / time / identity
  cache_sites(): functools.cache-decorated functions
  pool_sites(): Pool life-cycle calls and try/finally structure of the main loop
"""
import ast
import os

from . import core

FRESH_CALLS = {"zeros", "ones", "copy", "array", "full", "vstack", "hstack", "eye", "diag", "empty", "list", "dict", "set", "sorted",
               "cov", "mean", "where", "sqrt", "square", "transpose", "triu_indices", "inv", "accumulate", "deep_copy", "shallow_copy",
               "ClusterParameters", "ModelState", "UserArguments", "ADMMArguments", "defaultdict", "compress_matrix", "reinflate_matrix",
               "_uncompress_upper_triangle", "_upper_to_full", "x_update_prox", "admm_update_x", "admm_update_z", "admm_update_u",
               "update_cluster_member_data_statistics", "empty_cluster", "empty_model", "sample", "range", "enumerate", "zip",
               "_move_random_points", "_find_ranked_donor_cluster_ids", "norm", "sum", "abs", "log", "trace", "dot", "chain",
               "_init_task_pool", "Pool", "apply_async", "stack_training_data", "label_switching_cost_template",
               "split_joint_labels", "pad_missing_labels", "fit_stacked_data", "SingleDataSeriesResult", "MultipleDataSeriesResult",
               "ADMMResult", "all_points_all_clusters_log_likelihood", "all_points_all_clusters_log_likelihood_fast", "asarray_copy",
               "_compute_log_likelihood_by_cluster", "median", "_block_start_coordinates", "_unique_variable_locations", "float", "int"}
VIEW_CALLS = {"asarray", "reshape", "diagonal", "ravel", "view"}
MUTATING_METHODS = {"sort", "fill", "pop", "append", "extend", "insert", "remove", "clear", "update", "add", "setflags", "resize",
                    "put", "itemset", "partition", "byteswap", "discard", "popitem", "setdefault", "reverse"}


def root_name(node):
    while isinstance(node, (ast.Subscript, ast.Attribute)):
        node = node.value
    if isinstance(node, ast.Name):
        return node.id
    if isinstance(node, ast.Call):
        return "<call>"
    return "<expr>"


class FuncScan(ast.NodeVisitor):
    def __init__(self, relfile, qual, node):
        self.relfile, self.qual = relfile, qual
        self.params = [a.arg for a in node.args.args + node.args.kwonlyargs] + ([node.args.vararg.arg] if node.args.vararg else []) + \
            ([node.args.kwarg.arg] if node.args.kwarg else [])
        self.prov = {p: ("self" if p == "self" else "param") for p in self.params}
        self.sites = []
        for st in node.body:
            self.visit(st)

    # ---- provenance of an expression
    def expr_prov(self, e):
        if isinstance(e, ast.Name):
            return self.prov.get(e.id, "global")
        if isinstance(e, (ast.List, ast.Tuple, ast.Dict, ast.Set, ast.ListComp, ast.DictComp, ast.SetComp, ast.GeneratorExp, ast.Constant,
                          ast.BinOp, ast.UnaryOp, ast.Compare, ast.BoolOp, ast.JoinedStr, ast.IfExp, ast.Lambda)):
            if isinstance(e, ast.IfExp):
                a, b = self.expr_prov(e.body), self.expr_prov(e.orelse)
                return a if a == b else ("param" if "param" in (a, b) else a)
            return "fresh"
        if isinstance(e, ast.Attribute):
            if e.attr == "T":
                return self.expr_prov(e.value)
            base = self.expr_prov(e.value)
            return {"param": "attr-of-param", "self": "attr-of-self", "fresh": "attr-of-fresh", "attr-of-fresh": "attr-of-fresh",
                    "attr-of-param": "attr-of-param", "attr-of-self": "attr-of-self"}.get(base, "attr-of-" + base)
        if isinstance(e, ast.Subscript):
            return self.expr_prov(e.value)     # a slice / element reference: same buffer (conservative)
        if isinstance(e, ast.Call):
            f = e.func
            name = f.attr if isinstance(f, ast.Attribute) else (f.id if isinstance(f, ast.Name) else "?")
            if name in VIEW_CALLS:
                args = e.args or ([f.value] if isinstance(f, ast.Attribute) else [])
                if isinstance(f, ast.Attribute) and name in ("reshape", "diagonal", "ravel", "view"):
                    return self.expr_prov(f.value)
                return self.expr_prov(args[0]) if args else "unknown"
            if name in FRESH_CALLS:
                return "fresh"
            return "unknown-call:" + name
        return "unknown"

    def bind(self, target, prov):
        if isinstance(target, ast.Name):
            self.prov[target.id] = prov
        elif isinstance(target, (ast.Tuple, ast.List)):
            for t in target.elts:
                self.bind(t, prov)

    def site(self, node, kind, target):
        r = root_name(target)
        p = self.prov.get(r, "global") if r not in ("<call>", "<expr>") else r
        if isinstance(target, ast.Attribute) and kind == "attr-store":
            base = self.expr_prov(target.value)
            p = base
        elif isinstance(target, (ast.Subscript,)):
            p = self.expr_prov(target.value)
        self.sites.append({"file": self.relfile, "function": self.qual, "kind": kind, "target": ast.unparse(target)[:60], "provenance": p})

    def visit_Assign(self, node):
        p = self.expr_prov(node.value)
        for t in node.targets:
            if isinstance(t, ast.Subscript):
                self.site(node, "subscript-store", t)
            elif isinstance(t, ast.Attribute):
                self.site(node, "attr-store", t)
            else:
                self.bind(t, p)
        self.generic_visit(node.value)

    def visit_AnnAssign(self, node):
        if node.value is not None:
            self.bind(node.target, self.expr_prov(node.value))

    def visit_AugAssign(self, node):
        if isinstance(node.target, ast.Subscript):
            self.site(node, "aug-subscript", node.target)
        elif isinstance(node.target, ast.Attribute):
            self.site(node, "aug-attr", node.target)
        else:
            self.site(node, "aug-name", node.target)

    def visit_For(self, node):
        it = self.expr_prov(node.iter)
        self.bind(node.target, "fresh" if it in ("fresh",) else ("elem-of-" + it))
        for st in node.body + node.orelse:
            self.visit(st)

    def visit_With(self, node):
        for st in node.body:
            self.visit(st)

    def visit_Call(self, node):
        f = node.func
        if isinstance(f, ast.Attribute) and f.attr in MUTATING_METHODS:
            self.site(node, "method:" + f.attr, f.value)
        for kw in node.keywords:
            if kw.arg == "out":
                self.site(node, "out=", kw.value)
            if kw.arg == "copy" and isinstance(kw.value, ast.Constant) and kw.value.value is False:
                self.sites.append({"file": self.relfile, "function": self.qual, "kind": "copy=False", "target": ast.unparse(node)[:60],
                                   "provenance": self.expr_prov(node.args[0]) if node.args else "unknown"})
        self.generic_visit(node)

    def visit_FunctionDef(self, node):     # nested function: scanned separately
        pass

    def visit_Expr(self, node):
        self.generic_visit(node)


def iter_functions(tree, prefix=""):
    for ch in ast.iter_child_nodes(tree):
        if isinstance(ch, (ast.FunctionDef, ast.AsyncFunctionDef)):
            yield prefix + ch.name, ch
            yield from iter_functions(ch, prefix + ch.name + ".")
        elif isinstance(ch, ast.ClassDef):
            yield from iter_functions(ch, prefix + ch.name + ".")
        elif isinstance(ch, (ast.If, ast.Try, ast.With, ast.For, ast.While)):
            yield from iter_functions(ch, prefix)


def source_files():
    for root, _, files in sorted(os.walk(core.SRC)):
        for fn in sorted(files):
            if fn.endswith(".py") and fn != "_verif.py":
                yield os.path.relpath(os.path.join(root, fn), core.SRC), os.path.join(root, fn)


def mutation_sites():
    out = []
    for rel, path in source_files():
        tree = ast.parse(open(path).read())
        for qual, node in iter_functions(tree):
            out += FuncScan(rel, qual, node).sites
    return out


def nondeterminism_sources():
    out = []
    for rel, path in source_files():
        tree = ast.parse(open(path).read())
        for n in ast.walk(tree):
            if isinstance(n, ast.Call):
                s = ast.unparse(n.func)
                if (s.startswith("random.") or s.startswith("np.random.") or s.startswith("numpy.random.") or s.startswith("time.")
                        or s in ("id", "hash", "os.urandom", "os.getpid", "uuid.uuid4", "datetime.now", "datetime.datetime.now",
                                 "os.cpu_count", "multiprocessing.cpu_count", "os.sched_getaffinity", "platform.machine", "platform.processor")
                        or s.startswith("threadpoolctl.") or s.endswith("threadpool_limits") or s.endswith("set_num_threads")
                        or "imap_unordered" in s or "as_completed" in s):
                    out.append({"file": rel, "call": s, "line_text": ast.unparse(n)[:70]})
            if isinstance(n, (ast.For, ast.comprehension)):
                it = n.iter
                if isinstance(it, ast.Call) and ast.unparse(it.func) in ("set", "frozenset"):
                    out.append({"file": rel, "call": "iterate-over-set", "line_text": ast.unparse(it)[:70]})
    return out


def cache_sites():
    out = []
    for rel, path in source_files():
        tree = ast.parse(open(path).read())
        for qual, node in iter_functions(tree):
            for d in node.decorator_list:
                s = ast.unparse(d)
                if "cache" in s:
                    out.append({"file": rel, "function": qual, "decorator": s})
    return out


def pool_sites():
    out = []
    for rel, path in source_files():
        src = open(path).read()
        tree = ast.parse(src)
        for qual, node in iter_functions(tree):
            for n in ast.walk(node):
                if isinstance(n, ast.Call):
                    s = ast.unparse(n.func)
                    if s.endswith((".close", ".join", ".terminate", ".apply_async", ".get")) and ("pool" in s.lower() or "task" in s.lower()) or s.endswith("Pool"):
                        ctx_ = "plain"
                        for t in ast.walk(node):
                            if isinstance(t, ast.Try):
                                if any(n in ast.walk(h) for h in t.handlers):
                                    ctx_ = "except"
                                elif any(n in ast.walk(b) for b in t.finalbody):
                                    ctx_ = "finally"
                                elif any(n in ast.walk(b) for b in t.body):
                                    ctx_ = "try-body"
                        out.append({"file": rel, "function": qual, "call": s, "context": ctx_})
    return out


def jit_frozen_globals():
    """module-level names that some function rebinds (`global X` + assignment) and that a Numba-compiled function reads:
    Numba treats a global read inside an njit function as a compile-time constant, the interpreter looks it up on every
    call - so after a rebinding the compiled and the interpreted kernel compute with different values"""
    out = []
    for rel, path in source_files():
        tree = ast.parse(open(path).read())
        rebound = set()
        for qual, node in iter_functions(tree):
            for n in ast.walk(node):
                if isinstance(n, ast.Global):
                    rebound.update(n.names)
        if not rebound:
            continue
        for qual, node in iter_functions(tree):
            if not any("njit" in ast.unparse(d) for d in node.decorator_list):
                continue
            local = {a.arg for a in node.args.args} | {t.id for n in ast.walk(node) if isinstance(n, ast.Assign) for t in n.targets if isinstance(t, ast.Name)}
            for n in ast.walk(node):
                if isinstance(n, ast.Name) and isinstance(n.ctx, ast.Load) and n.id in rebound and n.id not in local:
                    setters = [q for q, fnode in iter_functions(tree) if "." not in q and len(fnode.args.args) == 1
                               and any(isinstance(g, ast.Global) and n.id in g.names for g in ast.walk(fnode))]
                    out.append({"file": rel, "function": qual, "global": n.id, "setters": setters})
    return out
