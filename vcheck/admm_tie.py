"""Bit-exact correspondence between Model/Admm.v (binary64 instance) and fast_ticc/admm/solver.py,
shared by C02, C03 and C18."""
import math
import re

import numpy as np

from . import core
from .core import c_nat, c_list, c_float, c_bool


def fl(xs):
    return c_list([c_float(x) for x in xs])


def rows_lit(M):
    return c_list([fl(r) for r in M])


def lam_lit(lam):
    if isinstance(lam, np.ndarray):
        return "(inr %s)" % rows_lit(lam)
    return "(inl %s)" % c_float(lam)


def make_args(N, W, rho, lam, maxit=1000, abs_tol=1e-6, rel_tol=1e-6, rho_update=None):
    from fast_ticc.containers import arguments
    return arguments.ADMMArguments(window_size=W, num_data_series=N, rho=rho, rho_update=rho_update, sparsity_weight=lam,
                                   absolute_tolerance=abs_tol, relative_tolerance=rel_tol, max_iterations=maxit, verbose=False)


def random_cov(rng, n, kind):
    if kind == "diag":
        return np.diag(10.0 ** rng.uniform(-2, 2, size=n))
    Q, _ = np.linalg.qr(rng.normal(size=(n, n)))
    if kind == "full":
        e = rng.uniform(0.25, 4.0, size=n)
    elif kind == "rankdef":
        e = rng.uniform(0.25, 4.0, size=n)
        e[rng.random(n) < 0.5] = 0.0
    else:  # strongly correlated
        e = np.concatenate([[n * 3.0], np.full(n - 1, 0.05)])
    S = (Q * e) @ Q.T
    return (S + S.T) / 2


def gen_unit_cases(rng, budget):
    """cases for the scalar / vector level functions.  Returns dict kind -> list of (coq_literal, description)."""
    from fast_ticc.admm import solver
    out = {k: [] for k in ("soft", "sum", "lam_scalar", "lam_matrix", "z", "u", "theta", "zero_small", "conv")}
    # 1 soft threshold (incl. boundaries s == q, s == -q, zero rr-quotients, negative zero)
    for i in range(budget):
        q = float(abs(rng.standard_normal()) * 10.0 ** rng.integers(-3, 3)) if i % 5 else 0.0
        s = float(rng.standard_normal() * 10.0 ** rng.integers(-3, 3))
        if i % 7 == 0:
            s = q
        if i % 7 == 1:
            s = -q
        if i % 11 == 0:
            s = 0.0
        rr = float(rng.integers(1, 15)) * float(10.0 ** rng.integers(-1, 2))
        e = solver.soft_threshold_prox(s, q, rr)
        out["soft"].append(("(%s, %s, %s, %s)" % (c_float(s), c_float(q), c_float(rr), c_float(e)), {"s": s, "q": q, "rr": rr, "got": float(e)}))
    # 2a np.sum on fancy-indexed short arrays
    for i in range(budget):
        n = int(rng.integers(1, 62))
        big = rng.standard_normal(200) * 10.0 ** rng.integers(-3, 4)
        idx = [int(x) for x in rng.integers(0, 200, size=n)]
        a = big[idx]
        out["sum"].append(("(%s, %s)" % (fl(a), c_float(np.sum(a))), {"a": [float(x) for x in a]}))
    # 2b / 2c lambda sums
    for i in range(budget):
        W = int(rng.integers(1, 16)); b = int(rng.integers(0, W))
        lam = float([0.11, 0.3, 0.7, 1e-3, 5.0, float(rng.random())][i % 6])
        e = solver.compute_lambda_sum(lam, b, 0, 0, 2, W)
        out["lam_scalar"].append(("(%s, %s, %s, %s)" % (c_float(lam), c_nat(b), c_nat(W), c_float(e)), {"lam": lam, "b": b, "W": W}))
    for i in range(max(8, budget // 6)):
        N = int(rng.integers(1, 4)); W = int(rng.integers(1, 8)); n = N * W
        if i % 3 == 0:
            L = np.full((n, n), [0.3, 0.7, 0.11][i % 3 - 0])
        else:
            L = np.abs(rng.standard_normal((n, n))); L = (L + L.T) / 2
        b = int(rng.integers(0, W)); r = int(rng.integers(0, N)); c = int(rng.integers(r if b == 0 else 0, N))
        e = solver.compute_lambda_sum(L, b, r, c, N, W)
        out["lam_matrix"].append(("(%s, %s, %s, %s, %s, %s, %s)" % (rows_lit(L), c_nat(b), c_nat(r), c_nat(c), c_nat(N), c_nat(W), c_float(e)),
                                  {"N": N, "W": W, "class": [b, r, c], "constant": i % 3 == 0}))
    # 3 Z update, 4 U update
    shapes = [(1, 1), (1, 2), (2, 1), (2, 2), (1, 9), (3, 2), (2, 4), (1, 17), (3, 3), (4, 2), (2, 6)]
    for i in range(max(10, budget // 8)):
        N, W = shapes[i % len(shapes)]
        n = N * W; m = n * (n + 1) // 2
        rho = [1, 1.0, 0.1, 10.0, 2.5][i % 5]
        if i % 3 == 2:
            lam = np.abs(rng.standard_normal((n, n))) * 0.3; lam = (lam + lam.T) / 2
        elif i % 3 == 1:
            lam = np.full((n, n), 0.11)
        else:
            lam = float([0.11, 0.0, 1.0, 1e-3, 5.0][i % 5])
        u = rng.standard_normal(m) * 0.3
        x = rng.standard_normal(m)
        if i % 4 == 0:
            x = np.round(x * 4) / 4; u = np.round(u * 4) / 4   # many exact zeros after thresholding
        z = solver.admm_update_z(make_args(N, W, rho, lam), u, x)
        out["z"].append(("(%s, %s, %s, %s, %s, %s, %s)" % (c_nat(N), c_nat(W), c_float(rho), lam_lit(lam), fl(u), fl(x), fl(z)),
                         {"N": N, "W": W, "rho": float(rho), "lam": "matrix" if isinstance(lam, np.ndarray) else lam}))
        un = solver.admm_update_u(u, x, z)
        out["u"].append(("(%s, %s, %s, %s)" % (fl(u), fl(x), fl(z), fl(un)), {"m": m}))
    # 5 eigenvalue map through x_update_prox on diagonal inputs
    for i in range(max(10, budget // 6)):
        n = int(rng.integers(1, 6))
        rho = [1, 1.0, 0.1, 10.0, 3.0][i % 5]
        svar = 10.0 ** rng.uniform(-12, 12, size=n)
        if i % 4 == 0:
            svar = np.array([1e9, 1e8, 1e12, 1.0, 1e-9][:n])
        zmu = np.diag(rng.standard_normal(n) * 10.0 ** rng.integers(-2, 3))
        rec = {}
        orig = solver.np.linalg.eigh

        def eigh(a, *args, **kw):
            d, q = orig(a, *args, **kw)
            rec["d"], rec["q"] = d.copy(), q.copy()
            return d, q
        solver.np.linalg.eigh = eigh
        try:
            comp = solver.x_update_prox(np.diag(svar), zmu, rho)
        finally:
            solver.np.linalg.eigh = orig
        from fast_ticc import matrix_compression as mc
        Theta = mc.reinflate_matrix(comp)
        q = rec["q"]
        if not (np.all((q == 0) | (np.abs(q) == 1)) and np.all(np.sum(np.abs(q), axis=0) == 1)):
            continue  # eigenvectors not a signed permutation: products not exact, skip
        perm = np.argmax(np.abs(q), axis=0)   # eigenvalue j belongs to coordinate perm[j]
        for j in range(n):
            out["theta"].append(("(%s, %s, %s)" % (c_float(rho), c_float(rec["d"][j]), c_float(Theta[perm[j], perm[j]])),
                                 {"rho": float(rho), "d": float(rec["d"][j]), "theta": float(Theta[perm[j], perm[j]])}))
    # 6 small-element filter
    from fast_ticc import graphical_lasso as gl
    for i in range(max(6, budget // 10)):
        eps = [0.0, 1e-6, 1e-3, 0.1, 0][i % 5]
        xs = np.concatenate([rng.standard_normal(12) * 10.0 ** rng.integers(-7, 1), [0.0, -0.0, eps, -eps, np.nextafter(eps, 1), -np.nextafter(eps, 1),
                                                                                  np.nextafter(eps, 0), -np.nextafter(eps, 0)]]).astype(float)
        keep = xs.copy()
        e = gl._zero_small_elements(xs, eps)
        assert np.array_equal(xs, keep, equal_nan=True)
        out["zero_small"].append(("(%s, %s, %s)" % (c_float(eps), fl(xs), fl(e)),
                                  {"eps": float(eps), "xs_hex": [float(v).hex() for v in xs], "out_hex": [float(v).hex() for v in e]}))
    # 7 convergence test
    for i in range(max(10, budget // 6)):
        m = int(rng.integers(1, 80))
        x = rng.standard_normal(m); z = x + rng.standard_normal(m) * 10.0 ** rng.integers(-9, -2)
        zo = z + rng.standard_normal(m) * 10.0 ** rng.integers(-9, -2); u = rng.standard_normal(m) * 0.1
        rho = [1, 0.1, 10.0][i % 3]
        a, r = [(1e-6, 1e-6), (1e-4, 1e-3), (0.0, 1e-6), (1e-8, 0.0)][i % 4]
        args = make_args(1, 1, rho, 0.1, abs_tol=a, rel_tol=r)
        stop, rp, tp, rd, td = solver.check_convergence(args, u, x, z, zo)
        norm = np.linalg.norm
        nx, nz, nru = norm(x), norm(z), norm(rho * u)
        out["conv"].append(("(%s, %s, %s, %s, %s, %s, %s, %s, %s, %s, %s)" % (c_nat(m), c_float(a), c_float(r), c_float(nx), c_float(nz), c_float(nru),
                            c_float(rp), c_float(rd), c_float(tp), c_float(td), c_bool(bool(stop))), {"m": m, "stop": bool(stop)}))
    return out


KIND_TYPES = {
    "soft": ("float * float * float * float", "chk_soft"),
    "sum": ("list float * float", "chk_sum"),
    "lam_scalar": ("float * nat * nat * float", "chk_lam_scalar"),
    "lam_matrix": ("list (list float) * nat * nat * nat * nat * nat * float", "chk_lam_matrix"),
    "z": ("nat * nat * float * (float + list (list float)) * list float * list float * list float", "chk_z"),
    "u": ("list float * list float * list float * list float", "chk_u"),
    "theta": ("float * float * float", "chk_theta"),
    "zero_small": ("float * list float * list float", "chk_zero_small"),
    "conv": ("nat * float * float * float * float * float * float * float * float * float * bool", "chk_conv"),
    "loop_cb": ("nat * nat * float * (float + list (list float)) * nat * float * float * list (list float) * list (float * float * float * float * float) * nat * bool * list float * list float", "chk_loop_cb"),
    "loop": ("nat * nat * float * (float + list (list float)) * nat * float * float * list (list float) * list (float * float * float * float * float) * nat * bool * list float * list float", "chk_loop"),
}


def coq_file(kind, lits):
    typ, fn = KIND_TYPES[kind]
    return ("From Coq Require Import List Arith PrimFloat.\nImport ListNotations.\nFrom Ticc Require Import Corr.RunAdmm.\nOpen Scope float_scope.\n"
            "Definition cases : list (%s) := [\n%s].\nDefinition answers := Eval vm_compute in (bad (map %s cases)).\nPrint answers.\n"
            % (typ, ";\n".join(lits), fn))


def evaluate(ctx, cases, kinds, corr_prefix="Admm"):
    """cases: dict kind -> list of (literal, description).  Reports tie mismatches; returns counts."""
    jobs = []
    index = []
    for k in kinds:
        lst = cases.get(k, [])
        CH = 200 if k not in ("z", "loop", "loop_cb", "lam_matrix") else (25 if k in ("z", "lam_matrix") else 2)
        for a in range(0, len(lst), CH):
            jobs.append(("%s_%d" % (k, a // CH), coq_file(k, [l for l, _ in lst[a:a + CH]])))
            index.append((k, a))
    if not jobs:
        return
    res = ctx.coq_eval_many(jobs)
    for (k, a), (name, _), (ok, out) in zip(index, jobs, res):
        m = re.search(r"answers\s*=\s*\[(.*?)\]\s*:\s*list", out, re.S)
        if not ok or not m:
            ctx.violation("tie", "model evaluation failed for %s" % name, {"correspondence": "tie:%s.%s" % (corr_prefix, k), "log": out[-1500:]}, no_input=True)
            continue
        for tok in [t for t in m.group(1).split(";") if t.strip()]:
            i = int(re.sub(r"%\w+", "", tok).strip())
            ctx.tie_mismatch("%s.%s" % (corr_prefix, k), "binary64 model and solver.py disagree on %s" % k, {"kind": k, "case": cases[k][a + i][1]})
            break


def record_solver_run(N, W, S, lam, rho=1, maxit=1000, abs_tol=1e-6, rel_tol=1e-6, rho_update=None):
    """run admm_optimize_theta with the H2 listener; returns dict with iterates / norms / result"""
    from fast_ticc import _verif, admm
    events = []

    def listener(event, payload):
        if event.startswith("admm_"):
            rec = {"event": event}
            for k, v in payload.items():
                if isinstance(v, np.ndarray):
                    rec[k] = v.copy()
                elif k == "args":
                    rec["rho_final"] = v.rho
                else:
                    rec[k] = v
            events.append(rec)
    _verif.clear_listeners()
    _verif.add_listener(listener)
    try:
        res = admm.admm_optimize_theta(S, lam, W, N, rho=rho, rho_update=rho_update, max_iterations=maxit,
                                       absolute_tolerance=abs_tol, relative_tolerance=rel_tol)
    finally:
        _verif.clear_listeners()
    its = [e for e in events if e["event"] == "admm_iter"]
    stop = [e for e in events if e["event"] == "admm_stop"]
    ex = [e for e in events if e["event"] == "admm_exit"]
    return {"theta": res.theta, "iters": its, "stop": stop[0] if stop else None, "exit": ex[0] if ex else None}


def loop_case_literal(N, W, S, lam, rho, maxit, abs_tol, rel_tol, rec):
    norm = np.linalg.norm
    xs = [e["x"] for e in rec["iters"]]
    ns = []
    for e in rec["iters"]:
        x, z, u, zo, r = e["x"], e["z"], e["u"], e["z_old"], e["rho"]
        ns.append((norm(x), norm(z), norm(r * u), norm(x - z), norm(r * (z - zo))))
    last = rec["iters"][-1]
    lit = "(%s, %s, %s, %s, %s, %s, %s, %s, %s, %s, %s, %s, %s)" % (
        c_nat(N), c_nat(W), c_float(rho), lam_lit(lam), c_nat(maxit), c_float(abs_tol), c_float(rel_tol),
        c_list([fl(x) for x in xs]), c_list(["(%s, %s, %s, %s, %s)" % tuple(c_float(v) for v in n) for n in ns]),
        c_nat(len(xs)), c_bool(rec["stop"] is not None), fl(last["z"]), fl(last["u"]))
    return lit
