"""Shared machinery of the checks: Coq build / evaluation, evidence, replays,
known findings, verdict.  See DESIGN.md section 2.3 for the decision procedure."""
import ast
import contextlib
import fcntl
import hashlib
import json
import os
import re
import subprocess
import sys
import time
import traceback

VERIF = os.path.dirname(os.path.dirname(os.path.abspath(__file__)))
REPO = os.environ.get("VCHECK_REPO", "/repo")
SRC = os.path.join(REPO, "src", "fast_ticc")
COQ = os.path.join(VERIF, "coq")
WORK = os.path.join(VERIF, ".work")
PY = "/venv/bin/python"

AUDIT_RE = re.compile(
    r"\b(Admitted|admit|Axiom|Axioms|Parameter|Parameters|Conjecture|Hypothesis|Hypotheses"
    r"|Variable|Variables|Context|bypass_check|Admit Obligations)\b|Unset Guard|Unset Positivity|Unset Universe"
    r"|type-in-type|impredicative-set|native_compute")

# axioms the standard library declares and that theorems over R may use
STDLIB_AXIOMS = {
    "ClassicalDedekindReals.sig_forall_dec",
    "ClassicalDedekindReals.sig_not_dec",
    "FunctionalExtensionality.functional_extensionality_dep",
    "Classical_Prop.classic",
}

R_AX = sorted(STDLIB_AXIOMS)


# primitive float / int63 constants show up under "Axioms:" in Print Assumptions; they are
# the kernel's native binary64 / 63-bit integer primitives, not declared axioms
FLOAT_PRIMS = {"float", "add", "sub", "mul", "div", "sqrt", "ltb", "leb", "eqb", "abs", "opp", "compare",
               "classify", "normfr_mantissa", "frshiftexp", "ldshiftexp", "of_uint63", "next_up", "next_down",
               "PrimFloat.float", "PrimFloat.add", "PrimFloat.sub", "PrimFloat.mul", "PrimFloat.div",
               "PrimFloat.sqrt", "PrimFloat.ltb", "PrimFloat.leb", "PrimFloat.eqb", "PrimFloat.abs", "PrimFloat.opp",
               "PrimFloat.compare", "PrimFloat.classify", "PrimFloat.normfr_mantissa", "PrimFloat.frshiftexp",
               "PrimFloat.ldshiftexp", "PrimFloat.of_uint63", "PrimFloat.next_up", "PrimFloat.next_down"}


def is_primitive(name):
    return name in FLOAT_PRIMS or name.startswith("PrimInt63.") or name.startswith("Uint63.") and False


# The standard library specifies the primitive float / 63-bit integer operations by axioms (Coq.Floats.FloatAxioms:
# add_spec, mul_spec, ..., Prim2SF_valid, SF2Prim_Prim2SF, Prim2SF_SF2Prim; Coq.Numbers.Cyclic.Int63.Uint63: add_spec,
# of_to_Z, eqb_correct, ...).  Theorems about binary64 that go through Flocq's bridge depend on them; they are allowed
# for the properties that opt in with the token FLOAT_SPEC and are named in the evidence.
FLOAT_SPEC = "@float-spec"
FLOAT_SPEC_RE = re.compile(r"^(FloatAxioms\.)?(\w+_spec|Prim2SF_valid|SF2Prim_Prim2SF|Prim2SF_SF2Prim|Prim2SF_inj|SF2Prim_inj)$|^Uint63\.\w+$")


def axiom_allowed(name, allowed):
    if name in allowed or is_primitive(name):
        return True
    return FLOAT_SPEC in allowed and bool(FLOAT_SPEC_RE.match(name))


TRUSTED_BASE_COMMON = [
    "Coq 8.16.1 kernel incl. the vm_compute reduction machine (native_compute not used)",
    "hand-written Gallina model under /verif/coq/Model tied to /repo by the correspondence harness /verif/vcheck (Python 3.12, NumPy) - differential testing, not proof",
    "CPython / NumPy semantics of the implementation side of the correspondence",
]


def sh(cmd, timeout=600, cwd=None, env=None):
    t0 = time.time()
    try:
        p = subprocess.run(cmd, shell=isinstance(cmd, str), cwd=cwd, env=env, timeout=timeout,
                           stdout=subprocess.PIPE, stderr=subprocess.STDOUT, text=True)
        return p.returncode, p.stdout, time.time() - t0
    except subprocess.TimeoutExpired as e:
        out = e.stdout.decode() if isinstance(e.stdout, bytes) else (e.stdout or "")
        return 124, out + "\n[timeout after %ss]" % timeout, time.time() - t0


# ---------------------------------------------------------------- Coq literals
def c_nat(n):
    return "%d%%nat" % int(n)


def c_Z(n):
    n = int(n)
    return "(%d)%%Z" % n


def c_float(x):
    x = float(x)
    if x != x:
        return "nan"
    if x == float("inf"):
        return "infinity"
    if x == float("-inf"):
        return "neg_infinity"
    h = x.hex()
    return "(%s)%%float" % h


def c_bool(b):
    return "true" if b else "false"


def c_list(xs, f=str):
    return "[" + "; ".join(f(x) for x in xs) + "]"


def c_opt(x, f=str):
    return "None" if x is None else "(Some %s)" % f(x)


def digest(*objs):
    h = hashlib.sha256()
    for o in objs:
        h.update(repr(o).encode())
    return h.hexdigest()[:16]


# ---------------------------------------------------------------- context
class Ctx:
    def __init__(self, prop, tier, seed, replay=None):
        self.prop = prop
        self.tier = tier
        self.seed = seed
        self.replay_path = replay
        self.t0 = time.time()
        self.work = os.path.join(WORK, prop)
        os.makedirs(self.work, exist_ok=True)
        self.violations = []      # dicts: kind, what, replay(dict), no_input
        self.known_printed = []
        self.obligations = []     # (name, ok, axioms)
        self.coverage = {"evaluations": 0, "samples": [], "streams": {}}
        self.nontrivial = set()
        self.assumptions = []
        self.notes = {}
        self.level_axioms_allowed = set()
        with open(os.path.join(VERIF, "known_findings.json")) as f:
            self.known = json.load(f)
        self.thorough = tier == "thorough"

    # ---- budgets
    def budget(self, quick, thorough):
        """case budget; when an anchored function no longer has the AST the model was written against
        (source_drift) the quick tier explores with the thorough budget"""
        n = thorough if self.thorough else quick
        if self.notes.get("source_drift"):
            n = max(n, thorough)
        return n

    # ---- proof layer
    def coq_build(self):
        """Full .vo build of the development (incremental make under a lock)."""
        os.makedirs(WORK, exist_ok=True)
        lock = open(os.path.join(WORK, "coq.lock"), "w")
        fcntl.flock(lock, fcntl.LOCK_EX)
        try:
            # second tie: regenerate the translated definitions from the current source (files are rewritten only
            # when their text changes, so make stays incremental)
            try:
                from . import py2coq
                self.translator_report = py2coq.regenerate(SRC, os.path.join(COQ, "Gen"))
            except Exception as e:  # noqa
                self.translator_report = {"*": {"*": "translator crashed: %s" % e}}
            proj = os.path.join(COQ, "_CoqProject")
            listed = open(proj).read() if os.path.exists(proj) else ""
            wip = set(l.strip() for l in open(os.path.join(COQ, "WIP")) if l.strip()) if os.path.exists(os.path.join(COQ, "WIP")) else set()
            on_disk = [os.path.join(d, f) for d in ("Gen", "Proofs", "Properties") for f in sorted(os.listdir(os.path.join(COQ, d)))
                       if f.endswith(".v") and os.path.join(d, f) not in wip]
            if not os.path.exists(os.path.join(COQ, "Makefile")) or any(f not in listed for f in on_disk):
                rc, out, _ = sh("./gen_project.sh", cwd=COQ)
                if rc != 0:
                    return False, out
            rc, out, dt = sh("timeout 1500 make -k -j%d" % (os.cpu_count() or 4), timeout=1600, cwd=COQ)
            self.notes["coq_make_s"] = round(dt, 1)
            # only this property's own statement file (and hence everything it depends on) must have built
            targets = ["Properties/%s.vo" % f for f in self.statement_files()] + ["%s.vo" % d for d in getattr(self, "coq_deps", [])]
            rcq, _, _ = sh("make -q " + " ".join(targets), timeout=120, cwd=COQ)
            ok = rcq == 0 and all(os.path.exists(os.path.join(COQ, t)) for t in targets)
            self.stale_targets = []
            if not ok:
                self.make_log = out
                for t in targets:
                    rct, _, _ = sh("make -q " + t, timeout=120, cwd=COQ)
                    if rct != 0 or not os.path.exists(os.path.join(COQ, t)):
                        self.stale_targets.append(t)
            if rc != 0:
                self.notes["coq_make_other_failures"] = out[-600:]
            return ok, out
        finally:
            fcntl.flock(lock, fcntl.LOCK_UN)
            lock.close()

    def audit(self):
        """grep audit of the whole development for escape hatches."""
        bad = []
        wip = set(l.strip() for l in open(os.path.join(COQ, "WIP")) if l.strip()) if os.path.exists(os.path.join(COQ, "WIP")) else set()
        for root, _, files in os.walk(COQ):
            for fn in files:
                if not fn.endswith(".v"):
                    continue
                p = os.path.join(root, fn)
                if os.path.relpath(p, COQ) in wip:
                    continue      # work in progress: not part of the build (gen_project.sh leaves these files out)
                txt = open(p).read()
                txt_nc = strip_coq_comments(txt)
                for m in AUDIT_RE.finditer(txt_nc):
                    # Section-local Variable/Hypothesis are fine; we flag only the words above.
                    # `Hypothesis` is allowed inside a Section: check nesting.
                    if m.group(0) in ("Hypothesis", "Hypotheses", "Variable", "Variables", "Context") and inside_section(txt_nc, m.start()):
                        continue
                    bad.append("%s: %s" % (os.path.relpath(p, COQ), m.group(0)))
        return bad

    def proof_layer(self, allowed_axioms=(), coq_deps=(), gen=()):
        """coq_deps: Corr/... files (without extension) the generated cases import; they must be up to date too.
        gen: translated modules (py2coq.TARGETS keys) whose equivalence theorems this property relies on."""
        allowed = set(allowed_axioms)
        self.gen = list(gen)
        equiv = {"unique_values": "Proofs/GenEquivUV", "data_preparation": "Proofs/GenEquivDP", "main_loop": "Proofs/GenEquivML",
                 "cluster_label_assignment": "Proofs/GenEquivLA", "solver": "Proofs/GenEquivSV", "cluster_metrics": "Proofs/GenEquivCM",
                 "solver_loop": "Proofs/GenEquivSL", "likelihood": "Proofs/GenEquivLK", "main_loop_results": "Proofs/GenEquivMR",
                 "front_single": "Proofs/GenEquivFE", "front_joint": "Proofs/GenEquivFE", "main_loop_suffix": "Proofs/GenEquivRS", "main_loop_full": "Proofs/GenEquivMF",
                 "cm_repopulate": "Proofs/GenEquivPH", "cm_update_all": "Proofs/GenEquivPH", "la_predict": "Proofs/GenEquivPH",
                 "ll_point": "Proofs/GenEquivLW", "ll_table": "Proofs/GenEquivLW", "gl_stats": "Proofs/GenEquivLW", "la_initial": "Proofs/GenEquivLW",
                 "cm_ranked": "Proofs/GenEquivAR", "ua_shallow": "Proofs/GenEquivAR", "ua_deep": "Proofs/GenEquivAR", "aa_shallow": "Proofs/GenEquivAR", "aa_deep": "Proofs/GenEquivAR",
                 "cp_init": "Proofs/GenEquivCO", "cp_empty": "Proofs/GenEquivCO", "cp_shallow": "Proofs/GenEquivCO", "cp_deep": "Proofs/GenEquivCO",
                 "st_init": "Proofs/GenEquivCO", "st_empty": "Proofs/GenEquivCO", "st_shallow": "Proofs/GenEquivCO", "st_deep": "Proofs/GenEquivCO",
                 "cp_size": "Proofs/GenEquivRM", "cp_members": "Proofs/GenEquivRM", "st_labels": "Proofs/GenEquivRM", "ua_print": "Proofs/GenEquivRM",
                 "ng_prange": "Proofs/GenEquivRM", "ng_njit": "Proofs/GenEquivRM", "ng_noop": "Proofs/GenEquivRM",
                 "vh_emit": "Proofs/GenEquivRM", "vh_add": "Proofs/GenEquivRM", "vh_clear": "Proofs/GenEquivRM",
                 "front_split": "Proofs/GenEquivGU", "admm_front": "Proofs/GenEquivGU", "admm_x": "Proofs/GenEquivGU", "pool": "Proofs/GenEquivGU",
                 "cluster_maintenance": "Proofs/GenEquivCR", "graphical_lasso": "Proofs/GenEquivGL",
                 "matrix_compression": "Proofs/GenEquivMC", "model_state": "Proofs/GenEquivMS",
                 "gl_optimize": "Proofs/GenEquivGO", "gl_setup": "Proofs/GenEquivGO", "gl_retrieve": "Proofs/GenEquivGO", "gl_update": "Proofs/GenEquivGO"}
        self.coq_deps = list(coq_deps) + [equiv[g] for g in self.gen]
        t_pl = time.time()
        try:
            return self._proof_layer(allowed)
        finally:
            self.notes["proof_layer_wall_s"] = round(time.time() - t_pl, 1)

    def statement_files(self):
        """Properties/<ID>.v plus optional companions Properties/<ID><suffix>.v
        (gen: theorems about the code as translated by py2coq; mx: mathcomp matrix statements)."""
        d = os.path.join(COQ, "Properties")
        return sorted(f[:-2] for f in os.listdir(d) if re.fullmatch(re.escape(self.prop) + r"[a-z]*\.v", f))

    def _proof_layer(self, allowed):
        ok, out = self.coq_build()
        files = self.statement_files()
        stale = set(getattr(self, "stale_targets", []))
        # translator tie: every function of the modules this property relies on must have been translated, and the
        # theorems "generated definition = model" must still compile against the regenerated text
        rep = getattr(self, "translator_report", {})
        self.notes["translator"] = {m: rep.get(m, {"*": "not run"}) for m in self.gen}
        for m in self.gen:
            bad_fns = {f: st for f, st in rep.get(m, {"*": "not run"}).items() if st != "ok"}
            if bad_fns:
                self.tie_mismatch("translator:py2coq:" + m, "the source of %s is outside the translated subset: %s" % (m, bad_fns),
                                  {"functions": bad_fns})
        stale_equiv = sorted(t for t in stale if "GenEquiv" in t)
        if stale_equiv:
            self.tie_mismatch("generated-code-equivalence:" + ",".join(stale_equiv),
                              "the theorems 'translated source = model' (%s) no longer check against the code as it is now" % ", ".join(stale_equiv),
                              {"theorem_files": stale_equiv, "log_tail": gen_equiv_errors(out)})
        other_stale = sorted(t for t in stale if "GenEquiv" not in t and t != "Properties/%sgen.vo" % self.prop)
        if other_stale or (not ok and not stale):
            self.violation("proof", "the Coq development does not build (%s)" % ", ".join(other_stale),
                           {"theorem": "build", "stale": other_stale, "log_tail": out[-3000:]}, no_input=True)
        bad = self.audit()
        if bad:
            self.violation("proof", "audit grep found escape hatches: %s" % bad[:5],
                           {"theorem": "audit", "hits": bad}, no_input=True)
        good = not bad and not stale and ok
        for fbase in files:
            names = property_theorems(os.path.join(COQ, "Properties", fbase + ".v"))
            if "Properties/%s.vo" % fbase in stale or (not ok and not stale):
                self.obligations += [(n, False, []) for n in names]
                good = False
                continue
            # Print Assumptions (re-run coqc on the statement file; prints are on stdout)
            rc, o1, _ = sh("timeout 300 coqc -Q . Ticc -w none Properties/%s.v -o %s" %
                           (fbase, os.path.join(self.work, fbase + ".vo")), timeout=320, cwd=COQ)
            if rc != 0:
                self.obligations += [(n, False, []) for n in names]
                self.violation("proof", "Properties/%s.v does not compile" % fbase,
                               {"theorem": "Properties/%s.v" % fbase, "log_tail": o1[-3000:]}, no_input=True)
                good = False
                continue
            blocks = parse_assumptions(o1)
            if len(blocks) != len(names):
                self.obligations += [(n, False, []) for n in names]
                self.violation("proof", "Print Assumptions count %d != theorem count %d in %s" % (len(blocks), len(names), fbase),
                               {"theorem": "Print Assumptions", "out": o1[-2000:]}, no_input=True)
                good = False
                continue
            if self.tier == "thorough":
                # independent re-check of the compiled statement file and everything it depends on
                rc2, out2, dt2 = sh("timeout 1500 coqchk -silent -o -Q . Ticc Ticc.Properties.%s" % fbase, timeout=1600, cwd=COQ)
                self.notes["coqchk_s"] = round(self.notes.get("coqchk_s", 0) + dt2, 1)
                m2 = re.search(r"\* Axioms:(.*?)\* Constants/Inductives relying on type-in-type", out2, re.S)
                chk_ax = [l.strip() for l in (m2.group(1).splitlines() if m2 else []) if l.strip() and l.strip() != "<none>"]
                declared = [a for a in chk_ax if not (a.startswith("Coq.Floats.PrimFloat.") or a.startswith("Coq.Numbers.Cyclic.Int63.")
                                                      or (FLOAT_SPEC in allowed and a.startswith("Coq.Floats.FloatAxioms.")))]
                self.notes.setdefault("coqchk_axioms_beyond_primitives", [])
                self.notes["coqchk_axioms_beyond_primitives"] = sorted(set(self.notes["coqchk_axioms_beyond_primitives"]) | set(declared))
                ok_names = {"Coq.Logic.FunctionalExtensionality.functional_extensionality_dep", "Coq.Reals.ClassicalDedekindReals.sig_not_dec",
                            "Coq.Reals.ClassicalDedekindReals.sig_forall_dec", "Coq.Logic.Classical_Prop.classic"}
                if rc2 != 0 or "type-in-type: <none>" not in out2 or "unsafe (co)fixpoints: <none>" not in out2 or "positivity is assumed: <none>" not in out2 \
                        or any(a not in ok_names for a in declared):
                    self.violation("proof", "coqchk does not accept Properties/%s.vo cleanly (rc=%s, axioms %s)" % (fbase, rc2, declared),
                                   {"theorem": "coqchk:Properties/%s" % fbase, "log_tail": out2[-2000:]}, no_input=True)
            for n, axs in zip(names, blocks):
                ax_ok = all(axiom_allowed(a, allowed) for a in axs)
                self.obligations.append((n, ax_ok, axs))
                if not ax_ok:
                    good = False
                    self.violation("proof", "theorem %s depends on axioms outside the allow-list: %s" % (n, axs),
                                   {"theorem": n, "axioms": axs}, no_input=True)
        return good

    # ---- evaluating the model inside Coq
    def coq_eval(self, name, text, timeout=600):
        """Compile a generated file; return (ok, stdout)."""
        path = os.path.join(self.work, name + ".v")
        with open(path, "w") as f:
            f.write(text)
        rc, out, dt = sh("ulimit -s 4000000 2>/dev/null; timeout %d coqc -Q %s Ticc -w none %s" % (timeout, COQ, path),
                         timeout=timeout + 20, cwd=self.work)
        self.notes.setdefault("coqc_cases_s", 0)
        self.notes["coqc_cases_s"] = round(self.notes["coqc_cases_s"] + dt, 1)
        return rc == 0, out

    def coq_eval_many(self, jobs, timeout=600):
        """jobs: list of (name, text); run in parallel; return list of (ok, out)."""
        from concurrent.futures import ThreadPoolExecutor
        t0 = time.time()
        with ThreadPoolExecutor(max_workers=min(len(jobs), os.cpu_count() or 4) or 1) as ex:
            res = list(ex.map(lambda j: self.coq_eval(j[0], j[1], timeout), jobs))
        self.notes["coq_eval_wall_s"] = round(self.notes.get("coq_eval_wall_s", 0) + time.time() - t0, 1)
        return res

    # ---- bookkeeping
    def count(self, stream, n=1):
        self.coverage["evaluations"] += n
        self.coverage["streams"][stream] = self.coverage["streams"].get(stream, 0) + n

    def sample(self, s, limit=6):
        if len(self.coverage["samples"]) < limit:
            self.coverage["samples"].append(s)

    def mark_nontrivial(self, key):
        self.nontrivial.add(key if isinstance(key, str) else digest(key))

    def violation(self, kind, what, replay, no_input=False):
        self.violations.append({"kind": kind, "what": what, "replay": replay, "no_input": no_input})

    def tie_mismatch(self, corr, what, detail):
        """model and implementation disagree on an input: the correspondence `corr` no longer checks.
        This is not by itself a failing input for the property (the monitors decide that)."""
        d = dict(detail)
        d["correspondence"] = corr
        d["note"] = "first disagreeing case(s) of the correspondence; the property monitor did not fail on it unless a separate violation says so"
        self.violation("tie:" + corr, what, d, no_input=True)

    def finding(self, key, what, replay):
        """A concrete failing input was found; decide known finding vs violation."""
        for e in self.known.get("findings", []):
            if e.get("status") == "open" and e["property"] == self.prop and e["key"] == key:
                line = "KNOWN-FINDING: property=%s %s" % (self.prop, e["what"])
                if line not in self.known_printed:
                    self.known_printed.append(line)
                    print(line, flush=True)
                return True
        self.violation("finding:" + key, what, replay, no_input=False)
        return False

    @contextlib.contextmanager
    def guard(self, what, case):
        """Turn an unexpected exception of the implementation into a violation with the input."""
        try:
            yield
        except Exception as e:  # noqa
            tb = e.__traceback__
            while tb is not None and tb.tb_next is not None:
                tb = tb.tb_next
            raised_in = tb.tb_frame.f_code.co_filename if tb is not None else ""
            if isinstance(e, TypeError) and os.sep + "vcheck" + os.sep in raised_in and \
                    re.search(r"missing \d+ required|takes (from )?\d+ (to \d+ )?positional|unexpected keyword argument|got multiple values", str(e)):
                # raised by the harness's own call expression, not inside the library: the function's signature is no longer the one
                # the harness calls it with.  That breaks the harness (a tie), it is not an input on which the property fails.
                self.violation("tie", "the harness can no longer call %s the way it does (%s): what this stream covered is not shown any more" % (what, e),
                               {"correspondence": "harness:call-signature:" + what, "traceback": traceback.format_exc()[-1500:]}, no_input=True)
                return
            self.violation("exception", "%s raised %s: %s" % (what, type(e).__name__, e),
                           {"case": case, "traceback": traceback.format_exc()[-2000:]})

    # ---- verdict
    def finish(self, rule, level="proof", extra=None):
        wall = time.time() - self.t0
        nobl = len(self.obligations)
        ndis = sum(1 for o in self.obligations if o[1])
        axioms = sorted({a for o in self.obligations for a in o[2]})
        cov = dict(self.coverage)
        cov.update({
            "obligations": nobl, "discharged": ndis,
            "checker_cmd": "make -C /verif/coq (coqc 8.16.1, full .vo build) && coqc Properties/%s.v (Print Assumptions)" % self.prop,
            "trusted_base": TRUSTED_BASE_COMMON + ["axioms reported by Print Assumptions: %s" % (axioms or "none (closed under the global context)")] + self.assumptions,
            "theorems": [{"name": n, "ok": ok, "axioms": ax} for n, ok, ax in self.obligations],
            "distinct_nontrivial": len(self.nontrivial),
            "rule": rule,
            "exhaustive": bool(self.notes.get("exhaustive", False)),
            "notes": self.notes,
            "known_findings_printed": self.known_printed,
        })
        if getattr(self, "gen", None):
            cov["trusted_base"] = cov["trusted_base"] + [
                "translator vcheck/py2coq.py (fail-closed Python-ast -> Gallina, regenerated from /repo on every run: %s) and its semantic table coq/Gen/PyRt.v "
                "(Python int = Z, int/int true division = exact Q, list / slice / negative-index / itertools.accumulate / np.zeros / np.ones / np.vstack / "
                "fancy-index and row-slice store semantics)" % ", ".join(self.gen)]
        if extra:
            cov.update(extra)
        lines = []
        # at most 8 replay files per run: concrete inputs first
        ordered = sorted(self.violations, key=lambda v: v["no_input"])
        for v in ordered[:8]:
            os.makedirs(os.path.join(VERIF, "replays", self.prop), exist_ok=True)
            body = {"property": self.prop, "tier": self.tier, "seed": self.seed, "kind": v["kind"],
                    "what": v["what"], "detail": v["replay"],
                    "replay_cmd": "cd /verif && ./check %s --replay <this file>" % self.prop}
            sha = digest(json.dumps(body, sort_keys=True, default=str))
            path = os.path.join(VERIF, "replays", self.prop, sha + ".json")
            with open(path, "w") as f:
                json.dump(body, f, indent=1, default=str)
            lines.append("VIOLATION property=%s replay=%s%s" % (self.prop, path, " no-failing-input-found" if v["no_input"] else ""))
        ev = {"property_id": self.prop, "tier": self.tier, "seed": self.seed, "level": level,
              "coverage": cov, "assumptions": self.assumptions, "wall_s": round(wall, 2),
              "violations": len(self.violations)}
        os.makedirs(os.path.join(VERIF, "evidence"), exist_ok=True)
        with open(os.path.join(VERIF, "evidence", self.prop + ".json"), "w") as f:
            json.dump(ev, f, indent=1, default=str)
        # prefer concrete inputs: if any violation has an input, drop the no-input ones from stdout? No: print all.
        seen = set()
        for l in lines:
            if l not in seen:
                print(l, flush=True)
                seen.add(l)
        print("[%s %s] evaluations=%d nontrivial=%d obligations=%d/%d violations=%d known=%d wall=%.1fs" % (
            self.prop, self.tier, cov["evaluations"], len(self.nontrivial), ndis, nobl,
            len(self.violations), len(self.known_printed), wall), flush=True)
        return 1 if self.violations else 0


def gen_equiv_errors(out):
    """the part of make's output that concerns the equivalence files"""
    keep = []
    lines = out.splitlines()
    for i, l in enumerate(lines):
        if "GenEquiv" in l and ("Error" in l or "File" in l):
            keep.extend(lines[i:i + 12])
    return "\n".join(keep)[-3000:]


def strip_coq_comments(txt):
    out = []
    depth = 0
    i = 0
    while i < len(txt):
        if txt[i] == '"':
            # string literal (Coq lexes them inside comments too): "(*" inside one does not open a comment
            j = txt.find('"', i + 1)
            j = len(txt) - 1 if j < 0 else j
            if depth == 0:
                out.append(txt[i:j + 1])
            else:
                out.append("\n" * txt.count("\n", i, j + 1))
            i = j + 1
        elif txt.startswith("(*", i):
            depth += 1
            i += 2
        elif txt.startswith("*)", i) and depth:
            depth -= 1
            i += 2
        else:
            if depth == 0:
                out.append(txt[i])
            elif txt[i] == "\n":
                out.append("\n")
            i += 1
    return "".join(out)


def inside_section(txt, pos):
    opened = len(re.findall(r"^\s*Section\s+\w+", txt[:pos], re.M))
    closed = len(re.findall(r"^\s*End\s+\w+", txt[:pos], re.M))
    modules = len(re.findall(r"^\s*Module\s+\w+", txt[:pos], re.M))
    return opened - (closed - modules) > 0


def property_theorems(path):
    txt = strip_coq_comments(open(path).read())
    return re.findall(r"Print Assumptions\s+([\w'.]+)\s*\.", txt)


def parse_assumptions(out):
    """Split coqc stdout into one axiom-name list per Print Assumptions."""
    blocks = []
    cur = None
    for line in out.splitlines():
        if line.startswith("Closed under the global context"):
            if cur is not None:
                blocks.append(cur)
                cur = None
            blocks.append([])
        elif line.startswith("Axioms:"):
            if cur is not None:
                blocks.append(cur)
            cur = []
        elif cur is not None:
            m = re.match(r"^([A-Za-z_][\w.']*)\s*(:.*)?$", line)
            if m:
                cur.append(m.group(1))
            elif line and not line.startswith(" "):
                blocks.append(cur)
                cur = None
    if cur is not None:
        blocks.append(cur)
    return blocks


# ---------------------------------------------------------------- source-derived ties
def func_sources(relfile, names):
    """Return {name: (first_line, last_line, ast_hash)} for functions (or Class.method) of a repo file."""
    path = os.path.join(SRC, relfile)
    tree = ast.parse(open(path).read())
    res = {}

    def visit(node, prefix=""):
        for ch in ast.iter_child_nodes(node):
            if isinstance(ch, (ast.FunctionDef, ast.AsyncFunctionDef)):
                q = prefix + ch.name
                if q in names:
                    body = [b for b in ch.body]
                    if body and isinstance(body[0], ast.Expr) and isinstance(getattr(body[0], "value", None), ast.Constant) and isinstance(body[0].value.value, str):
                        body = body[1:]
                    h = hashlib.sha256("".join(ast.dump(b) for b in body).encode()).hexdigest()[:12]
                    lines = set()
                    for b in body:
                        for n in ast.walk(b):
                            if isinstance(n, ast.stmt):
                                if isinstance(n, (ast.Raise, ast.Assert)):
                                    continue
                                lines.add(n.lineno)
                    # drop lines that belong to raise statements' sub-expressions
                    for b in body:
                        for n in ast.walk(b):
                            if isinstance(n, (ast.Raise,)):
                                for m in ast.walk(n):
                                    if hasattr(m, "lineno"):
                                        lines.discard(m.lineno)
                    res[q] = (ch.lineno, ch.end_lineno, h, sorted(lines))
            elif isinstance(ch, ast.ClassDef):
                visit(ch, prefix + ch.name + ".")
    visit(tree)
    return res


class LineCoverage:
    """sys.monitoring based line recorder restricted to /repo/src/fast_ticc."""

    def __init__(self):
        self.hit = set()
        self.tool = 3

    def __enter__(self):
        mon = sys.monitoring
        try:
            mon.use_tool_id(self.tool, "vcheck")
        except ValueError:
            pass

        def on_line(code, line):
            fn = code.co_filename
            if fn.startswith(SRC):
                self.hit.add((os.path.relpath(fn, SRC), line))
            return mon.DISABLE   # one report per location is all coverage needs
        mon.register_callback(self.tool, mon.events.LINE, on_line)
        mon.restart_events()
        mon.set_events(self.tool, mon.events.LINE)
        return self

    def __exit__(self, *a):
        mon = sys.monitoring
        mon.set_events(self.tool, 0)
        mon.register_callback(self.tool, mon.events.LINE, None)
        try:
            mon.free_tool_id(self.tool)
        except Exception:
            pass
        return False


def note_drift(ctx, anchors):
    """compare the normalised AST of every anchored function with the fingerprint the model was written against
    (vcheck/fingerprints.json).  A difference is not a failure - harmless rewrites are allowed - but it is recorded
    and escalates the exploration budget of this run."""
    fp_path = os.path.join(VERIF, "vcheck", "fingerprints.json")
    known = json.load(open(fp_path)) if os.path.exists(fp_path) else {}
    drift = []
    for relfile, names in anchors.items():
        try:
            info = func_sources(relfile, set(names))
        except (OSError, SyntaxError) as e:
            drift.append("%s: %s" % (relfile, e))
            continue
        for n in names:
            key = "%s:%s" % (relfile, n)
            if n not in info:
                drift.append(key + " (missing)")
            elif known.get(key) != info[n][2]:
                drift.append(key)
    if drift:
        ctx.notes["source_drift"] = drift
        ctx.thorough = True      # explore with the thorough budget; the evidence still records the requested tier
    return drift


def anchored_check(ctx, anchors, cov, fingerprints_key=None, ignore=()):
    """anchors: {relfile: [function names]}.  Records AST drift; requires every executable
    line of the anchored functions (outside raise/assert) to be executed by the tie inputs."""
    fp_path = os.path.join(VERIF, "vcheck", "fingerprints.json")
    known = json.load(open(fp_path)) if os.path.exists(fp_path) else {}
    uncovered = []
    drift = []
    total = 0
    for relfile, names in anchors.items():
        info = func_sources(relfile, set(names))
        for n in names:
            if n not in info:
                ctx.violation("tie", "anchored function %s:%s no longer exists" % (relfile, n),
                              {"correspondence": "inventory:anchored-functions", "function": "%s:%s" % (relfile, n)}, no_input=True)
                continue
            first, last, h, lines = info[n]
            key = "%s:%s" % (relfile, n)
            if known.get(key) not in (None, h):
                drift.append(key)
            for ln in lines:
                total += 1
                if (relfile, ln) not in cov.hit and (relfile, n, "*") not in ignore:
                    src = open(os.path.join(SRC, relfile)).read().splitlines()[ln - 1].strip()
                    if any(pat in src for pat in ignore if isinstance(pat, str)):
                        continue
                    uncovered.append("%s:%d %s" % (relfile, ln, src))
    ctx.notes["anchored_lines"] = total
    ctx.notes["anchored_uncovered"] = uncovered
    if drift:
        ctx.notes["source_drift"] = drift
    if uncovered:
        ctx.violation("tie", "anchored lines not executed by any correspondence input: %s" % uncovered[:4],
                      {"correspondence": "coverage:anchored-lines", "uncovered": uncovered}, no_input=True)
    return not uncovered


def write_fingerprints(all_anchors):
    fp = {}
    for relfile, names in all_anchors.items():
        info = func_sources(relfile, set(names))
        for n, (_, _, h, _) in info.items():
            fp["%s:%s" % (relfile, n)] = h
    with open(os.path.join(VERIF, "vcheck", "fingerprints.json"), "w") as f:
        json.dump(fp, f, indent=1, sort_keys=True)


# ---------------------------------------------------------------- subprocess workers
MODES = {
    "interp": {"NUMBA_DISABLE_JIT": "1", "VCHECK_BLOCK_NUMBA": "0"},
    "jit": {"NUMBA_DISABLE_JIT": "0", "VCHECK_BLOCK_NUMBA": "0"},
    "nonumba": {"NUMBA_DISABLE_JIT": "1", "VCHECK_BLOCK_NUMBA": "1"},
}


def run_worker(ctx, target, payload, mode="interp", extra_env=None, timeout=900, tag="w"):
    """Run vcheck.worker in a child interpreter; returns dict(ok, result|error)."""
    import pickle
    inp = os.path.join(ctx.work, "%s_%s_in.pkl" % (tag, mode))
    outp = os.path.join(ctx.work, "%s_%s_out.pkl" % (tag, mode))
    pickle.dump(payload, open(inp, "wb"))
    if os.path.exists(outp):
        os.remove(outp)
    env = dict(os.environ)
    env.update(MODES[mode])
    if mode == "jit":
        env.pop("NUMBA_DISABLE_JIT", None)
        env["NUMBA_CACHE_DIR"] = os.path.join(WORK, "numba_cache")
    if extra_env:
        env.update(extra_env)
    rc, out, dt = sh([PY, "-m", "vcheck.worker", target, inp, outp], timeout=timeout, cwd=VERIF, env=env)
    if not os.path.exists(outp):
        return {"ok": False, "error": "worker died rc=%s: %s" % (rc, out[-1500:])}
    return pickle.load(open(outp, "rb"))


def start_worker(ctx, target, payload, mode="interp", extra_env=None, tag="w"):
    """Asynchronous variant: returns a handle to pass to wait_worker."""
    import pickle
    inp = os.path.join(ctx.work, "%s_%s_in.pkl" % (tag, mode))
    outp = os.path.join(ctx.work, "%s_%s_out.pkl" % (tag, mode))
    pickle.dump(payload, open(inp, "wb"))
    if os.path.exists(outp):
        os.remove(outp)
    env = dict(os.environ)
    env.update(MODES[mode])
    if mode == "jit":
        env.pop("NUMBA_DISABLE_JIT", None)
    if extra_env:
        env.update(extra_env)
    p = subprocess.Popen([PY, "-m", "vcheck.worker", target, inp, outp], cwd=VERIF, env=env,
                         stdout=subprocess.PIPE, stderr=subprocess.STDOUT, text=True)
    return (p, outp)


def wait_worker(handle, timeout=900):
    import pickle
    p, outp = handle
    try:
        out, _ = p.communicate(timeout=timeout)
    except subprocess.TimeoutExpired:
        p.kill()
        return {"ok": False, "error": "worker timed out after %ss" % timeout}
    if not os.path.exists(outp):
        return {"ok": False, "error": "worker died rc=%s: %s" % (p.returncode, (out or "")[-1500:])}
    return pickle.load(open(outp, "rb"))


def interleaved_call(fn, args, intruder, file_suffixes=("fast_ticc",)):
    """run fn(*args) while, at EVERY line boundary executed inside the library (files whose path contains one of
    file_suffixes), the callable `intruder` runs to completion first - what a second thread of the same process that is
    scheduled at that point would do (at line granularity).  Deterministic.  Returns fn's result and the number of
    interruption points."""
    import sys
    state = {"busy": False, "points": 0}

    def local(frame, event, arg):
        if event == "line" and not state["busy"]:
            state["busy"] = True
            sys.settrace(None)
            try:
                state["points"] += 1
                intruder()
            finally:
                state["busy"] = False
                sys.settrace(tracer)
        return local

    def tracer(frame, event, arg):
        fnm = frame.f_code.co_filename
        if state["busy"] or not any(sfx in fnm for sfx in file_suffixes):
            return None
        return local
    old = sys.gettrace()
    sys.settrace(tracer)
    try:
        out = fn(*args)
    finally:
        sys.settrace(old)
    return out, state["points"]
