"""C06 - result fields are mutually consistent (cost and likelihood accounting)."""
import re

import numpy as np

from .. import core, e2e
from ..core import c_nat, c_list, c_Z

ANCHORS = {"main_loop.py": ["fit_stacked_data", "_compute_log_likelihood_by_cluster"], "front_end.py": ["_split_combined_result"]}
RULE = ("(a) the bucketing of per-point values against the model on generated labellings incl. empty clusters (integer tags, exact); "
        "(b) every completed traced run of both front ends (incl. runs ending with empty clusters, iteration-limit stops, scalar beta): "
        "cost = -overall log-likelihood + beta * (#within-series consecutive pairs with different labels), one list entry per labelled "
        "point, overall sum / mean / median and per-cluster mean / median recomputed from the public result fields only; "
        "non-trivial = run with >= 2 used clusters")
KNOWN_KEY = "joint-boundary-priced"


def check_result(ctx, r):
    cfg = r["cfg"]
    res = r["result"]
    K, W, beta = cfg["K"], cfg["W"], float(cfg.get("beta", 5.0))
    front = (W - 1) // 2
    if cfg.get("joint"):
        parts = [l[front:front + T - W + 1] for l, T in zip(res["point_labels"], cfg["lengths"])]
    else:
        parts = [res["point_labels"][front:front + cfg["lengths"][0] - W + 1]]
    labels = [x for p in parts for x in p]
    case = {"cfg": cfg}
    all_ll = res["all_log_likelihood"]
    if len(all_ll) != len(labels):
        ctx.violation("monitor", "per-point list has %d entries for %d labelled points" % (len(all_ll), len(labels)), {"case": case})
        return
    def close(a, b, what):
        if not (abs(a - b) <= 1e-9 * max(1.0, abs(a), abs(b))):
            ctx.violation("monitor", "%s: reported %r, recomputed %r" % (what, a, b), {"case": case})
    close(res["overall"], float(np.sum(all_ll)), "overall log-likelihood is not the sum of the per-point values")
    close(res["overall_mean"], float(np.mean(all_ll)), "overall mean")
    close(res["overall_median"], float(np.median(all_ll)), "overall median")
    # per cluster: the list is ordered by cluster, then by point
    pos = 0
    for k in range(K):
        n = labels.count(k)
        chunk = all_ll[pos:pos + n]
        pos += n
        close(res["cluster_mean"][k], float(np.mean(chunk)) if n else 0.0, "mean of cluster %d" % k)
        close(res["cluster_median"][k], float(np.median(chunk)) if n else 0.0, "median of cluster %d" % k)
    # cost identity
    within = sum(1 for p in parts for a, b in zip(p, p[1:]) if a != b)
    bounds = sum(1 for p, q in zip(parts, parts[1:]) if p and q and p[-1] != q[0])
    cost = res["label_assignment_cost"]
    scale = max(1.0, abs(res["overall"]), abs(cost))
    want = -res["overall"] + beta * within
    if cfg.get("beta_vec"):
        # per-pair switching costs: entry i prices the pair (i, i+1) of the stacked sequence
        bv = e2e.beta_of(cfg)
        sw, pos = 0.0, 0
        for p in parts:
            for j in range(len(p) - 1):
                if p[j] != p[j + 1]:
                    sw += float(bv[pos + j])
            pos += len(p)
        want = -res["overall"] + sw
        if not cfg.get("joint") and abs(cost - want) > 1e-8 * scale:
            ctx.violation("monitor", "cost %.9g is not -overall log-likelihood + the per-pair switching costs of the pairs with different labels %.9g (%d such pairs)"
                          % (cost, want, within), {"case": case})
            return
        if not cfg.get("joint"):
            return
    if abs(cost - want) <= 1e-8 * scale:
        return
    if bounds and abs(cost - (want + beta * bounds)) <= 1e-8 * scale:
        ctx.finding(KNOWN_KEY, "joint run: the cost exceeds -log-likelihood + within-series switching cost by exactly beta x %d boundary pair(s) with "
                    "different labels (%.6f vs %.6f)" % (bounds, cost, want), {"case": case})
        ctx.notes["known_runs"] = ctx.notes.get("known_runs", 0) + 1
        return
    ctx.violation("monitor", "cost %.9g is not -overall log-likelihood + switching cost %.9g (within pairs %d, boundary pairs %d)" % (cost, want, within, bounds), {"case": case})


def worker_runs(cfgs):
    """worker entry point (JIT mode): complete traced runs, reduced to what check_result reads"""
    out = []
    for c in cfgs:
        r = e2e.traced_run(c)
        out.append({"cfg": r["cfg"], "result": r["result"], "error": r["error"]})
    return out


# runs made with the JIT-compiled kernels; the second has hundreds of clusters (cluster ids above 255 / 256 in the labelling)
JIT_CFGS = [{"N": 2, "W": 2, "K": 3, "beta": 4.0, "lam": 0.11, "limit": 3, "m": 2, "biased": False, "eps": 0, "joint": False,
             "lengths": [70], "data_seed": 61, "rng_seed": 61, "regimes": 3},
            {"N": 1, "W": 1, "K": 300, "beta": 1.0, "lam": 0.11, "limit": 2, "m": 1, "biased": False, "eps": 0, "joint": False,
             "lengths": [900], "data_seed": 62, "rng_seed": 62, "regimes": 300, "staircase": True}]


def run(ctx):
    rng = np.random.default_rng(ctx.seed)
    ctx.proof_layer(allowed_axioms=core.R_AX, coq_deps=["Corr/RunAccounting"], gen=["main_loop_results", "main_loop_suffix", "main_loop_full"])
    core.note_drift(ctx, ANCHORS)
    jit_handle = core.start_worker(ctx, "vcheck.props.c06:worker_runs", JIT_CFGS, mode="jit", tag="jitruns")
    cov = core.LineCoverage()
    lits = []
    with cov:
        from fast_ticc import main_loop, likelihood
        from fast_ticc.containers import model_state, arguments
        # (a) bucketing with stubbed per-point values
        orig = likelihood.point_log_likelihood
        for i in range(ctx.budget(60, 400)):
            K = int(rng.integers(1, 6)); T = int(rng.integers(1, 25))
            used = rng.choice(K, size=max(1, K - int(rng.integers(0, 2))), replace=False)
            labels = [int(x) for x in rng.choice(used, size=T)]
            vals = [int(v) for v in rng.integers(-50, 50, size=T)]
            ua = arguments.UserArguments(sparsity_weight=0.1, iteration_limit=1, label_switching_cost=1.0, min_cluster_size=1,
                                         min_meaningful_covariance=0, num_clusters=K, num_processors=1, biased_covariance=False, window_size=1)
            data = np.arange(T, dtype=float).reshape(T, 1)
            ms = model_state.ModelState.empty_model(ua, data)
            ms.point_labels = list(labels)
            likelihood.point_log_likelihood = lambda point, cluster, w, n: vals[int(point[0])]
            try:
                with ctx.guard("_compute_log_likelihood_by_cluster", {"K": K, "labels": labels}):
                    b = main_loop._compute_log_likelihood_by_cluster(data, ms)
                    flat = [v for bb in b for v in bb]
                    lits.append("(%s, %s, %s, %s, %s)" % (c_nat(K), c_list(labels, c_nat), c_list(vals, c_Z), c_list(flat, c_Z), c_list([c_list(bb, c_Z) for bb in b])))
                    if len(flat) != T:
                        ctx.violation("monitor", "bucketing yields %d values for %d labelled points" % (len(flat), T), {"K": K, "labels": labels})
            finally:
                likelihood.point_log_likelihood = orig
            ctx.count("buckets")
        # (b) traced runs
        runs = e2e.cached_runs(ctx, e2e.standard_grid(ctx.seed, ctx.thorough), "std")
        from .c07 import joint_cfgs
        runs = runs + e2e.cached_runs(ctx, joint_cfgs(ctx.seed, ctx.thorough), "c07")
        runs.append(e2e.traced_run({"N": 1, "W": 2, "K": 2, "beta": 1.0, "lengths": [30, 22], "limit": 2, "m": 1, "data_seed": 1, "rng_seed": 1, "joint": True}))
        # switching costs given per pair, not all equal (single-series front end; converged and limit-stopped runs)
        runs += e2e.cached_runs(ctx, [{"N": 1 + j % 2, "W": 1 + j % 3, "K": 2 + j % 2, "beta": [2.0, 6.0, 0.5][j % 3], "beta_vec": ["ramp", "random", "const"][j % 3],
                                       "lam": 0.11, "limit": [30, 1, 3][j % 3], "m": 2, "biased": False, "eps": 0, "joint": False, "lengths": [70 + 5 * j],
                                       "data_seed": 660 + j, "rng_seed": 660 + j, "regimes": 3} for j in range(ctx.budget(5, 12))], "c06vec")
        # series with a large constant offset relative to their spread (coordinates in metres, timestamps, absolute pressures):
        # the cost and the likelihoods of one result must still be the same numbers
        runs += e2e.cached_runs(ctx, [{"N": [2, 3, 1][j % 3], "W": [2, 1, 3][j % 3], "K": 2 + j % 2, "beta": [2.0, 5.0][j % 2], "lam": 0.11,
                                       "limit": [3, 30][j % 2], "m": 2, "biased": bool(j % 2), "eps": 0, "joint": j % 3 == 1,
                                       "lengths": [[80], [45, 50], [90]][j % 3], "data_seed": 680 + j, "rng_seed": 680 + j, "regimes": 2 + j % 2,
                                       "offset": [1e5, 3e6, 6.4e6, 1e7][j % 4]} for j in range(ctx.budget(4, 10))], "c06off")
        # a numerical failure of the optimisation step in a LATER round (a singular thresholded MRF: np.linalg.inv raises):
        # the run either raises - then there is no result to judge - or whatever it returns must be consistent like any other result
        def failing_inv(at_call):
            import numpy.linalg as _la
            def patches():
                orig_inv = _la.inv
                state = {"n": 0}
                def inv(a, *args, **kw):
                    state["n"] += 1
                    if state["n"] == at_call:
                        raise _la.LinAlgError("Singular matrix (injected at inv call %d)" % at_call)
                    return orig_inv(a, *args, **kw)
                _la.inv = inv
                np.linalg.inv = inv
                def undo():
                    _la.inv = orig_inv
                    np.linalg.inv = orig_inv
                return [undo]
            return patches
        for j, at_call in enumerate([5, 8, 11] if not ctx.thorough else [4, 5, 7, 8, 10, 11, 14]):
            cfg_f = {"N": 2, "W": 2, "K": 3, "beta": 4.0, "lam": 0.11, "limit": 6, "m": 2, "biased": False, "eps": 0, "joint": False,
                     "lengths": [90], "data_seed": 690 + j, "rng_seed": 690 + j, "regimes": 3, "fault": "np.linalg.inv raises LinAlgError at its call number %d" % at_call}
            rf = e2e.traced_run(cfg_f, extra_patches=failing_inv(at_call))
            ctx.count("run-with-numerical-failure")
            if rf["error"] is None:
                runs.append(rf)
        empties = 0
        for r in runs:
            ctx.count("run")
            if r["error"] is not None:
                continue
            fin = [e for e in r["events"] if e["event"] == "final"][0]["state"]
            sizes = [len(c["members"]) for c in fin["clusters"]]
            empties += any(s == 0 for s in sizes)
            if sum(1 for s in sizes if s) >= 2:
                ctx.mark_nontrivial(repr(r["cfg"]))
            check_result(ctx, r)
        ctx.notes["runs_ending_with_empty_cluster"] = empties
        jr = core.wait_worker(jit_handle, timeout=600)
        if not jr["ok"]:
            ctx.violation("tie", "JIT-mode runs failed: %s" % jr["error"][:300], {"correspondence": "harness:C06/jit"}, no_input=True)
        else:
            for r in jr["result"]:
                ctx.count("run-jit")
                if r["error"] is not None:
                    ctx.violation("monitor", "a run with the JIT-compiled kernels raised %s" % r["error"][:200], {"case": {"cfg": r["cfg"], "mode": "jit"}})
                    continue
                ctx.mark_nontrivial(("jit", repr(r["cfg"])))
                ctx.notes.setdefault("jit_runs_max_label", []).append(max(r["result"]["point_labels"]))
                check_result(ctx, r)
    core.anchored_check(ctx, ANCHORS, cov, ignore=("LOGGER.", "continue", "raise", "task_pool.terminate()", "task_pool.join()"))
    ctx.sample({"bucket case": lits[0][:200]})
    jobs = []
    for k in range(0, len(lits), 200):
        jobs.append(("buckets_%d" % (k // 200), "From Coq Require Import List Arith ZArith.\nImport ListNotations.\nFrom Ticc Require Import Corr.RunAccounting.\n"
                     "Definition cases : list (nat * list nat * list Z * list Z * list (list Z)) := [\n%s].\nDefinition answers := Eval vm_compute in (bad (map chk_buckets cases)).\nPrint answers.\n" % ";\n".join(lits[k:k + 200])))
    for (name, _), (ok, out) in zip(jobs, ctx.coq_eval_many(jobs)):
        m = re.search(r"answers\s*=\s*\[(.*?)\]\s*:\s*list", out, re.S)
        if not ok or not m:
            ctx.violation("tie", "model evaluation failed for %s" % name, {"correspondence": "tie:Accounting.buckets", "log": out[-1500:]}, no_input=True)
        elif m.group(1).strip():
            ctx.tie_mismatch("Accounting.buckets", "model and _compute_log_likelihood_by_cluster disagree on the per-cluster value lists", {"first_bad_index": m.group(1)[:50]})
    return ctx.finish(RULE)


def replay(ctx, data):
    cfg = (data.get("detail", {}).get("case") or {}).get("cfg")
    if cfg:
        r = e2e.traced_run(cfg)
        if r["error"] is None:
            check_result(ctx, r)
        for v in ctx.violations:
            print("replay:", v["what"])
        return 1 if ctx.violations else 0
    return run(ctx)
