"""C04 - one label per input row; the unlabelled margin is exactly W-1 points."""
import numpy as np

from .. import core, coqfmt, e2e
from ..core import c_nat, c_list, c_Z

ANCHORS = {"data_preparation.py": ["pad_missing_labels", "split_joint_labels"],
           "front_end.py": ["ticc_labels", "ticc_joint_labels", "_split_combined_result"]}
RULE = ("(a) pad_missing_labels / split_joint_labels on every W <= 12 x label length <= 40 and on tuples of up to 6 unequal series "
        "(every (W, #series) combination); (b) end-to-end grid of traced runs of both front ends (N <= 3, W <= 5 odd and even, "
        "K in {2,3,4,5,6}, 1..4 series of unequal length, iteration_limit in {1,2,3,30}): the statement on the result objects and "
        "result labels = model front end applied to the final model state's labels; non-trivial = W >= 2")


def check_labels(ctx, labels, T, W, K, what, case):
    front = (W - 1) // 2
    back = (W - 1) - front
    ok = True
    if len(labels) != T:
        ctx.violation("monitor", "%s: %d labels for %d rows" % (what, len(labels), T), {"case": case}); return False
    for i, l in enumerate(labels):
        inside = front <= i < T - back
        if inside and not (isinstance(l, (int, np.integer)) and 0 <= l < K):
            ctx.violation("monitor", "%s: label %r at position %d is not an integer in [0,K)" % (what, l, i), {"case": case}); ok = False; break
        if not inside and l != -1:
            ctx.violation("monitor", "%s: margin position %d carries %r" % (what, i, l), {"case": case}); ok = False; break
    return ok


def run(ctx):
    from fast_ticc import data_preparation as dp
    rng = np.random.default_rng(ctx.seed)
    ctx.proof_layer(allowed_axioms=(), coq_deps=["Corr/RunStacking"], gen=["data_preparation", "front_single", "main_loop_suffix", "main_loop_full"])
    core.note_drift(ctx, ANCHORS)
    cov = core.LineCoverage()
    single, joint = [], []
    with cov:
        # (a) helper level
        for W in range(1, 13):
            for n in (range(1, 41) if ctx.thorough else list(range(1, 6)) + [int(x) for x in rng.integers(6, 41, size=6)]):
                labels = [int(x) for x in rng.integers(0, 7, size=n)]
                case = {"W": W, "labels": labels}
                h = -1
                with ctx.guard("pad_missing_labels", case):
                    out = dp.pad_missing_labels(list(labels), W)
                    h = coqfmt.hash_rowsZ([out])
                    check_labels(ctx, out, n + W - 1, W, 7, "pad_missing_labels", case)
                single.append((W, labels, h))
                ctx.count("pad")
                if W >= 2:
                    ctx.mark_nontrivial(("pad", W, tuple(labels)))
            for ns in range(1, 7):
                for _ in range(ctx.budget(2, 10)):
                    Ts = [int(rng.integers(W, W + 41)) for _ in range(ns)]
                    sizes = [T - W + 1 for T in Ts]
                    labels = [int(x) for x in rng.integers(0, 5, size=sum(sizes))]
                    case = {"W": W, "Ts": Ts, "labels": labels}
                    h = -1
                    with ctx.guard("split_joint_labels+pad_missing_labels", case):
                        parts = dp.split_joint_labels(list(labels), sizes)
                        padded = [dp.pad_missing_labels(p, W) for p in parts]
                        h = coqfmt.hash_rowsZ(padded)
                        if len(padded) != len(Ts):
                            ctx.violation("monitor", "number of label lists != number of series", {"case": case})
                        for p, T in zip(padded, Ts):
                            check_labels(ctx, p, T, W, 5, "split+pad", case)
                    joint.append((W, Ts, labels, h))
                    ctx.count("split")
                    if W >= 2 and ns >= 2:
                        ctx.mark_nontrivial(("split", W, tuple(Ts)))
        # (b) end to end
        runs = e2e.cached_runs(ctx, e2e.standard_grid(ctx.seed, ctx.thorough), "std")
        # series of exactly W rows (one stacked window) and W+1 rows inside joint runs, in every position
        short = []
        for j, W in enumerate([1, 2, 3, 4, 5]):
            for pos in range(3):
                lengths = [40 + 3 * j, 35, 30]
                lengths[pos] = W if (j + pos) % 2 == 0 else W + 1
                short.append({"N": 1 + j % 2, "W": W, "K": 2, "beta": 2.0, "lam": 0.11, "limit": 2, "m": 2, "biased": False, "eps": 0, "joint": True,
                              "lengths": lengths, "data_seed": 700 + 10 * j + pos, "rng_seed": 700 + j, "regimes": 2})
        # both ends of the "one list per input series" quantifier: a joint call with exactly one series, and with six
        ends = []
        for j, (N, W) in enumerate([(1, 1), (2, 3), (3, 2), (1, 4)]):
            ends.append({"N": N, "W": W, "K": 2 + j % 2, "beta": 2.0, "lam": 0.11, "limit": 2, "m": 2, "biased": False, "eps": 0, "joint": True,
                         "lengths": [45 + j], "data_seed": 800 + j, "rng_seed": 800 + j, "regimes": 2})
        ends.append({"N": 2, "W": 2, "K": 2, "beta": 2.0, "lam": 0.11, "limit": 2, "m": 2, "biased": False, "eps": 0, "joint": True,
                     "lengths": [30, 21, 26, 33, 24, 28], "data_seed": 810, "rng_seed": 810, "regimes": 2})
        # joint runs with real worker processes (multiprocessing enabled, 2-3 workers) on three to five series of unequal
        # length whose order by length is not its own inverse permutation: list i must still belong to series i
        mpc = [{"N": 1 + j % 2, "W": 2 + j % 2, "K": 2, "beta": 2.0, "lam": 0.11, "limit": 2, "m": 2, "biased": False, "eps": 0, "joint": True,
                "lengths": L, "data_seed": 820 + j, "rng_seed": 820 + j, "regimes": 2, "mp": True, "procs": 2 + j % 2}
               for j, L in enumerate([[30, 50, 40], [45, 31, 52, 38], [33, 47, 40, 54, 61]])]
        runs = runs + e2e.cached_runs(ctx, short if ctx.thorough else short[::2], "c04short") + e2e.cached_runs(ctx, ends, "c04ends") \
            + e2e.cached_runs(ctx, mpc, "c04mp")
        # the same calls in one process without worker processes: list i must hold the same labels
        serial = e2e.cached_runs(ctx, [dict(c, mp=False, procs=1) for c in mpc], "c04mp-serial")
        for a, b in zip(e2e.cached_runs(ctx, mpc, "c04mp"), serial):
            ctx.count("mp-vs-serial")
            if a["error"] is None and b["error"] is None and a["result"]["point_labels"] != b["result"]["point_labels"]:
                bad = [i for i, (x, y) in enumerate(zip(a["result"]["point_labels"], b["result"]["point_labels"])) if x != y]
                ctx.violation("monitor", "joint run with worker processes: the label lists of series %s differ from the run without worker processes "
                              "(lengths %s)" % (bad, a["cfg"]["lengths"]), {"case": {"cfg": a["cfg"]}})
        # successive calls in one process on VIEWS of one buffer (a growing recording, a trimmed one, a window moved along
        # it): every call must answer for the rows it is given now - T labels for T rows, margins exactly W-1
        from fast_ticc import front_end as _fe
        import random as _random
        for rep in range(ctx.budget(2, 6)):
            N = 1 + rep % 2; W = 2 + rep % 3; K = 2
            drng = np.random.default_rng(900 + rep)
            buf = np.concatenate([drng.normal(loc=3.0 * (i % 2), size=(40, N)) for i in range(4)])
            plan = [("prefix", 0, 60), ("longer prefix", 0, 100), ("shorter prefix", 0, 90), ("same start, other length", 0, 75),
                    ("suffix", 60, 160), ("moved window", 20, 95)][: (4 if not ctx.thorough else 6)]
            joint_plan = [[(0, 50), (50, 110)], [(0, 60), (60, 100)], [(0, 40), (40, 110)]]
            for (what, a, b) in plan:
                view = buf[a:b]
                case = {"call": "ticc_labels on buffer[%d:%d] (%s) after earlier calls on other views of the same buffer" % (a, b, what),
                        "N": N, "W": W, "K": K, "seed": 900 + rep}
                import io as _io, contextlib as _ctxlib
                with ctx.guard("ticc_labels (views of one buffer)", case), _ctxlib.redirect_stdout(_io.StringIO()):
                    np.random.seed(7); _random.seed(7)
                    res = _fe.ticc_labels(view, window_size=W, num_clusters=K, label_switching_cost=2.0, iteration_limit=2,
                                          min_cluster_size=2, num_processors=1)
                    check_labels(ctx, list(res.point_labels), b - a, W, K, "ticc_labels", case)
                ctx.count("views-of-one-buffer")
            for spans in joint_plan:
                views = [buf[a:b] for (a, b) in spans]
                case = {"call": "ticc_joint_labels on buffer slices %s after earlier calls on other slices of the same buffer" % (spans,),
                        "N": N, "W": W, "K": K, "seed": 900 + rep}
                with ctx.guard("ticc_joint_labels (views of one buffer)", case), _ctxlib.redirect_stdout(_io.StringIO()):
                    np.random.seed(7); _random.seed(7)
                    res = _fe.ticc_joint_labels(views, window_size=W, num_clusters=K, label_switching_cost=2.0, iteration_limit=2,
                                                min_cluster_size=2, num_processors=1)
                    if len(res.point_labels) != len(views):
                        ctx.violation("monitor", "joint front end returned %d label lists for %d series" % (len(res.point_labels), len(views)), {"case": case})
                    for l, (a, b) in zip(res.point_labels, spans):
                        check_labels(ctx, list(l), b - a, W, K, "ticc_joint_labels", case)
                ctx.count("views-of-one-buffer")
        # a tiny in-process run keeps the front-end lines under the tracer even on a cache hit
        e2e.traced_run({"N": 1, "W": 2, "K": 2, "beta": 1.0, "lengths": [30], "limit": 1, "m": 1, "data_seed": 1, "rng_seed": 1, "joint": False})
        e2e.traced_run({"N": 1, "W": 2, "K": 2, "beta": 1.0, "lengths": [30, 25], "limit": 1, "m": 1, "data_seed": 1, "rng_seed": 1, "joint": True})
    completed = 0
    for r in runs:
        cfg = r["cfg"]
        ctx.count("e2e")
        if r["error"] is not None:
            continue
        completed += 1
        res = r["result"]
        W, K, N = cfg["W"], cfg["K"], cfg["N"]
        case = {"cfg": cfg}
        fin = [e for e in r["events"] if e["event"] == "final"]
        if len(fin) != 1:
            ctx.violation("tie", "no final-state event in a completed run", {"correspondence": "hook:H1.final", "case": case}, no_input=True)
            continue
        flabels = fin[0]["state"]["labels"]
        if cfg["joint"]:
            if res["type"] != "MultipleDataSeriesResult" or len(res["point_labels"]) != len(cfg["lengths"]) \
                    or not all(isinstance(l, (list, tuple, np.ndarray)) for l in res["point_labels"]):
                ctx.violation("monitor", "joint front end did not return one label list per series (%d series, got %r ...)" % (
                    len(cfg["lengths"]), str(res["point_labels"])[:80]), {"case": case})
                continue
            for l, T in zip(res["point_labels"], cfg["lengths"]):
                check_labels(ctx, l, T, W, K, "ticc_joint_labels", case)
            joint.append((W, cfg["lengths"], flabels, coqfmt.hash_rowsZ(res["point_labels"])))
        else:
            check_labels(ctx, res["point_labels"], cfg["lengths"][0], W, K, "ticc_labels", case)
            single.append((W, flabels, coqfmt.hash_rowsZ([res["point_labels"]])))
        if res["num_clusters"] != K or res["window_size"] != W:
            ctx.violation("monitor", "K / W not echoed", {"case": case, "got": [res["num_clusters"], res["window_size"]]})
        mrfs = res["markov_random_fields"]
        if len(mrfs) != K or any(m.shape != (N * W, N * W) for m in mrfs):
            ctx.violation("monitor", "result does not carry K MRFs of shape NW x NW", {"case": case, "shapes": [list(m.shape) for m in mrfs]})
        if W >= 2:
            ctx.mark_nontrivial(("e2e", repr(cfg)))
    ctx.notes["e2e_runs"] = len(runs)
    ctx.notes["e2e_completed"] = completed
    if completed < len(runs) // 2:
        ctx.violation("tie", "fewer than half of the end-to-end runs completed", {"correspondence": "e2e:grid", "errors": [r["error"] for r in runs if r["error"]][:5]}, no_input=True)
    core.anchored_check(ctx, ANCHORS, cov, ignore=("raise TypeError", "not_a_numpy_array", "not_a_list_of_numpy_arrays"))
    ctx.sample({"W": single[0][0], "labels": single[0][1]})
    ctx.sample({"W": joint[-1][0], "Ts": joint[-1][1], "labels(final state)": joint[-1][2][:20]})
    jobs = []
    CH = 300
    for k in range(0, len(single), CH):
        jobs.append(("single_%d" % (k // CH), coqfmt.cases_file("From Ticc Require Import Corr.RunStacking.", "nat * list Z",
                     ["(%s, %s)" % (c_nat(W), c_list(l, c_Z)) for (W, l, _) in single[k:k + CH]], "run_front_single")))
    for k in range(0, len(joint), CH):
        jobs.append(("joint_%d" % (k // CH), coqfmt.cases_file("From Ticc Require Import Corr.RunStacking.", "nat * list nat * list Z",
                     ["(%s, %s, %s)" % (c_nat(W), c_list(Ts, c_nat), c_list(l, c_Z)) for (W, Ts, l, _) in joint[k:k + CH]], "run_front_joint")))
    res = ctx.coq_eval_many(jobs)
    model = {"single": [], "joint": []}
    for (name, _), (ok, out) in zip(jobs, res):
        vals = coqfmt.parse_print_list(out) if ok else None
        if vals is None:
            ctx.violation("tie", "model evaluation failed for %s" % name, {"correspondence": "tie:FrontLabels." + name, "log": out[-1500:]}, no_input=True)
            return ctx.finish(RULE)
        model[name.split("_")[0]] += vals
    for key, cases in (("single", single), ("joint", joint)):
        for c, a in zip(cases, model[key]):
            if a != c[-1]:
                ctx.tie_mismatch("FrontLabels." + key, "model and implementation disagree on the padded labels", {"case": list(c[:-1])})
                break
    return ctx.finish(RULE)


def replay(ctx, data):
    print("replay: re-running the check")
    return run(ctx)
