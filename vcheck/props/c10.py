"""C10 - window stacking is exact and never crosses a series boundary."""
import numpy as np

from .. import core, coqfmt
from ..core import c_nat, c_list

ANCHORS = {"data_preparation.py": ["stack_training_data", "stack_training_data_multiple_series",
                                   "pad_missing_labels", "split_joint_labels"]}

BASES = [0x7ff8000000000000, 0x7ff0000000000001, 0xfff8000000000000, 0x0000000000000001,
         0x3ff0000000000000, 0xc000000000000000, 0x7fe0000000000000, 0x8000000000000001]


def tagged_series(T, N, base_tag):
    """float64 T x N array with pairwise distinct bit patterns (quiet / signalling NaN payloads,
    subnormals, huge, negative ...) and the dict bits -> tag."""
    k = np.arange(T * N, dtype=np.uint64)
    bits = np.array([BASES[int(i) % len(BASES)] for i in k], dtype=np.uint64) + (k + np.uint64(base_tag)) * np.uint64(16)
    data = bits.view(np.float64).reshape(T, N).copy()
    return data, {int(b): base_tag + int(i) for i, b in enumerate(bits)}


def special_series(T, N, rng):
    vals = np.array([0.0, -0.0, np.inf, -np.inf, np.nan, 5e-324, -5e-324, 1.7976931348623157e308, 1.0, -1.5])
    return vals[rng.integers(0, len(vals), size=(T, N))]


def impl_tags(out, lut):
    b = out.view(np.uint64)
    return [[lut.get(int(x), -1) for x in row] for row in b]


def definition_holds(out, data, W):
    """the statement itself on the implementation output (independent of the model)"""
    T, N = data.shape
    if out.shape != (T - W + 1, N * W):
        return False
    ob = out.view(np.uint64)
    db = np.ascontiguousarray(data).view(np.uint64)
    for j in range(W):
        if not np.array_equal(ob[:, j * N:(j + 1) * N], db[j:j + T - W + 1, :]):
            return False
    return True


def run(ctx):
    from fast_ticc import data_preparation as dp
    rng = np.random.default_rng(ctx.seed)
    ctx.proof_layer(allowed_axioms=(), coq_deps=["Corr/RunStacking"], gen=["data_preparation", "front_split"])
    core.note_drift(ctx, ANCHORS)
    cov = core.LineCoverage()
    with cov:
        # ---- stream 1: single series shapes
        shapes = [(T, W, N) for W in range(1, 13) for N in range(1, 7) for T in range(W, W + 41)]
        if not ctx.thorough:
            idx = rng.choice(len(shapes), size=600, replace=False)
            shapes = [shapes[i] for i in sorted(idx)]
            # boundary shapes always present
            shapes += [(1, 1, 1), (12, 12, 6), (52, 12, 6), (41, 1, 1), (5, 5, 1)]
        else:
            ctx.notes["exhaustive"] = True
        # the calls are made in a shuffled order and every shape is stacked a second time in another order:
        # state kept between calls (memoised index tables and the like) must not change the result
        order1 = [int(i) for i in rng.permutation(len(shapes))]
        order2 = [int(i) for i in rng.permutation(len(shapes))]
        second = {}
        for i2 in order2[: len(shapes) // 2]:
            T2, W2, N2 = shapes[i2]
            d2, _ = tagged_series(T2, N2, 0)
            with ctx.guard("stack_training_data", {"T": T2, "W": W2, "N": N2, "pass": "warm-up in another order"}):
                second[i2] = dp.stack_training_data(d2, W2).tobytes()
        impl_hashes_by_index = {}
        for i1 in order1:
            (T, W, N) = shapes[i1]
            data, lut = tagged_series(T, N, 0)
            keep = data.copy()
            case = {"T": T, "W": W, "N": N}
            h = -1
            with ctx.guard("stack_training_data", case):
                out = dp.stack_training_data(data, W)
                tags = impl_tags(out, lut)
                h = coqfmt.hash_rows(tags)
                if not definition_holds(out, keep, W):
                    ctx.violation("monitor", "stacked cell differs from input row i+j", {"case": case, "stream": "single"})
                sp = special_series(T, N, rng)
                if not definition_holds(dp.stack_training_data(sp, W), sp, W):
                    ctx.violation("monitor", "special values (NaN, +-0, inf) not copied bit for bit", {"case": case, "stream": "special"})
                if not np.array_equal(data.view(np.uint64), keep.view(np.uint64)):
                    ctx.violation("monitor", "input modified", {"case": case})
            impl_hashes_by_index[i1] = h
            if i1 in second and h != -1 and second[i1] != out.tobytes():
                ctx.violation("monitor", "stacking the same series twice in one process gives different results (state kept between calls)", {"case": case})
            ctx.count("single")
            if T > W and W > 1:
                ctx.mark_nontrivial(("s", T, W, N))
        impl_hashes = [impl_hashes_by_index.get(i, -1) for i in range(len(shapes))]
        # ---- stream 1b: the same series handed over in other memory layouts (a legal ndarray is any view):
        # every second row of a longer recording, a column range of a wider table, Fortran order, reversed rows, read-only
        lay_idx = [int(i) for i in rng.choice(len(shapes), size=min(len(shapes), ctx.budget(120, 600)), replace=False)]
        for i1 in lay_idx:
            (T, W, N) = shapes[i1]
            base, _ = tagged_series(2 * T + 1, N + 3, 7)
            views = {"rows[::2]": base[::2][:T, :N] if N + 3 == N else base[::2, :][:T][:, :N],
                     "cols[a:b]": base[:T, 2:2 + N], "fortran": np.asfortranarray(base[:T, :N]),
                     "rows[::-1]": base[:T, :N][::-1], "both strided": base[1:2 * T:2, 1:1 + N]}
            ro = base[:T, :N].copy()
            ro.setflags(write=False)
            views["read-only"] = ro
            for lname, v in views.items():
                case = {"T": T, "W": W, "N": N, "layout": lname}
                with ctx.guard("stack_training_data", case):
                    if v.shape != (T, N):
                        raise AssertionError("harness: view shape %s" % (v.shape,))
                    if not definition_holds(dp.stack_training_data(v, W), v, W):
                        ctx.violation("monitor", "stacked cell differs from input row i+j for a %s view" % lname, {"case": case, "stream": "layout"})
                ctx.count("layout")
        ctx.sample({"stream": "single", "T,W,N": shapes[0]})
        # ---- stream 2: several series
        multi = []
        # every (W, number of series) combination is covered; N and the lengths are random
        for W in range(1, 13):
            for ns in range(1, 7):
                for _ in range(ctx.budget(3, 20)):
                    N = int(rng.integers(1, 7))
                    Ts = [int(rng.integers(W, W + 41)) for _ in range(ns)]
                    multi.append((W, N, Ts))
        multi += [(3, 2, [3]), (3, 2, [3, 3, 3]), (1, 1, [1, 1]), (12, 6, [12, 52, 12])]
        multi_hashes = []
        for (W, N, Ts) in multi:
            case = {"W": W, "N": N, "Ts": Ts}
            h = -1
            with ctx.guard("stack_training_data_multiple_series", case):
                series = []; lut = {}
                for s, T in enumerate(Ts):
                    d, l = tagged_series(T, N, s * 100000)
                    series.append(d); lut.update(l)
                out = dp.stack_training_data_multiple_series(series, W)
                h = coqfmt.hash_rows(impl_tags(out, lut))
                # monitor: concatenation of the individual stackings
                ref = np.vstack([dp.stack_training_data(d, W) for d in series])
                if out.shape != ref.shape or not np.array_equal(out.view(np.uint64), ref.view(np.uint64)):
                    ctx.violation("monitor", "joint stacking is not the concatenation of the individual stackings", {"case": case})
                for d in series:
                    if not definition_holds(dp.stack_training_data(d, W), d, W):
                        ctx.violation("monitor", "stacked cell differs", {"case": case})
                if len(series) > 1:
                    # the same rows split differently in the next call (same total, same number of series): reversed order
                    out_r = dp.stack_training_data_multiple_series(series[::-1], W)
                    ref_r = np.vstack([dp.stack_training_data(d, W) for d in series[::-1]])
                    if out_r.shape != ref_r.shape or not np.array_equal(out_r.view(np.uint64), ref_r.view(np.uint64)):
                        ctx.violation("monitor", "joint stacking of the same series in reversed order is not the concatenation of the individual stackings",
                                      {"case": dict(case, order="reversed, called right after the forward order")})
            multi_hashes.append(h)
            ctx.count("multi")
            if len(Ts) > 1 and len(set(Ts)) > 1:
                ctx.mark_nontrivial(("m", W, N, tuple(Ts)))
        ctx.sample({"stream": "multi", "W,N,Ts": multi[0]})
        # ---- stream 3: split + pad
        joint = [(W, Ts) for (W, _, Ts) in multi]
        joint_hashes = []
        for (W, Ts) in joint:
            case = {"W": W, "Ts": Ts}
            h = -1
            with ctx.guard("split_joint_labels/pad_missing_labels", case):
                sizes = [T - W + 1 for T in Ts]
                labels = list(range(sum(sizes)))
                parts = dp.split_joint_labels(list(labels), sizes)
                padded = [dp.pad_missing_labels(p, W) for p in parts]
                h = coqfmt.hash_rowsZ(padded)
                if [len(p) for p in padded] != Ts:
                    ctx.violation("monitor", "padded label lists do not have the series lengths", {"case": case})
                front = int((W - 1) // 2)
                rec = []
                for p, n in zip(padded, sizes):
                    rec += p[front:front + n]
                    if any(x != -1 for x in p[:front] + p[front + n:]):
                        ctx.violation("monitor", "margin is not -1", {"case": case})
                if rec != labels:
                    ctx.violation("monitor", "labels not restored by un-padding", {"case": case})
                # the same split with the lengths / labels held in other sequence types (a caller computes the lengths
                # as `np.array([len(s) for s in series]) - W + 1` just as well)
                for form, szs, labs in (("lengths as an integer ndarray", np.array(sizes, dtype=np.int64), list(labels)),
                                        ("lengths as a tuple", tuple(sizes), list(labels)),
                                        ("labels as an ndarray", list(sizes), np.array(labels, dtype=np.int64))):
                    parts2 = dp.split_joint_labels(labs, szs)
                    got = [[int(x) for x in q] for q in parts2]
                    if got != [[int(x) for x in q] for q in parts]:
                        ctx.violation("monitor", "split_joint_labels with the %s: %d parts of lengths %s, expected %d parts of lengths %s" % (
                            form, len(got), [len(q) for q in got][:8], len(parts), [len(q) for q in parts][:8]), {"case": dict(case, form=form)})
                        break
            joint_hashes.append(h)
            ctx.count("joint")
    core.anchored_check(ctx, ANCHORS, cov)
    # ---- model side
    jobs = []
    CH = 400
    for k in range(0, len(shapes), CH):
        jobs.append(("stack_%d" % (k // CH), coqfmt.cases_file(
            "From Ticc Require Import Corr.RunStacking.", "nat * nat * nat",
            ["(%s, %s, %s)" % (c_nat(T), c_nat(W), c_nat(N)) for (T, W, N) in shapes[k:k + CH]], "run_stack")))
    for k in range(0, len(multi), CH):
        jobs.append(("multi_%d" % (k // CH), coqfmt.cases_file(
            "From Ticc Require Import Corr.RunStacking.", "nat * nat * list nat",
            ["(%s, %s, %s)" % (c_nat(W), c_nat(N), c_list(Ts, c_nat)) for (W, N, Ts) in multi[k:k + CH]], "run_multi")))
    for k in range(0, len(joint), CH):
        jobs.append(("joint_%d" % (k // CH), coqfmt.cases_file(
            "From Ticc Require Import Corr.RunStacking.", "nat * list nat",
            ["(%s, %s)" % (c_nat(W), c_list(Ts, c_nat)) for (W, Ts) in joint[k:k + CH]], "run_joint")))
    res = ctx.coq_eval_many(jobs)
    model = {"stack": [], "multi": [], "joint": []}
    for (name, _), (ok, out) in zip(jobs, res):
        vals = coqfmt.parse_print_list(out) if ok else None
        if vals is None:
            ctx.violation("tie", "model evaluation failed for %s" % name, {"correspondence": "tie:Stacking." + name, "log": out[-1500:]}, no_input=True)
            return ctx.finish(RULE)
        model[name.split("_")[0]] += vals
    for stream, cases, mh, ih in (("single", shapes, model["stack"], impl_hashes),
                                  ("multi", multi, model["multi"], multi_hashes),
                                  ("joint", joint, model["joint"], joint_hashes)):
        if len(mh) != len(cases) or len(ih) != len(cases):
            ctx.violation("tie", "case count mismatch in stream %s" % stream, {"correspondence": "tie:Stacking." + stream}, no_input=True)
            continue
        for c, a, b in zip(cases, mh, ih):
            if a != b:
                ctx.tie_mismatch("Stacking." + stream, "model and implementation disagree on %s case %s" % (stream, c,),
                              {"stream": stream, "case": c, "model_hash": a, "impl_hash": b})
                break
    return ctx.finish(RULE)


RULE = ("single-series shapes (T,W,N) from T in [W,W+40], W<=12, N<=6 (exhaustive in the thorough tier), tuples of 1..6 series, "
        "split+pad on the same tuples; float64 inputs with pairwise distinct bit patterns incl. quiet/signalling NaN payloads, "
        "subnormals, plus a special-value pass (+-0, inf, NaN); non-trivial = T>W>1 (single) or >=2 series of unequal length")


def replay(ctx, data):
    from fast_ticc import data_preparation as dp
    d = data.get("detail", {})
    case = d.get("case")
    if isinstance(case, dict) and "T" in case:
        arr, _ = tagged_series(case["T"], case["N"], 0)
        ok = definition_holds(dp.stack_training_data(arr, case["W"]), arr, case["W"])
        print("replay: definition holds =", ok)
        return 0 if ok else 1
    print("replay: re-running the whole check")
    return run(ctx)
