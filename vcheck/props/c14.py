"""C14 - results are reproducible and independent of process scheduling (partial)."""
import hashlib
import json
import os
import random
import time

import numpy as np

from .. import core, inventory, e2e

ANCHORS = {"main_loop.py": ["_init_task_pool"], "graphical_lasso.py": ["optimize_markov_random_fields", "_setup_optimization_task", "_retrieve_optimization_results"]}
RULE = ("bitwise digests of complete results of both front ends: (a) repeated runs from equal RNG states; (b) num_processors 1..8 with "
        "multiprocessing off and on; (c) per-task delays that make later-submitted optimisation tasks finish first (completion order "
        "permuted by a seeded schedule, executed in the worker processes); (d) the same call after arbitrary preceding calls with other "
        "shapes in the same process; (e) the objects returned by the memoised index helpers are identical and unchanged before / after; "
        "(f) inventories regenerated from the source: randomness / time / identity sources, unordered-completion APIs, functools.cache "
        "sites must equal the reviewed ones; non-trivial = multiprocessing on with a permuting delay schedule, or a preceding call")

BASE = {"N": 2, "W": 2, "K": 3, "beta": 6.0, "lam": 0.11, "limit": 4, "m": 2, "biased": False, "eps": 0, "joint": False,
        "lengths": [64], "data_seed": 21, "rng_seed": 21, "regimes": 3}


def delayed_call(delay, args, kwds):
    time.sleep(delay)
    from fast_ticc import admm
    return admm.admm_optimize_theta(*args, **kwds)


class DelayPool:
    def __init__(self, real, delays):
        self._real, self._delays, self._n = real, delays, 0

    def apply_async(self, func, args=(), kwds=None, *a, **k):
        d = self._delays[self._n % len(self._delays)]
        self._n += 1
        return self._real.apply_async(delayed_call, (d, list(args), dict(kwds or {})))

    def __getattr__(self, name):
        return getattr(self._real, name)


def digest(r):
    if r["result"] is None:
        return "ERR:" + str(r["error"])
    res = r["result"]
    h = hashlib.sha256()
    h.update(repr(res["point_labels"]).encode())
    for k in ("label_assignment_cost", "bic", "chi", "overall", "overall_mean", "overall_median"):
        h.update(float(res[k]).hex().encode())
    for m in res["markov_random_fields"]:
        h.update(m.tobytes())
    h.update(repr([float(x).hex() for x in res["all_log_likelihood"]]).encode())
    return h.hexdigest()


def run_cfg(cfg, procs=1, mp=False, delays=None, stall=None):
    from fast_ticc import main_loop
    if mp:
        os.environ["CUPCAKE_ENABLE_MULTIPROCESSING"] = "1"
    else:
        os.environ.pop("CUPCAKE_ENABLE_MULTIPROCESSING", None)

    def patches():
        if not delays:
            return []
        cur = main_loop._init_task_pool       # the RecordingPool wrapper installed by traced_run

        def init(n):
            return DelayPool(cur(n), delays)
        main_loop._init_task_pool = init
        return [lambda: setattr(main_loop, "_init_task_pool", cur)]
    try:
        return e2e.traced_run(dict(cfg, procs=procs, **({"stall": stall} if stall else {})), extra_patches=patches)
    finally:
        os.environ.pop("CUPCAKE_ENABLE_MULTIPROCESSING", None)


def fresh_digest(cfg):
    """digest of one run in a process that has made no other call (worker entry point)"""
    return digest(run_cfg(cfg))


def fresh_admm(case):
    from fast_ticc import admm
    N, W, S, lam = case
    return admm.admm_optimize_theta(np.array(S), lam, W, N).theta.tobytes().hex()


# shapes whose stacked dimension N*W (hence every array length the solver sees) coincides while (N, W) differ
HISTORY_SHAPES = [(2, 2), (1, 4), (4, 1), (2, 3), (3, 2), (1, 6), (6, 1), (1, 1), (2, 1), (1, 2)]


def history_cfgs():
    out = []
    for j, (N, W) in enumerate(HISTORY_SHAPES):
        out.append(dict(BASE, N=N, W=W, K=2, limit=2, lengths=[36 + (j % 3)], data_seed=300 + j, rng_seed=300 + j, regimes=2))
    return out


def cached_objects():
    from fast_ticc import matrix_compression as mc
    from fast_ticc.admm import unique_values as uv
    objs = [mc._upper_triangle_indices(4), uv.locations_compressed(1, 0, 1, 2, 2), uv.locations_index_slices(1, 0, 1, 2, 2), uv.locations_compressed(0, 0, 0, 2, 2)]
    ids = [id(o) for o in objs]
    content = repr([[list(map(int, x)) for x in o] if isinstance(o, tuple) else list(map(int, o)) for o in objs])
    return ids, content


def blas_threads_digest(payload):
    """worker (its own process, BLAS threading NOT capped): one fit of a wide series with the given worker count"""
    cfg, procs, mp = payload
    r = run_cfg(cfg, procs=procs, mp=mp)
    return digest(r)


def run(ctx):
    pyr = random.Random(ctx.seed)
    ctx.proof_layer(allowed_axioms=(), coq_deps=[], gen=["gl_retrieve", "front_single", "front_joint", "la_initial", "pool"])
    core.note_drift(ctx, ANCHORS)
    exp = json.load(open(os.path.join(core.VERIF, "vcheck", "expected_inventory.json")))
    cov = core.LineCoverage()
    hist = {"configs": 0}
    with cov:
        # the random initialisation on short and on long recordings (tens of thousands of windows): from equal states of the two
        # global generators it must give the same labels - whatever size-dependent path it takes
        from fast_ticc import cluster_label_assignment as _cla
        for Tn in (200, 6000, 25000) + ((70000,) if ctx.thorough else ()):
            drng = np.random.default_rng(1400 + Tn)
            datan = np.vstack([drng.normal(loc=1.5 * (i % 3), scale=1.0, size=(Tn // 6 + 1, 2)) for i in range(6)])[:Tn]
            outs = []
            for rep in range(2):
                np.random.seed(2024); random.seed(2024)
                with ctx.guard("build_initial_clusters", {"points": Tn, "K": 3}):
                    outs.append([int(x) for x in _cla.build_initial_clusters(3, datan)])
            ctx.count("initial-labels-repeat")
            if len(outs) == 2 and outs[0] != outs[1]:
                ctx.violation("monitor", "two initial labellings of the same %d points from equal states of the global NumPy and Python generators differ "
                              "(%d of %d labels)" % (Tn, sum(a != b for a, b in zip(outs[0], outs[1])), Tn),
                              {"case": {"call": "build_initial_clusters(3, data)", "points": Tn, "data": "six Gaussian segments, seed %d" % (1400 + Tn),
                                        "np.random.seed": 2024, "random.seed": 2024}})
        # warm the caches, remember the cached objects
        run_cfg(BASE)
        ids0, content0 = cached_objects()
        # scalar parameters; three series of unequal length; matrix-valued sparsity weight (not symmetric) with per-pair switching costs
        for cfgi, cfg in enumerate([BASE, dict(BASE, joint=True, lengths=[30, 50, 40], K=2, data_seed=22, rng_seed=22),
                                    dict(BASE, lam_matrix="asym", beta_vec="ramp", K=2, limit=3, data_seed=23, rng_seed=23),
                                    dict(BASE, lam_matrix="upper", K=3, limit=3, data_seed=24, rng_seed=24)]):
            ref = run_cfg(cfg)
            dref = digest(ref)
            if ref["error"] is not None:
                ctx.violation("tie", "reference run fails: %s" % ref["error"], {"correspondence": "e2e:reference"}, no_input=True)
                continue
            K = cfg["K"]
            variants = [("repeat", dict(procs=1, mp=False))]
            for p in ([1, 2, 3, 8] if not ctx.thorough else range(1, 9)):
                variants.append(("procs=%d mp=off" % p, dict(procs=p, mp=False)))
                variants.append(("procs=%d mp=on" % p, dict(procs=p, mp=True)))
            for j in range(ctx.budget(3, 12)):
                perm = list(range(K)); pyr.shuffle(perm)
                delays = [0.02 * (K - perm.index(k)) for k in range(K)]      # later tasks may finish first
                variants.append(("procs=%d mp=on delays=%s" % (K, delays), dict(procs=K, mp=True, delays=delays)))
                variants.append(("procs=2 mp=on delays=%s" % (delays,), dict(procs=2, mp=True, delays=delays)))
            # a worker that is slow to answer (e2e.StallPool): one task of every round still looks unfinished the first n times the
            # parent inquires - ready() False, wait(t) / get(t) time out - whatever way the parent waits, the result must not change
            for n_, (procs_, mp_) in ((1, (1, False)), (3, (1, False)), (2, (2, True))):
                variants.append(("a slow worker: one task per round unfinished for the first %d inquiries, procs=%d mp=%s" % (n_, procs_, "on" if mp_ else "off"),
                                 dict(procs=procs_, mp=mp_, stall=(K, n_))))
            for name, kw in variants:
                ctx.count("config")
                hist["configs"] += 1
                if "delays" in name or "mp=on" in name or "slow worker" in name:
                    ctx.mark_nontrivial((cfgi, name))
                r = run_cfg(cfg, **kw)
                if digest(r) != dref:
                    ctx.violation("monitor", "result differs from the reference run under %s (%s)" % (name, r["error"]),
                                  {"cfg": cfg, "variant": name, "kw": {k: v for k, v in kw.items()}})
            # (d) preceding calls with other shapes, then the same call
            for j in range(ctx.budget(2, 6)):
                other = dict(BASE, N=[1, 3, 2][j % 3], W=[3, 1, 4][j % 3], K=2, lengths=[50 + 7 * j], data_seed=90 + j, rng_seed=90 + j, joint=bool(j % 2) and False)
                run_cfg(other)
                ctx.count("history")
                ctx.mark_nontrivial((cfgi, "history", j))
                r = run_cfg(cfg)
                if digest(r) != dref:
                    ctx.violation("monitor", "result differs after a preceding call with another shape", {"cfg": cfg, "preceding": other})
        # (d') every call must give what it gives in a process that made no other call: references from fresh worker
        # processes, then the same calls here in two different orders (shapes with equal N*W but different (N, W) follow
        # one another, so state keyed too coarsely - array length, total size - is exposed whichever call came first)
        hc = history_cfgs()
        handles = [core.start_worker(ctx, "vcheck.props.c14:fresh_digest", c, tag="fresh%d" % j) for j, c in enumerate(hc)]
        fresh = [core.wait_worker(h) for h in handles]
        rs = np.random.default_rng(ctx.seed + 14)
        S_by_shape = {}
        for (N, W) in HISTORY_SHAPES:
            a = rs.normal(size=(N * W + 3, N * W))
            S_by_shape[(N, W)] = (a.T @ a / (N * W + 3)).tolist()
        adm_cases = [(N, W, S_by_shape[(N, W)], 0.11) for (N, W) in HISTORY_SHAPES]
        adm_handles = [core.start_worker(ctx, "vcheck.props.c14:fresh_admm", c, tag="fadm%d" % j) for j, c in enumerate(adm_cases)]
        adm_fresh = [core.wait_worker(h) for h in adm_handles]
        for order_name, order in (("forward", list(range(len(hc)))), ("reversed", list(range(len(hc)))[::-1])):
            for j in order:
                ctx.count("history-fresh")
                ctx.mark_nontrivial(("hf", order_name, j))
                if adm_fresh[j]["ok"]:
                    got = fresh_admm(adm_cases[j])
                    if got != adm_fresh[j]["result"]:
                        ctx.violation("monitor", "the optimiser's answer for (N, W) = %s depends on the calls made earlier in the process (order %s of %s)"
                                      % (HISTORY_SHAPES[j], order_name, HISTORY_SHAPES), {"case": {"N": adm_cases[j][0], "W": adm_cases[j][1], "order": order_name}})
                if not fresh[j]["ok"]:
                    ctx.violation("tie", "fresh-process reference failed: %s" % fresh[j]["error"][:300], {"correspondence": "harness:C14/fresh"}, no_input=True)
                    continue
                if digest(run_cfg(hc[j])) != fresh[j]["result"]:
                    ctx.violation("monitor", "a run with (N, W) = %s gives another result than in a process of its own (calls made before it: order %s of %s)"
                                  % (HISTORY_SHAPES[j], order_name, HISTORY_SHAPES), {"cfg": hc[j], "order": order_name})
        ids1, content1 = cached_objects()
        if content0 != content1:
            ctx.violation("monitor", "an object returned by a memoised index helper was modified in place", {"before": content0[:300], "after": content1[:300]})
        if ids0 != ids1:
            ctx.notes["cache_identity_changed"] = True
    ctx.coverage["distribution"] = hist
    # (f) inventories
    nd = inventory.nondeterminism_sources()
    cs = inventory.cache_sites()
    ctx.notes["nondeterminism_sources"] = nd
    ctx.notes["cache_sites"] = cs
    machine = [x for x in nd if x not in exp["nondeterminism"] and ("cpu_count" in x["call"] or "threadpool" in x["call"] or "num_threads" in x["call"]
                                                                    or "affinity" in x["call"] or "platform." in x["call"])]
    if machine:
        # the source now looks at the machine (core count, BLAS thread pools): search for the concrete dependence with BLAS threading
        # NOT capped - the same fit of a wide series (NW = 140) in fresh processes with 1, 2, 4 and 8 worker processes
        wide = {"N": 14, "W": 10, "K": 2, "beta": 5.0, "lam": 0.11, "limit": 2, "m": 5, "biased": False, "eps": 0, "joint": False,
                "lengths": [700], "data_seed": 1414, "rng_seed": 1414, "regimes": 2}
        uncapped = {"OPENBLAS_NUM_THREADS": "", "OMP_NUM_THREADS": "", "MKL_NUM_THREADS": ""}
        handles = {(p_, mp_): core.start_worker(ctx, "vcheck.props.c14:blas_threads_digest", (wide, p_, mp_), mode="interp", extra_env=uncapped, tag="blas%d%d" % (p_, mp_))
                   for (p_, mp_) in ((1, False), (2, True), (4, True), (8, True))}
        got = {k: core.wait_worker(h, timeout=900) for k, h in handles.items()}
        digs = {k: (v["result"] if v["ok"] else "worker failed: " + v["error"][:80]) for k, v in got.items()}
        ctx.count("blas-thread-comparison", len(digs))
        if len(set(digs.values())) > 1:
            ctx.violation("monitor", "with BLAS threading left to the library, the same fit (700 x 14, window 10) gives different results for different numbers of worker "
                          "processes: %s" % {"%d workers, mp %s" % k: v[:12] for k, v in digs.items()}, {"case": {"cfg": wide, "variants": [list(k) for k in digs]}})
    if nd != exp["nondeterminism"]:
        ctx.violation("tie:inventory", "randomness / time / identity / unordered-completion sources in the source differ from the reviewed list: %s" % nd,
                      {"correspondence": "inventory:nondeterminism", "found": nd, "expected": exp["nondeterminism"]},
                      no_input=not any(v["kind"] == "monitor" for v in ctx.violations))
    if cs != exp["cache_sites"]:
        ctx.violation("tie:inventory", "functools.cache sites differ from the reviewed list", {"correspondence": "inventory:cache-sites", "found": cs, "expected": exp["cache_sites"]},
                      no_input=not any(v["kind"] == "monitor" for v in ctx.violations))
    core.anchored_check(ctx, ANCHORS, cov, ignore=("LOGGER.",))
    ctx.sample({"cfg": BASE, "variant": "procs=3 mp=on delays=[0.06, 0.02, 0.04]"})
    return ctx.finish(RULE)


def replay(ctx, data):
    d = data.get("detail", {})
    if "cfg" in d and "kw" in d:
        ref = digest(run_cfg(d["cfg"]))
        got = digest(run_cfg(d["cfg"], **d["kw"]))
        print("replay: identical =", ref == got)
        return 0 if ref == got else 1
    return run(ctx)
