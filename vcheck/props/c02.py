"""C02 - cluster MRF is the block-Toeplitz graphical-lasso optimum (partial: see MANIFEST level_note)."""
import numpy as np

from .. import core, admm_tie
from ..core import c_nat, c_float, c_bool, c_list

ANCHORS = {"admm/solver.py": ["run_admm_optimization", "admm_update_u", "admm_update_x", "admm_update_z", "check_convergence",
                              "soft_threshold_prox", "compute_lambda_sum", "x_update_prox"],
           "admm/front_end.py": ["admm_optimize_theta"]}
R_AX = core.R_AX
RULE = ("(a) bit-exact unit correspondence of soft threshold, np.sum model, both lambda-sum branches, Z update, U update, eigenvalue map "
        "(diagonal inputs), convergence test against the binary64 model; (b) loop replays: the model loop driven by the recorded X updates "
        "and norms must reproduce iteration count, stop flag and final (z,u) bit for bit, with and without a rho-update callback; "
        "(c) eps-KKT certificate recomputed from the solver's exit state (hook H2) on a grid of (N,W) x covariance kinds x lambda forms "
        "x rho; (d) sweep of the unconditional clause (a test, not a proof); non-trivial = NW >= 2 and lambda > 0 or off-diagonal S")


def boyd(rho, rp, tp, rd, td):
    if rp > 10 * rd:
        return 2 * rho
    if rd > 10 * rp:
        return rho / 2
    return rho


def classes(N, W):
    for b in range(W):
        for r in range(N):
            for c in range(r if b == 0 else 0, N):
                yield b, r, c


def class_indices(N, W, b, r, c):
    n = N * W
    idx = []
    for i in range(W - b):
        R, C = i * N + r, (b + i) * N + c
        idx.append(R * n - R * (R - 1) // 2 + (C - R))
    return idx


def certificate(ctx, N, W, S, lam, rho0, rec, case, cb, abs_tol=1e-6, rel_tol=1e-6):
    """eps-KKT certificate from the exit state; sound for a correct solver (Proofs/AdmmP admm_loop_stop + z_update_toeplitz)"""
    from fast_ticc import matrix_compression as mc
    ex = rec["exit"]
    x, z, u, zo = ex["x"], ex["z"], ex["u"], ex["z_old"]
    rho = rec["iters"][-1]["rho"]
    n = N * W
    ok = True

    def bad(msg):
        nonlocal ok
        ok = False
        ctx.violation("monitor", msg, {"case": case})
    if not np.array_equal(rec["theta"], x):
        bad("returned theta is not the solver's final x")
    if not np.all(np.isfinite(x)):
        bad("non-finite entries in the returned matrix")
        return ok
    # z is exactly block-Toeplitz
    for (b, r, c) in classes(N, W):
        idx = class_indices(N, W, b, r, c)
        if len(set(float(z[k]).hex() for k in idx)) != 1:
            bad("Z is not constant on Toeplitz class %s" % ((b, r, c),))
            break
    norm = np.linalg.norm
    if rec["stop"] is None:
        return ok
    # stopping rule honoured: both residuals within the solver's own tolerances
    at = np.sqrt(len(x)) * abs_tol + 1e-4
    tp = at + rel_tol * max(norm(x), norm(z))
    td = at + rel_tol * norm(rho * u)
    if norm(x - z) > tp * (1 + 1e-9) or norm(rho * (z - zo)) > td * (1 + 1e-9):
        bad("solver reports convergence but residuals exceed its tolerances (primal %.3g/%.3g dual %.3g/%.3g)" % (norm(x - z), tp, norm(rho * (z - zo)), td))
    # hence: returned theta is block-Toeplitz to within tol_p
    zt = np.array(x, copy=True)
    for (b, r, c) in classes(N, W):
        idx = class_indices(N, W, b, r, c)
        zt[idx] = np.mean(x[idx])
    if norm(x - zt) > tp * (1 + 1e-9):
        bad("returned theta is further than tol_p from every block-Toeplitz matrix")
    # stationarity of the X step (full symmetric matrices, upper triangle): S - X^-1 + rho (x - z_old + u_old) = 0
    X = mc.reinflate_matrix(x)
    ev = np.linalg.eigvalsh(X)
    if ev.min() <= 0:
        bad("returned theta is not positive definite (min eigenvalue %.3g)" % ev.min())
        return ok
    G = mc.compress_matrix(S - np.linalg.inv(X))
    # u_old = u - x + z (undoing the U update; with a callback the last scaling happened before this iteration)
    resid = G + rho * (u + z - zo)
    scale = norm(mc.compress_matrix(S)) + norm(mc.compress_matrix(np.linalg.inv(X))) + rho * (norm(x) + norm(z) + norm(u)) + 1e-30
    if norm(resid) > 1e-6 * scale:
        bad("X-step stationarity violated: |S - inv(X) + rho(x - z_old + u_old)| = %.3g (scale %.3g)" % (norm(resid), scale))
    # class-wise subgradient condition of the Z step: rho * sum_class u in Q * d|z_class|
    for (b, r, c) in classes(N, W):
        idx = class_indices(N, W, b, r, c)
        if isinstance(lam, np.ndarray):
            Q = sum(lam[i * N + r, (b + i) * N + c] for i in range(W - b))
        else:
            Q = float(lam) * (W - b)
        su = rho * float(np.sum(u[idx]))
        zc = z[idx[0]]
        tol = 1e-9 * (abs(Q) + abs(su) + rho * float(np.sum(np.abs(x[idx]))) + 1e-12)
        if (zc > 0 and abs(su - Q) > tol) or (zc < 0 and abs(su + Q) > tol) or (zc == 0 and abs(su) > Q + tol):
            bad("Z-step optimality violated on class %s: z=%.3g rho*sum(u)=%.6g Q=%.6g" % ((b, r, c), zc, su, Q))
            break
    return ok


def run(ctx):
    rng = np.random.default_rng(ctx.seed)
    ctx.proof_layer(allowed_axioms=R_AX, coq_deps=["Corr/RunAdmm"], gen=["unique_values", "solver", "solver_loop", "admm_front", "aa_shallow", "aa_deep"])
    core.note_drift(ctx, ANCHORS)
    cov = core.LineCoverage()
    hist = {"NW": {}, "iterations_max": 0, "not_converged": 0, "lam": {}, "cov": {}}
    loop_lits = {"loop": [], "loop_cb": []}
    with cov:
        cases = admm_tie.gen_unit_cases(rng, ctx.budget(120, 600))
        for k, v in cases.items():
            ctx.count("unit:" + k, len(v))
        for k in ("soft", "z", "theta", "lam_matrix"):
            for lit, d in cases[k][:200]:
                ctx.mark_nontrivial(lit[:200])
        # (b)+(c) solver runs
        shapes = [(1, 1), (2, 1), (1, 2), (2, 2), (1, 3), (3, 1), (2, 3), (3, 2), (1, 6), (4, 2), (2, 6), (3, 4), (4, 6)]
        if ctx.thorough:
            shapes += [(6, 4), (4, 10), (6, 10), (10, 6), (2, 14), (5, 7)]
        run_id = 0
        # the caller may keep ONE array object per argument and refill it in place between solves (same id, new
        # contents): every solve must answer for the contents it is given now
        lam_bufs, cov_bufs = {}, {}
        for (N, W) in shapes:
            n = N * W
            for ci, kind in enumerate(["full", "rankdef", "diag", "corr"]):
                if n == 1 and kind != "full":
                    continue
                for li in range(2 if not ctx.thorough else 3):
                    run_id += 1
                    S = admm_tie.random_cov(rng, n, kind)
                    lam_kind = ["scalar", "const", "matrix"][(run_id + li) % 3]
                    lv = [0.11, 0.0, 1e-3, 1.0, 5.0][run_id % 5]
                    if lam_kind == "scalar":
                        lam = lv
                    elif lam_kind == "const":
                        lam = np.full((n, n), lv)
                    else:
                        lam = np.abs(rng.standard_normal((n, n))) * 0.3
                        lam = (lam + lam.T) / 2
                    if lam_kind != "scalar":
                        buf = lam_bufs.setdefault(n, np.empty((n, n)))
                        buf[...] = lam
                        lam = buf
                    sbuf = cov_bufs.setdefault(n, np.empty((n, n)))
                    sbuf[...] = S
                    S = sbuf
                    rho = [1, 1.0, 0.1, 10.0][run_id % 4]
                    cb = boyd if run_id % 3 == 0 else None
                    case = {"N": N, "W": W, "cov": kind, "lam": lam_kind if lam_kind != "scalar" else lv, "lam_value": lv, "rho": float(rho),
                            "callback": cb is not None, "S_hex": [[float(v).hex() for v in row] for row in S]}
                    rec = None
                    with ctx.guard("admm_optimize_theta", case):
                        rec = admm_tie.record_solver_run(N, W, S, lam, rho=rho, rho_update=cb)
                    ctx.count("solver-run")
                    if rec is None or rec["exit"] is None:
                        if rec is not None:
                            ctx.violation("tie", "no solver-exit event", {"correspondence": "hook:H2", "case": case}, no_input=True)
                        continue
                    its = len(rec["iters"])
                    hist["NW"][n] = hist["NW"].get(n, 0) + 1
                    hist["iterations_max"] = max(hist["iterations_max"], its)
                    hist["not_converged"] += rec["stop"] is None
                    hist["lam"][lam_kind] = hist["lam"].get(lam_kind, 0) + 1
                    hist["cov"][kind] = hist["cov"].get(kind, 0) + 1
                    if n >= 2:
                        ctx.mark_nontrivial(repr(case)[:300])
                    certificate(ctx, N, W, S, lam, rho, rec, case, cb)
                    if n <= (6 if not ctx.thorough else 9) and its <= 120 and len(loop_lits["loop"]) + len(loop_lits["loop_cb"]) < (14 if not ctx.thorough else 60):
                        lit = admm_tie.loop_case_literal(N, W, S, lam, rho, 1000, 1e-6, 1e-6, rec)
                        loop_lits["loop_cb" if cb else "loop"].append((lit, case))
        # (c') the covariance in other array forms - integer and float32 dtypes (integer-valued entries, so the value is
        # the same in every dtype), Fortran order, a non-contiguous view, a read-only array: the certificate must hold for
        # the VALUES whatever the container
        form_shapes = [(2, 2), (3, 2), (2, 3), (1, 4)] + ([(4, 2), (2, 5)] if ctx.thorough else [])
        for fi, (N, W) in enumerate(form_shapes):
            n = N * W
            A = rng.integers(-1, 2, size=(n, n))
            # well-conditioned integer-valued covariances (the solver stops within a few dozen iterations on them)
            Sv = [2 * np.eye(n, dtype=np.int64),
                  np.kron(np.eye(W, dtype=np.int64), 2 * np.eye(N, dtype=np.int64) + np.ones((N, N), dtype=np.int64)),
                  np.diag(np.arange(1, n + 1)).astype(np.int64),
                  (A @ A.T + 2 * n * np.eye(n, dtype=np.int64)).astype(np.int64)][fi % 4]
            for form in ("int64", "int32", "float32", "fortran", "strided", "readonly"):
                if form in ("int64", "int32", "float32"):
                    Sf = Sv.astype(form)
                elif form == "fortran":
                    Sf = np.asfortranarray(Sv.astype(np.float64))
                elif form == "strided":
                    big = np.zeros((2 * n, 2 * n))
                    big[::2, ::2] = Sv
                    Sf = big[::2, ::2]
                else:
                    Sf = Sv.astype(np.float64)
                    Sf.setflags(write=False)
                lam = [0.5, 0.25, 0.1, 0.11][fi % 4]
                case = {"N": N, "W": W, "cov": "integer-valued as " + form, "lam": lam, "lam_value": lam, "rho": 1.0, "callback": False,
                        "S_hex": [[float(v).hex() for v in row] for row in Sv], "S_form": form}
                rec = None
                with ctx.guard("admm_optimize_theta", case):
                    rec = admm_tie.record_solver_run(N, W, Sf, lam, rho=1.0, rho_update=None)
                ctx.count("solver-run:array-form")
                if rec is None or rec["exit"] is None:
                    continue
                hist["cov"][form] = hist["cov"].get(form, 0) + 1
                hist["not_converged"] += rec["stop"] is None
                certificate(ctx, N, W, Sv.astype(np.float64), lam, 1.0, rec, case, None)
        # (c'') the caller's own stopping tolerances, unequal and loose enough to matter: a run that stops within its budget must
        # meet THESE tolerances (absolute and relative are different knobs)
        for ti, (N, W) in enumerate([(2, 2), (3, 2), (2, 3), (3, 4)] + ([(4, 3), (2, 6)] if ctx.thorough else [])):
            n = N * W
            for (a_tol, r_tol) in ((0.0, 1e-2), (0.0, 1e-3), (1e-2, 0.0), (1e-7, 3e-3)):
                S = admm_tie.random_cov(rng, n, "full")
                lam = [0.11, 0.3, 0.05][ti % 3]
                case = {"N": N, "W": W, "cov": "full", "lam": lam, "lam_value": lam, "rho": 1.0, "callback": False,
                        "absolute_tolerance": a_tol, "relative_tolerance": r_tol, "S_hex": [[float(v).hex() for v in row] for row in S]}
                rec = None
                with ctx.guard("admm_optimize_theta", case):
                    rec = admm_tie.record_solver_run(N, W, S, lam, rho=1.0, abs_tol=a_tol, rel_tol=r_tol)
                ctx.count("solver-run:tolerances")
                if rec is None or rec["exit"] is None:
                    continue
                hist["not_converged"] += rec["stop"] is None
                certificate(ctx, N, W, S, lam, 1.0, rec, case, None, abs_tol=a_tol, rel_tol=r_tol)
        # (d) unconditional clause: rho = 1, no callback, eig(S) in [0.25, 4], lambda in [0,1]
        worst = 0
        for i in range(ctx.budget(25, 150)):
            N, W = [(2, 2), (3, 2), (2, 5), (4, 3), (3, 6), (4, 6), (6, 10)][i % (6 if not ctx.thorough else 7)]
            n = N * W
            S = admm_tie.random_cov(rng, n, "full")
            lam = float([0.0, 1e-3, 0.11, 0.5, 1.0][i % 5])
            case = {"N": N, "W": W, "lam": lam, "rho": 1.0, "clause": "unconditional", "S_hex": [[float(v).hex() for v in row] for row in S]}
            with ctx.guard("admm_optimize_theta", case):
                rec = admm_tie.record_solver_run(N, W, S, lam, rho=1)
                worst = max(worst, len(rec["iters"]))
                if rec["stop"] is None:
                    ctx.violation("monitor", "solver exhausted its iteration budget inside the stated domain (rho=1, eig(S) in [0.25,4], lambda<=1)", {"case": case})
                else:
                    certificate(ctx, N, W, S, lam, 1, rec, case, None)
            ctx.count("budget-sweep")
        hist["budget_sweep_worst_iterations"] = worst
        # (e) end to end: the MRF a cluster carries after the optimise phase of ANY round is the optimum for ITS OWN covariance -
        #     the solver's (certified) answer to that cluster's covariance - under ordinary and under adverse schedules of the
        #     worker pool (later tasks finishing first; a task that still looks unfinished when the parent first asks)
        from .. import e2e as _e2e
        from fast_ticc import matrix_compression as _mc
        e_cfgs = [dict(N=2, W=2, K=3, beta=4.0, lam=0.11, limit=3, m=2, biased=False, eps=0, joint=False, lengths=[120], regimes=3, data_seed=210, rng_seed=210),
                  dict(N=2, W=2, K=3, beta=4.0, lam=0.11, limit=3, m=2, biased=False, eps=0, joint=False, lengths=[120], regimes=3, data_seed=211, rng_seed=211,
                       mp=True, procs=3, delays=[0.35, 0.0, 0.0]),
                  dict(N=1, W=3, K=4, beta=2.0, lam=0.3, limit=2, m=2, biased=True, eps=0, joint=True, lengths=[70, 60], regimes=3, data_seed=212, rng_seed=212,
                       mp=True, procs=4, delays=[0.45, 0.3, 0.15, 0.0]),
                  dict(N=2, W=1, K=3, beta=4.0, lam=0.11, limit=3, m=2, biased=False, eps=0, joint=False, lengths=[110], regimes=3, data_seed=213, rng_seed=213,
                       stall=(3, 3))]
        for r_ in _e2e.cached_runs(ctx, e_cfgs[: ctx.budget(4, 4)], "c02"):
            cfg_ = r_["cfg"]
            if r_["error"] is not None:
                continue
            for ev in [e for e in r_["events"] if e["event"] == "phase" and e["phase"] == "optimise"]:
                for k_, c_ in enumerate(ev["state"]["clusters"]):
                    S_ = c_["empirical_covariance"]
                    if S_ is None or c_["train_inverse"] is None:
                        continue
                    case = {"cfg": {kk: vv for kk, vv in cfg_.items()}, "round": ev["round"], "cluster": k_, "N": cfg_["N"], "W": cfg_["W"], "lam": cfg_["lam"],
                            "S_hex": [[float(v).hex() for v in row] for row in np.atleast_2d(S_)]}
                    rec = None
                    with ctx.guard("admm_optimize_theta", case):
                        rec = admm_tie.record_solver_run(cfg_["N"], cfg_["W"], np.array(S_, dtype=float, copy=True), cfg_["lam"])
                    ctx.count("e2e-cluster-mrf")
                    if cfg_.get("delays") or cfg_.get("stall"):
                        ctx.mark_nontrivial(("adverse schedule", cfg_["data_seed"], ev["round"], k_))
                    if rec is None or rec["exit"] is None:
                        continue
                    if rec["stop"] is not None:
                        certificate(ctx, cfg_["N"], cfg_["W"], np.array(S_, dtype=float), cfg_["lam"], 1, rec, case, None)
                    own = _mc.reinflate_matrix(rec["theta"])
                    if not np.allclose(own, c_["train_inverse"], rtol=1e-9, atol=1e-12):
                        ctx.violation("monitor", "round %d: the MRF stored for cluster %d is not the optimum for that cluster's own covariance (max diff %.3g from the solver's answer to it)"
                                      % (ev["round"], k_, float(np.max(np.abs(own - c_["train_inverse"])))), {"case": case})
    ctx.coverage["distribution"] = hist
    core.anchored_check(ctx, ANCHORS, cov, ignore=("raise ValueError", "LOGGER.debug", "Lambda parameter", "either a float"))
    ctx.sample({"kind": "soft", "case": cases["soft"][0][1]})
    ctx.sample({"kind": "z", "case": cases["z"][0][1]})
    cases["loop"] = loop_lits["loop"]
    cases["loop_cb"] = loop_lits["loop_cb"]
    ctx.count("loop-replay", len(cases["loop"]) + len(cases["loop_cb"]))
    admm_tie.evaluate(ctx, cases, ["soft", "sum", "lam_scalar", "lam_matrix", "z", "u", "theta", "conv", "loop", "loop_cb"])
    return ctx.finish(RULE)


def replay(ctx, data):
    c = data.get("detail", {}).get("case")
    if c and "S_hex" in c:
        S = np.array([[float.fromhex(v) for v in row] for row in c["S_hex"]])
        N, W = c["N"], c["W"]
        n = N * W
        lam = c.get("lam_value", c.get("lam"))
        if c.get("lam") == "const":
            lam = np.full((n, n), c["lam_value"])
        if c.get("lam") == "matrix":
            print("replay: random matrix lambda is not stored; re-running the check")
            return run(ctx)
        rec = admm_tie.record_solver_run(N, W, S, lam, rho=c["rho"], rho_update=boyd if c.get("callback") else None)
        if rec["stop"] is None and c.get("clause") == "unconditional":
            print("replay: budget exhausted")
            return 1
        ok = certificate(ctx, N, W, S, lam, c["rho"], rec, c, None)
        for v in ctx.violations:
            print("replay:", v["what"])
        return 0 if ok else 1
    print("replay: re-running the check")
    return run(ctx)
