"""C11 - compressed-matrix and Toeplitz-class index maps are exact bijections."""
import numpy as np

from .. import core, coqfmt
from ..core import c_nat

ANCHORS = {
    "matrix_compression.py": ["_full_matrix_size", "_uncompress_upper_triangle", "_upper_to_full", "compress_matrix",
                              "reinflate_matrix", "_upper_triangle_indices"],
    "admm/unique_values.py": ["_size_including_this_row", "_elements_in_row_after_target", "_compressed_index",
                              "_block_start_coordinates", "_unique_variable_locations", "locations_compressed",
                              "locations_index_slices"],
}
RULE = ("finite domain of the property enumerated completely: every n <= 150 (quick: a fixed third of them plus all n <= 30) for "
        "triu order / closed-form index / size inverse / compress / reinflate, every (N,W) with N <= 10, W <= 14 for the class "
        "lists (both forms) in the enumeration order the Z update uses (recorded from admm_update_z), cold and warm caches; "
        "float pass with +-0, subnormals, 1e307; non-trivial = n >= 2 resp. N*W >= 2")


def clear_caches():
    from fast_ticc import matrix_compression as mc
    from fast_ticc.admm import unique_values as uv
    # every memo table of the two modules, wherever the source keeps them now
    for mod in (mc, uv):
        for name in dir(mod):
            f = getattr(mod, name)
            if callable(getattr(f, "cache_clear", None)):
                f.cache_clear()


def impl_triu(n):
    from fast_ticc import matrix_compression as mc
    from fast_ticc.admm import unique_values as uv
    rows, cols = mc._upper_triangle_indices(n)
    flat = []
    for r, c in zip(rows, cols):
        flat += [int(r), int(c)]
    idx = [uv._compressed_index(int(r), int(c), n) for r, c in zip(rows, cols)]
    for k in idx:
        if not isinstance(k, int):
            raise TypeError("compressed index is not an int: %r" % (k,))
    return coqfmt.hashN(flat + idx + [mc._full_matrix_size(n * (n + 1) // 2)])


def impl_compress(n):
    from fast_ticc import matrix_compression as mc
    M = np.array([[1 + min(r, c) * n + max(r, c) for c in range(n)] for r in range(n)], dtype=np.float64).reshape(n, n)
    v = mc.compress_matrix(M)
    return coqfmt.hash_rowsZ([[int(x) for x in v]])


def impl_reinflate(n):
    from fast_ticc import matrix_compression as mc
    v = np.array([1 + 3 * k for k in range(n * (n + 1) // 2)], dtype=np.float64)
    M = mc.reinflate_matrix(v)
    if M.shape != (n, n):
        raise ValueError("reinflated shape %s" % (M.shape,))
    return coqfmt.hash_rowsZ([[int(x) for x in row] for row in M])


def impl_classes(N, W):
    """class enumeration recorded from the Z update itself, with both position forms"""
    from fast_ticc.admm import solver, unique_values as uv
    from fast_ticc.containers import arguments
    seq = []
    orig = uv.locations_compressed

    def rec(b, r, c, bs, nb):
        seq.append((b, r, c, bs, nb))
        return orig(b, r, c, bs, nb)
    uv.locations_compressed = rec
    try:
        args = arguments.ADMMArguments(window_size=W, num_data_series=N, rho=1.0, rho_update=None, sparsity_weight=0.5,
                                       absolute_tolerance=1e-6, relative_tolerance=1e-6, max_iterations=1, verbose=False)
        m = N * W * (N * W + 1) // 2
        solver.admm_update_z(args, np.zeros(m), np.ones(m))
    finally:
        uv.locations_compressed = orig
    flat = []
    for (b, r, c, bs, nb) in seq:
        if (bs, nb) != (N, W):
            raise ValueError("Z update passed block_size/num_blocks %s" % ((bs, nb),))
        rows, cols = uv.locations_index_slices(b, r, c, N, W)
        comp = uv.locations_compressed(b, r, c, N, W)
        flat += [b, r, c] + [int(x) for x in rows] + [int(x) for x in cols] + [int(x) for x in comp]
    return coqfmt.hashN(flat), len(seq)


def float_pass(ctx, n, rng):
    """compress(reinflate(v)) == v and reinflate(compress(M)) == M on awkward float values"""
    from fast_ticc import matrix_compression as mc
    m = n * (n + 1) // 2
    pool = np.array([0.0, -0.0, 5e-324, -5e-324, 2.2250738585072014e-308, 1e307, -1e307, 1.0, -1.5, 1e-300, 0.1, 3.0])
    v = pool[rng.integers(0, len(pool), size=m)]
    back = mc.compress_matrix(mc.reinflate_matrix(v))
    if back.shape != v.shape or not np.array_equal(back, v):
        ctx.violation("monitor", "compress(reinflate(v)) != v", {"n": n, "v_hex": [float(x).hex() for x in v], "back_hex": [float(x).hex() for x in back]})
    nz = v != 0
    if not np.array_equal(back[nz].view(np.uint64), v[nz].view(np.uint64)):
        ctx.violation("monitor", "compress(reinflate(v)) differs in bits on non-zero entries", {"n": n, "v_hex": [float(x).hex() for x in v]})
    M = mc.reinflate_matrix(v)
    if not np.array_equal(M, M.T):
        ctx.violation("monitor", "reinflated matrix is not symmetric", {"n": n, "v_hex": [float(x).hex() for x in v]})
    if not np.array_equal(mc.reinflate_matrix(mc.compress_matrix(M)), M):
        ctx.violation("monitor", "reinflate(compress(M)) != M", {"n": n, "v_hex": [float(x).hex() for x in v]})


def interleaving_pass(ctx, n, rng):
    """both round trips while another caller of the same process runs the same functions on OTHER data of the same size at
    every line boundary inside the library (a second thread scheduled there): the answers must be those for the own data"""
    from fast_ticc import matrix_compression as mc
    m = n * (n + 1) // 2
    v = rng.normal(size=m)
    v2 = rng.normal(size=m) + 100.0
    want_M = np.zeros((n, n))
    want_M[np.triu_indices(n)] = v
    want_M = want_M + want_M.T - np.diag(np.diag(want_M))
    def intruder():
        mc.compress_matrix(mc.reinflate_matrix(v2))
    got_M, pts = core.interleaved_call(mc.reinflate_matrix, (v,), intruder, ("matrix_compression",))
    got_v, pts2 = core.interleaved_call(mc.compress_matrix, (want_M,), intruder, ("matrix_compression",))
    ctx.count("interleaving-points", pts + pts2)
    if got_M.shape != want_M.shape or not np.array_equal(got_M, want_M):
        ctx.violation("monitor", "reinflate_matrix returns another caller's matrix when a second call for the same size (n = %d) runs between two "
                      "of its lines (%d of %d entries differ)" % (n, int(np.sum(got_M != want_M)) if got_M.shape == want_M.shape else -1, n * n),
                      {"n": n, "what": "interleaving", "v_hex": [float(x).hex() for x in v[:20]]})
    if got_v.shape != v.shape or not np.array_equal(got_v, v):
        ctx.violation("monitor", "compress_matrix returns another caller's vector when a second call for the same size (n = %d) runs between two of its lines" % n,
                      {"n": n, "what": "interleaving"})


def dtype_pass(ctx, n, rng):
    """compress_matrix on symmetric matrices held in other element types: the answer is still the row-major upper triangle,
    value for value; for the integer and float types the round trip gives the matrix back"""
    from fast_ticc import matrix_compression as mc
    iu = np.triu_indices(n)
    for dt in (np.bool_, np.int8, np.uint8, np.int16, np.int64, np.float16, np.float32):
        if dt is np.bool_:
            A = rng.integers(0, 2, size=(n, n)).astype(bool)
            M = A | A.T
        elif np.issubdtype(dt, np.integer):
            info = np.iinfo(dt)
            A = rng.integers(info.min // 2 + 1, info.max // 2, size=(n, n), dtype=np.int64)
            M = np.triu(A) + np.triu(A, 1).T
            M[0, 0] = info.max                     # an extreme value on the diagonal
            M = M.astype(dt)
        else:
            A = rng.integers(-200, 200, size=(n, n)).astype(np.float64) / 8.0
            M = (np.triu(A) + np.triu(A, 1).T).astype(dt)
        want = M[iu]
        got = mc.compress_matrix(M)
        ctx.count("dtype-compress")
        if got.shape != want.shape or not np.array_equal(np.asarray(got, dtype=np.float64), np.asarray(want, dtype=np.float64)):
            k = int(np.argmax(np.asarray(got, dtype=np.float64) != np.asarray(want, dtype=np.float64))) if got.shape == want.shape else -1
            ctx.violation("monitor", "compress_matrix of a symmetric %d x %d %s matrix is not its row-major upper triangle (entry %d: %r, expected %r)" % (
                n, n, np.dtype(dt).name, k, got[k].item() if k >= 0 else None, want[k].item() if k >= 0 else None),
                {"n": n, "what": "compress-dtype", "dtype": np.dtype(dt).name})
            continue
        if dt is not np.bool_:
            back = mc.reinflate_matrix(got)
            if back.shape != M.shape or not np.array_equal(np.asarray(back, dtype=np.float64), np.asarray(M, dtype=np.float64)):
                ctx.violation("monitor", "reinflate(compress(M)) != M for a symmetric %d x %d %s matrix" % (n, n, np.dtype(dt).name),
                              {"n": n, "what": "roundtrip-dtype", "dtype": np.dtype(dt).name})


def definition_pass(ctx, n):
    """the statement itself on matrices with pairwise distinct entries, for one size n (independent of the model):
    compress = row-major upper triangle, reinflate = the symmetric matrix with that upper triangle, both round trips"""
    from fast_ticc import matrix_compression as mc
    m = n * (n + 1) // 2
    v = np.arange(1, m + 1, dtype=np.float64) * 3.0 + 0.5
    want = np.zeros((n, n))
    k = 0
    for r in range(n):
        want[r, r:] = v[k:k + n - r]
        want[r:, r] = v[k:k + n - r]
        k += n - r
    M = mc.reinflate_matrix(v)
    if M.shape != (n, n) or not np.array_equal(M, want):
        bad = np.argwhere(M != want)[:1].tolist() if M.shape == (n, n) else M.shape
        ctx.violation("monitor", "reinflate_matrix: entry %s of the %d x %d matrix is not the row-major upper-triangle element it should be" % (bad, n, n), {"n": n, "what": "reinflate"})
        return
    c = mc.compress_matrix(want)
    if c.shape != v.shape or not np.array_equal(c, v):
        ctx.violation("monitor", "compress_matrix does not return the upper triangle in row-major order for n = %d" % n, {"n": n, "what": "compress"})
    rows, cols = mc._upper_triangle_indices(n)
    if len(rows) != m or any(int(a) != int(b) for a, b in zip(rows[:n], [0] * n)) or (n and (int(rows[-1]), int(cols[-1])) != (n - 1, n - 1)):
        ctx.violation("monitor", "upper-triangle index lists are wrong for n = %d" % n, {"n": n, "what": "triu"})


def direct_checks(ctx, N, W):
    """the statement itself on the implementation's lists (independent of the model)"""
    from fast_ticc.admm import unique_values as uv
    n = N * W
    seen = {}
    for b in range(W):
        for r in range(N):
            for c in range(r if b == 0 else 0, N):
                rows, cols = uv.locations_index_slices(b, r, c, N, W)
                comp = uv.locations_compressed(b, r, c, N, W)
                if len(rows) != W - b or len(cols) != W - b or len(comp) != W - b:
                    ctx.violation("monitor", "class (%d,%d,%d) of (N,W)=(%d,%d) does not hold W-b positions" % (b, r, c, N, W), {"N": N, "W": W, "class": [b, r, c]})
                for R, C, k in zip(rows, cols, comp):
                    if not (0 <= R <= C < n):
                        ctx.violation("monitor", "position outside the upper triangle", {"N": N, "W": W, "class": [b, r, c], "pos": [R, C]})
                    rank = R * n - R * (R - 1) // 2 + (C - R)
                    if k != rank:
                        ctx.violation("monitor", "compressed form names a different position", {"N": N, "W": W, "class": [b, r, c], "pos": [R, C], "k": k})
                    if (C // N - R // N, R % N, C % N) != (b, r, c):
                        ctx.violation("monitor", "position is not Toeplitz-equal to its class", {"N": N, "W": W, "class": [b, r, c], "pos": [R, C]})
                    if (R, C) in seen:
                        ctx.violation("monitor", "position in two classes", {"N": N, "W": W, "pos": [R, C]})
                    seen[(R, C)] = (b, r, c)
    if len(seen) != n * (n + 1) // 2:
        ctx.violation("monitor", "classes do not cover the upper triangle", {"N": N, "W": W, "covered": len(seen)})


def run(ctx):
    rng = np.random.default_rng(ctx.seed)
    ctx.proof_layer(allowed_axioms=list(core.R_AX) + [core.FLOAT_SPEC], coq_deps=["Corr/RunTriIndex"], gen=["unique_values", "matrix_compression"])
    core.note_drift(ctx, ANCHORS)
    if ctx.thorough:
        ns = list(range(0, 151))
        ctx.notes["exhaustive"] = True
    else:
        ns = sorted(set(list(range(0, 31)) + list(range(31, 151, 3)) + [149, 150]))
    nws = [(N, W) for N in range(1, 11) for W in range(1, 15)]
    impl = {"triu": [], "compress": [], "reinflate": [], "classes": []}
    cov = core.LineCoverage()
    with cov:
        for phase in ("cold", "warm"):
            if phase == "cold":
                clear_caches()
            cur = {"triu": [], "compress": [], "reinflate": [], "classes": []}
            if phase == "cold":
                # every size of the property's domain (and sizes around the limits of narrow integer types), definition level
                for n in list(range(0, 151)) + [200, 254, 255, 256, 257, 300]:
                    with ctx.guard("compress / reinflate", {"n": n, "phase": "definition pass"}):
                        definition_pass(ctx, n)
                    ctx.count("n-definition")
                for n in (1, 2, 5, 17, 64):
                    with ctx.guard("compress / reinflate", {"n": n, "phase": "dtype pass"}):
                        dtype_pass(ctx, n, rng)
                for n in (1, 2, 3, 7, 40, 129, 150):
                    with ctx.guard("compress / reinflate", {"n": n, "phase": "interleaving pass"}):
                        interleaving_pass(ctx, n, rng)
                    ctx.count("n-interleaving")
            for n in ns:
                for key, fn in (("triu", impl_triu), ("compress", impl_compress), ("reinflate", impl_reinflate)):
                    val = -1
                    with ctx.guard("index maps", {"n": n, "phase": phase, "what": key}):
                        val = fn(n)
                    cur[key].append(val)
                with ctx.guard("index maps", {"n": n, "phase": phase}):
                    if phase == "cold" and n >= 1:
                        float_pass(ctx, n, rng)
                ctx.count("n")
                if n >= 2:
                    ctx.mark_nontrivial(("n", n))
            for (N, W) in nws:
                with ctx.guard("class maps", {"N": N, "W": W, "phase": phase}):
                    h, ncls = impl_classes(N, W)
                    cur["classes"].append(h)
                    if phase == "cold" and (ctx.thorough or N * W <= 40):
                        direct_checks(ctx, N, W)
                ctx.count("NW")
                if N * W >= 2:
                    ctx.mark_nontrivial(("NW", N, W))
            if phase == "cold":
                impl = cur
            elif any(len(cur[k]) != len(impl[k]) or cur[k] != impl[k] for k in cur):
                for key, dom in (("triu", ns), ("compress", ns), ("reinflate", ns), ("classes", nws)):
                    bad_at = [d for d, a, b in zip(dom, impl[key], cur[key]) if a != b]
                    if bad_at:
                        ctx.violation("monitor", "%s gives a different answer the second time it is asked in the same process (first at %s)" % (key, bad_at[0],),
                                      {"what": key, "case": bad_at[0], "phase": "second pass"})
                        break
        # third pass: sizes in a shuffled order (state kept between calls must not matter), definition-level check
        order = [int(i) for i in rng.permutation(len(nws))]
        clear_caches()        # drop the functools memo tables so that the helpers really recompute, in a new order
        from fast_ticc.admm import unique_values as uv2
        for i in order:
            N, W = nws[i]
            if not ctx.thorough and N * W > 60:
                continue
            with ctx.guard("class maps (shuffled order)", {"N": N, "W": W}):
                n = N * W
                for b in range(W):
                    r = int(rng.integers(0, N)); c = int(rng.integers(r if b == 0 else 0, N))
                    comp = uv2.locations_compressed(b, r, c, N, W)
                    rows, cols = uv2.locations_index_slices(b, r, c, N, W)
                    for R, C, k in zip(rows, cols, comp):
                        if k != R * n - R * (R - 1) // 2 + (C - R) or uv2._compressed_index(R, C, n) != k:
                            ctx.violation("monitor", "compressed index of (%d,%d) for n=%d is %d, its row-major rank is %d (sizes visited in shuffled order)"
                                          % (R, C, n, k, R * n - R * (R - 1) // 2 + (C - R)), {"N": N, "W": W, "class": [b, r, c]})
                            break
            ctx.count("NW-shuffled")

        # error branch of the closed form (kept covered; the model has no lower-triangle index)
        from fast_ticc.admm import unique_values as uv
        try:
            uv._compressed_index(2, 1, 3)
            ctx.violation("monitor", "_compressed_index accepts a lower-triangle position", {"r": 2, "c": 1, "n": 3})
        except IndexError:
            pass
    core.anchored_check(ctx, ANCHORS, cov, ignore=("block_id < 0", "block_size <= 0", "window_size <= 0", "matrix_size = full_matrix.shape", "full_matrix.shape[0] != full_matrix.shape[1]"))
    ctx.sample({"n": 3, "triu": "[(0,0),(0,1),(0,2),(1,1),(1,2),(2,2)]"})
    ctx.sample({"N,W": nws[15]})
    jobs = []
    CH = 40
    # the model's reinflate costs O(n^4) list steps: model comparison for n <= 48 (thorough: 64) and a few large n;
    # the float pass / direct definition check above covers every n of the domain on the implementation
    rn = [n for n in ns if n <= (64 if ctx.thorough else 48)] + ([100, 150] if ctx.thorough else [100])
    impl["reinflate"] = [impl["reinflate"][ns.index(n)] for n in rn]
    for k in range(0, len(ns), CH):
        chunk = [c_nat(n) for n in ns[k:k + CH]]
        for fn in ("run_triu", "run_compress"):
            jobs.append(("%s_%d" % (fn, k // CH), coqfmt.cases_file("From Ticc Require Import Corr.RunTriIndex.", "nat", chunk, fn)))
    for k in range(0, len(rn), 7):
        jobs.append(("run_reinflate_%d" % (k // 7), coqfmt.cases_file("From Ticc Require Import Corr.RunTriIndex.", "nat", [c_nat(n) for n in rn[k:k + 7]], "run_reinflate")))
    for k in range(0, len(nws), 35):
        jobs.append(("run_classes_%d" % (k // 35), coqfmt.cases_file(
            "From Ticc Require Import Corr.RunTriIndex.", "nat * nat", ["(%s, %s)" % (c_nat(N), c_nat(W)) for (N, W) in nws[k:k + 35]], "run_classes")))
    res = ctx.coq_eval_many(jobs, timeout=900)
    model = {"run_triu": [], "run_compress": [], "run_reinflate": [], "run_classes": []}
    for (name, _), (ok, out) in zip(jobs, res):
        vals = coqfmt.parse_print_list(out) if ok else None
        if vals is None:
            ctx.violation("tie", "model evaluation failed for %s" % name, {"correspondence": "tie:TriIndex." + name, "log": out[-1500:]}, no_input=True)
            return ctx.finish(RULE)
        model[name.rsplit("_", 1)[0]] += vals
    for key, mkey, dom in (("triu", "run_triu", ns), ("compress", "run_compress", ns), ("reinflate", "run_reinflate", rn), ("classes", "run_classes", nws)):
        if len(model[mkey]) != len(dom) or len(impl[key]) != len(dom):
            ctx.violation("tie", "case count mismatch for %s" % key, {"correspondence": "tie:TriIndex." + key}, no_input=True)
            continue
        for d, a, b in zip(dom, model[mkey], impl[key]):
            if a != b:
                ctx.tie_mismatch("TriIndex." + key, "model and implementation disagree on %s at %s" % (key, d,), {"what": key, "case": d, "model_hash": a, "impl_hash": b})
                break
    return ctx.finish(RULE)


def replay(ctx, data):
    print("replay: re-running the check")
    return run(ctx)
