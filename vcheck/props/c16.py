"""C16 - Bayesian information criterion matches its definition."""
import re

import numpy as np

from .. import core, e2e
from ..core import c_nat, c_list, c_float

ANCHORS = {"cluster_metrics.py": ["bayesian_information_criterion"]}
RULE = ("(a) threshold count on MRF entries at 2e-5 +- 1 ulp and run counting / assembly bit for bit against the binary64 model with the "
        "log-dets, traces and log T as oracle inputs, on generated models incl. unused clusters and determinants outside the double "
        "range; (b) every completed traced run: BIC recomputed from labels, MRFs and fitted covariances in long double; "
        "non-trivial = at least two maximal runs")


def reference_bic(labels, thetas, covs):
    P = 0
    last = None
    for l in labels:
        if l != last:
            P += int(np.sum(np.abs(thetas[l]) > 2e-5))
            last = l
    tot = np.longdouble(0)
    for th, S in zip(thetas, covs):
        s, ld = np.linalg.slogdet(th)
        tot += np.longdouble(ld) - np.longdouble(np.trace(th @ S))
    return float(P * np.log(np.longdouble(len(labels))) - 2 * tot), P


def run(ctx):
    from fast_ticc import cluster_metrics as cmx
    from fast_ticc.containers import model_state, arguments
    rng = np.random.default_rng(ctx.seed)
    ctx.proof_layer(allowed_axioms=core.R_AX, coq_deps=["Corr/RunAccounting"])
    core.note_drift(ctx, ANCHORS)
    cov = core.LineCoverage()
    nnz_l, bic_l = [], []
    with cov:
        for i in range(ctx.budget(60, 300)):
            K = int(rng.integers(1, 5)); n = [1, 2, 3, 6, 60][i % 5] if i % 5 < 4 or i < 10 or ctx.thorough else 3
            T = int(rng.integers(1, 40))
            used = rng.choice(K, size=max(1, K - int(rng.integers(0, 2))), replace=False)
            labels = [int(x) for x in rng.choice(used, size=T)]
            if i % 4 == 0:
                labels = sorted(labels)
            thetas, covs = [], []
            for k in range(K):
                A = rng.normal(size=(n, n)); th = A @ A.T / n + np.eye(n) * 0.1
                th *= [1.0, 1e-4, 1e3][(i + k) % 3] if n >= 60 else 1.0
                # plant entries around the threshold
                t = 2e-5
                for (a, b), v in zip([(0, 0)] + [(0, n - 1)] * (n > 1), [t, np.nextafter(t, 1)]):
                    pass
                if n > 1:
                    th[0, n - 1] = th[n - 1, 0] = [t, np.nextafter(t, 1), np.nextafter(t, 0), -np.nextafter(t, 1), 0.0][(i + k) % 5]
                thetas.append(th)
                B = rng.normal(size=(n, n)); covs.append(B @ B.T / n)
            ua = arguments.UserArguments(sparsity_weight=[0.1, 0.0, 1.0][i % 3], iteration_limit=1 + i % 3, label_switching_cost=[1.0, 0.0, 50.0][i % 3],
                                         min_cluster_size=1 + i % 4, min_meaningful_covariance=[0, 1e-9, 1e-6, 1e-5, 1e-3][i % 5], num_clusters=K,
                                         num_processors=1, biased_covariance=bool(i % 2), window_size=1)
            ms = model_state.ModelState.empty_model(ua, None)
            ms.point_labels = list(labels)
            for k, c in enumerate(ms.clusters):
                c.train_inverse = thetas[k]; c.empirical_covariance = covs[k]
            case = {"K": K, "n": n, "labels": labels, "seed": ctx.seed, "index": i}
            ctx.count("unit")
            runs_n = 1 + sum(1 for a, b in zip(labels, labels[1:]) if a != b)
            if runs_n >= 2:
                ctx.mark_nontrivial((i, tuple(labels)))
            with ctx.guard("bayesian_information_criterion", case):
                got = float(cmx.bayesian_information_criterion(ms))
                ref, P = reference_bic(labels, thetas, covs)
                if not np.isfinite(got) or abs(got - ref) > 1e-9 * max(1.0, abs(ref)):
                    ctx.violation("monitor", "BIC %r differs from its definition %r" % (got, ref), {"case": case})
                params = [int(np.sum(np.abs(th) > 2e-5)) for th in thetas]
                for th, pc in zip(thetas, params):
                    nnz_l.append("(%s, %s, %s)" % (c_float(2e-5), c_list([c_float(v) for v in th.ravel()[:64]]), c_nat(int(np.sum(np.abs(th.ravel()[:64]) > 2e-5)))))
                lds = [np.linalg.slogdet(th)[1] for th in thetas]
                trs = [np.trace(np.dot(th, S)) for th, S in zip(thetas, covs)]
                bic_l.append(("(%s, %s, %s, %s, %s, %s, %s)" % (c_list(params, c_nat), c_list(labels, c_nat), c_float(np.log(T)), c_list([c_float(v) for v in lds]),
                                                               c_list([c_float(v) for v in trs]), c_nat(P), c_float(got)), case))
        runs = e2e.cached_runs(ctx, e2e.standard_grid(ctx.seed, ctx.thorough), "std")
        # covariance floors below, at and above the BIC threshold 2e-5
        runs = runs + e2e.cached_runs(ctx, [{"N": 2, "W": 2, "K": 2, "beta": 3.0, "lam": 0.11, "limit": 3, "m": 2, "biased": False, "eps": eps, "joint": False,
                                             "lengths": [60], "data_seed": 41 + j, "rng_seed": 41 + j, "regimes": 2} for j, eps in enumerate([1e-9, 1e-6, 2e-5, 1e-3])], "c16")
        for r in runs:
            ctx.count("run")
            if r["error"] is not None:
                continue
            fin = [e for e in r["events"] if e["event"] == "final"][0]["state"]
            thetas = [c["train_inverse"] for c in fin["clusters"]]
            covs = [np.atleast_2d(c["empirical_covariance"]) for c in fin["clusters"]]
            ref, P = reference_bic(fin["labels"], thetas, covs)
            got = r["result"]["bic"]
            if not np.isfinite(got) or abs(got - ref) > 1e-8 * max(1.0, abs(ref)):
                ctx.violation("monitor", "reported BIC %r differs from the definition %r on a traced run" % (got, ref), {"cfg": r["cfg"]})
    core.anchored_check(ctx, ANCHORS, cov)
    ctx.sample({"labels": bic_l[0][1]["labels"], "K": bic_l[0][1]["K"]})
    jobs = []
    for k in range(0, len(nnz_l), 150):
        jobs.append(("nnz_%d" % (k // 150), "From Coq Require Import List Arith PrimFloat.\nImport ListNotations.\nFrom Ticc Require Import Corr.RunAccounting.\nOpen Scope float_scope.\n"
                     "Definition cases : list (float * list float * nat) := [\n%s].\nDefinition answers := Eval vm_compute in (bad (map chk_nnz cases)).\nPrint answers.\n" % ";\n".join(nnz_l[k:k + 150])))
    for k in range(0, len(bic_l), 100):
        jobs.append(("bic_%d" % (k // 100), "From Coq Require Import List Arith PrimFloat.\nImport ListNotations.\nFrom Ticc Require Import Corr.RunAccounting.\nOpen Scope float_scope.\n"
                     "Definition cases : list (list nat * list nat * float * list float * list float * nat * float) := [\n%s].\nDefinition answers := Eval vm_compute in (bad (map chk_bic cases)).\nPrint answers.\n"
                     % ";\n".join(l for l, _ in bic_l[k:k + 100])))
    for (name, _), (ok, out) in zip(jobs, ctx.coq_eval_many(jobs)):
        m = re.search(r"answers\s*=\s*\[(.*?)\]\s*:\s*list", out, re.S)
        if not ok or not m:
            ctx.violation("tie", "model evaluation failed for %s" % name, {"correspondence": "tie:Accounting." + name, "log": out[-1500:]}, no_input=True)
        elif m.group(1).strip():
            i = int(re.sub(r"%\w+", "", m.group(1).split(";")[0]).strip())
            case = bic_l[int(name.split("_")[1]) * 100 + i][1] if name.startswith("bic") else {"nnz_case": i}
            ctx.tie_mismatch("Accounting." + name.split("_")[0], "binary64 model and bayesian_information_criterion disagree (%s)" % name.split("_")[0], {"case": case})
    return ctx.finish(RULE)


def replay(ctx, data):
    return run(ctx)
