"""C16 - Bayesian information criterion matches its definition."""
import re

import numpy as np

from .. import core, e2e
from ..core import c_nat, c_list, c_float

ANCHORS = {"cluster_metrics.py": ["bayesian_information_criterion"]}
RULE = ("(a) threshold count on MRF entries at 2e-5 +- 1 ulp and run counting / assembly bit for bit against the binary64 model with the "
        "log-dets, traces and log T as oracle inputs, on generated models incl. unused clusters and determinants outside the double "
        "range; (b) every completed traced run: BIC recomputed from labels, MRFs and fitted covariances in long double; "
        "non-trivial = at least two maximal runs")


def reference_bic(labels, thetas, covs):
    P = 0
    last = None
    for l in labels:
        if l != last:
            P += int(np.sum(np.abs(thetas[l]) > 2e-5))
            last = l
    tot = np.longdouble(0)
    for th, S in zip(thetas, covs):
        s, ld = np.linalg.slogdet(th)
        tot += np.longdouble(ld) - np.longdouble(np.trace(th @ S))
    return float(P * np.log(np.longdouble(len(labels))) - 2 * tot), P


def build_state(K, n, labels, thetas, covs, eps=0):
    from fast_ticc.containers import model_state, arguments
    ua = arguments.UserArguments(sparsity_weight=0.1, iteration_limit=1, label_switching_cost=1.0, min_cluster_size=1,
                                 min_meaningful_covariance=eps, num_clusters=K, num_processors=1, biased_covariance=False, window_size=1)
    ms = model_state.ModelState.empty_model(ua, None)
    ms.point_labels = list(labels)
    for k, c in enumerate(ms.clusters):
        c.train_inverse = thetas[k]
        c.empirical_covariance = covs[k]
    return ms


def bic_values(cases):
    """worker entry point (other execution modes / thread counts): BIC of hand-built states"""
    from fast_ticc import cluster_metrics as cmx
    return [float(cmx.bayesian_information_criterion(build_state(K, n, labels, thetas, covs))) for (K, n, labels, thetas, covs) in cases]


def long_run_cases(rng, count):
    """label sequences of thousands of points made of a few long runs (and one with a run per point)"""
    out = []
    for j in range(count):
        K = 2 + j % 3
        n = 2
        T = [1200, 4100, 9000][j % 3]
        cuts = sorted(int(x) for x in rng.choice(np.arange(1, T), size=2 + j % 4, replace=False))
        labels, cur = [], 0
        for a, b in zip([0] + cuts, cuts + [T]):
            labels += [cur % K] * (b - a)
            cur += 1 + j % 2
        if j % 5 == 4:
            labels = [i % K for i in range(T)]
        thetas, covs = [], []
        for k in range(K):
            A = rng.normal(size=(n, n)); thetas.append(A @ A.T / n + np.eye(n) * 0.2)
            B = rng.normal(size=(n, n)); covs.append(B @ B.T / n)
        out.append((K, n, labels, thetas, covs))
    return out


def run(ctx):
    from fast_ticc import cluster_metrics as cmx
    from fast_ticc.containers import model_state, arguments
    rng = np.random.default_rng(ctx.seed)
    ctx.proof_layer(allowed_axioms=core.R_AX, coq_deps=["Corr/RunAccounting"], gen=["cluster_metrics"])
    core.note_drift(ctx, ANCHORS)
    cov = core.LineCoverage()
    nnz_l, bic_l = [], []
    # long label sequences, also evaluated with the JIT-compiled code on several threads
    long_cases = long_run_cases(rng, ctx.budget(6, 20))
    jit_handle = core.start_worker(ctx, "vcheck.props.c16:bic_values", long_cases, mode="jit", extra_env={"NUMBA_NUM_THREADS": "4"}, tag="bicjit")
    with cov:
        for (K_, n_, labels_, thetas_, covs_) in long_cases:
            ctx.count("unit-long")
            ctx.mark_nontrivial(("long", len(labels_), K_))
            with ctx.guard("bayesian_information_criterion", {"K": K_, "points": len(labels_)}):
                got = float(cmx.bayesian_information_criterion(build_state(K_, n_, labels_, thetas_, covs_)))
                ref, P = reference_bic(labels_, thetas_, covs_)
                if not np.isfinite(got) or abs(got - ref) > 1e-9 * max(1.0, abs(ref)):
                    ctx.violation("monitor", "BIC %r of a sequence of %d labels in %d runs differs from its definition %r" % (
                        got, len(labels_), 1 + sum(a != b for a, b in zip(labels_, labels_[1:])), ref), {"case": {"K": K_, "points": len(labels_), "seed": ctx.seed}})
        jr = core.wait_worker(jit_handle, timeout=600)
        if not jr["ok"]:
            ctx.violation("tie", "JIT-mode BIC worker failed: %s" % jr["error"][:300], {"correspondence": "harness:C16/jit"}, no_input=True)
        else:
            for (K_, n_, labels_, thetas_, covs_), got in zip(long_cases, jr["result"]):
                ctx.count("unit-long-jit")
                ref, P = reference_bic(labels_, thetas_, covs_)
                if not np.isfinite(got) or abs(got - ref) > 1e-9 * max(1.0, abs(ref)):
                    ctx.violation("monitor", "with the JIT-compiled code on 4 threads the BIC %r of a sequence of %d labels differs from its definition %r" % (
                        got, len(labels_), ref), {"case": {"K": K_, "points": len(labels_), "seed": ctx.seed, "mode": "jit, NUMBA_NUM_THREADS=4"}})
        for i in range(ctx.budget(60, 300)):
            K = int(rng.integers(1, 5)); n = [1, 2, 3, 6, 60][i % 5] if i % 5 < 4 or i < 10 or ctx.thorough else 3
            T = int(rng.integers(1, 40))
            used = rng.choice(K, size=max(1, K - int(rng.integers(0, 2))), replace=False)
            labels = [int(x) for x in rng.choice(used, size=T)]
            if i % 4 == 0:
                labels = sorted(labels)
            thetas, covs = [], []
            for k in range(K):
                A = rng.normal(size=(n, n)); th = A @ A.T / n + np.eye(n) * 0.1
                th *= [1.0, 1e-4, 1e3][(i + k) % 3] if n >= 60 else 1.0
                # plant entries around the threshold
                t = 2e-5
                for (a, b), v in zip([(0, 0)] + [(0, n - 1)] * (n > 1), [t, np.nextafter(t, 1)]):
                    pass
                if n > 1:
                    th[0, n - 1] = th[n - 1, 0] = [t, np.nextafter(t, 1), np.nextafter(t, 0), -np.nextafter(t, 1), 0.0][(i + k) % 5]
                thetas.append(th)
                B = rng.normal(size=(n, n)); covs.append(B @ B.T / n)
            ua = arguments.UserArguments(sparsity_weight=[0.1, 0.0, 1.0][i % 3], iteration_limit=1 + i % 3, label_switching_cost=[1.0, 0.0, 50.0][i % 3],
                                         min_cluster_size=1 + i % 4, min_meaningful_covariance=[0, 1e-9, 1e-6, 1e-5, 1e-3][i % 5], num_clusters=K,
                                         num_processors=1, biased_covariance=bool(i % 2), window_size=1)
            ms = model_state.ModelState.empty_model(ua, None)
            ms.point_labels = list(labels)
            for k, c in enumerate(ms.clusters):
                c.train_inverse = thetas[k]; c.empirical_covariance = covs[k]
            case = {"K": K, "n": n, "labels": labels, "seed": ctx.seed, "index": i}
            ctx.count("unit")
            runs_n = 1 + sum(1 for a, b in zip(labels, labels[1:]) if a != b)
            if runs_n >= 2:
                ctx.mark_nontrivial((i, tuple(labels)))
            with ctx.guard("bayesian_information_criterion", case):
                got = float(cmx.bayesian_information_criterion(ms))
                ref, P = reference_bic(labels, thetas, covs)
                if not np.isfinite(got) or abs(got - ref) > 1e-9 * max(1.0, abs(ref)):
                    ctx.violation("monitor", "BIC %r differs from its definition %r" % (got, ref), {"case": case})
                params = [int(np.sum(np.abs(th) > 2e-5)) for th in thetas]
                for th, pc in zip(thetas, params):
                    nnz_l.append("(%s, %s, %s)" % (c_float(2e-5), c_list([c_float(v) for v in th.ravel()[:64]]), c_nat(int(np.sum(np.abs(th.ravel()[:64]) > 2e-5)))))
                lds = [np.linalg.slogdet(th)[1] for th in thetas]
                trs = [np.trace(np.dot(th, S)) for th, S in zip(thetas, covs)]
                bic_l.append(("(%s, %s, %s, %s, %s, %s, %s)" % (c_list(params, c_nat), c_list(labels, c_nat), c_float(np.log(T)), c_list([c_float(v) for v in lds]),
                                                               c_list([c_float(v) for v in trs]), c_nat(P), c_float(got)), case))
        runs = e2e.cached_runs(ctx, e2e.standard_grid(ctx.seed, ctx.thorough), "std")
        # covariance floors below, at and above the BIC threshold 2e-5
        runs = runs + e2e.cached_runs(ctx, [{"N": 2, "W": 2, "K": 2, "beta": 3.0, "lam": 0.11, "limit": 3, "m": 2, "biased": False, "eps": eps, "joint": False,
                                             "lengths": [60], "data_seed": 41 + j, "rng_seed": 41 + j, "regimes": 2} for j, eps in enumerate([1e-9, 1e-6, 2e-5, 1e-3])], "c16")
        # real worker processes (3 of them, more clusters than workers): whatever is computed in the workers comes back in an
        # order the parent does not control
        runs = runs + e2e.cached_runs(ctx, [{"N": 2, "W": 1 + j % 2, "K": 4 + j % 2, "beta": [3.0, 8.0][j % 2], "lam": 0.11, "limit": 3, "m": 2, "biased": False,
                                             "eps": 0, "joint": False, "lengths": [120], "data_seed": 1600 + j, "rng_seed": 1600 + j, "regimes": 4,
                                             "mp": True, "procs": 3} for j in range(ctx.budget(4, 10))], "c16mp")
        for r in runs:
            ctx.count("run")
            if r["error"] is not None:
                continue
            fin = [e for e in r["events"] if e["event"] == "final"][0]["state"]
            thetas = [c["train_inverse"] for c in fin["clusters"]]
            covs = [np.atleast_2d(c["empirical_covariance"]) for c in fin["clusters"]]
            ref, P = reference_bic(fin["labels"], thetas, covs)
            got = r["result"]["bic"]
            if not np.isfinite(got) or abs(got - ref) > 1e-8 * max(1.0, abs(ref)):
                ctx.violation("monitor", "reported BIC %r differs from the definition %r on a traced run" % (got, ref), {"cfg": r["cfg"]})
    core.anchored_check(ctx, ANCHORS, cov)
    ctx.sample({"labels": bic_l[0][1]["labels"], "K": bic_l[0][1]["K"]})
    jobs = []
    for k in range(0, len(nnz_l), 150):
        jobs.append(("nnz_%d" % (k // 150), "From Coq Require Import List Arith PrimFloat.\nImport ListNotations.\nFrom Ticc Require Import Corr.RunAccounting.\nOpen Scope float_scope.\n"
                     "Definition cases : list (float * list float * nat) := [\n%s].\nDefinition answers := Eval vm_compute in (bad (map chk_nnz cases)).\nPrint answers.\n" % ";\n".join(nnz_l[k:k + 150])))
    for k in range(0, len(bic_l), 100):
        jobs.append(("bic_%d" % (k // 100), "From Coq Require Import List Arith PrimFloat.\nImport ListNotations.\nFrom Ticc Require Import Corr.RunAccounting.\nOpen Scope float_scope.\n"
                     "Definition cases : list (list nat * list nat * float * list float * list float * nat * float) := [\n%s].\nDefinition answers := Eval vm_compute in (bad (map chk_bic cases)).\nPrint answers.\n"
                     % ";\n".join(l for l, _ in bic_l[k:k + 100])))
    for (name, _), (ok, out) in zip(jobs, ctx.coq_eval_many(jobs)):
        m = re.search(r"answers\s*=\s*\[(.*?)\]\s*:\s*list", out, re.S)
        if not ok or not m:
            ctx.violation("tie", "model evaluation failed for %s" % name, {"correspondence": "tie:Accounting." + name, "log": out[-1500:]}, no_input=True)
        elif m.group(1).strip():
            i = int(re.sub(r"%\w+", "", m.group(1).split(";")[0]).strip())
            case = bic_l[int(name.split("_")[1]) * 100 + i][1] if name.startswith("bic") else {"nnz_case": i}
            ctx.tie_mismatch("Accounting." + name.split("_")[0], "binary64 model and bayesian_information_criterion disagree (%s)" % name.split("_")[0], {"case": case})
    return ctx.finish(RULE)


def replay(ctx, data):
    return run(ctx)
