"""C17 - Calinski-Harabasz index matches its definition (open known finding: scalar centre)."""
import re
from fractions import Fraction

import numpy as np

from .. import core, e2e
from ..core import c_nat, c_list, c_Z

ANCHORS = {"cluster_metrics.py": ["calinski_harabasz_index"]}
RULE = ("(a) calinski_harabasz_index against the faithful exact-rational model ch_impl (evaluated in Coq over Q) on integer data with "
        "member means, K in 2..4, and the definition ch_def alongside; (b) converged traced runs with K >= 2, every cluster non-empty "
        "and no repopulation in the last round: on column-centred data the reported value must equal the definition; on general data "
        "the deviation must be exactly the gap of theorem C17_gap (known finding), anything else is a violation; (c) invariance of "
        "the definition under per-sensor translation vs the implementation; non-trivial = columns with different means")
KNOWN_KEY = "scalar-centre"


def ch_def_np(data, labels, K, means=None):
    T = len(data)
    g = data.mean(axis=0)
    B = Wd = 0.0
    for k in range(K):
        idx = [i for i, l in enumerate(labels) if l == k]
        mu = data[idx].mean(axis=0) if means is None else means[k]
        B += len(idx) * float(np.sum((mu - g) ** 2))
        Wd += float(np.sum((data[idx] - mu) ** 2))
    return (B / (K - 1)) / (Wd / (T - K))


def ch_impl_np(data, labels, K, means=None):
    T = len(data)
    g = data.mean()
    B = Wd = 0.0
    for k in range(K):
        idx = [i for i, l in enumerate(labels) if l == k]
        mu = data[idx].mean(axis=0) if means is None else means[k]
        B += len(idx) * float(np.sum((mu - g) ** 2))
        Wd += float(np.sum((data[idx] - mu) ** 2))
    return (B / Wd) * ((T - K) / (K - 1))


def impl_value(data, labels, K, biased=False, earlier=None):
    """the index of a state carrying `labels`; with `earlier`, the state carried that labelling first (a state in mid-run)"""
    from fast_ticc import cluster_metrics as cmx
    from fast_ticc.containers import model_state, arguments
    from fast_ticc import cluster_maintenance as cm
    ua = arguments.UserArguments(sparsity_weight=0.1, iteration_limit=1, label_switching_cost=1.0, min_cluster_size=1,
                                 min_meaningful_covariance=0, num_clusters=K, num_processors=1, biased_covariance=biased, window_size=1)
    ms = model_state.ModelState.empty_model(ua, data)
    if earlier is not None:
        ms.point_labels = list(earlier)
        ms = cm.update_all_cluster_statistics(ms, data)
    ms.point_labels = list(labels)
    ms = cm.update_all_cluster_statistics(ms, data)       # the state as the main loop would have it: member means and covariances
    return float(cmx.calinski_harabasz_index(data, ms))


def run(ctx):
    rng = np.random.default_rng(ctx.seed)
    ctx.proof_layer(allowed_axioms=core.R_AX, coq_deps=["Corr/RunAccounting", "Proofs/GenEquivCH"], gen=["cluster_metrics", "model_state"])
    core.note_drift(ctx, ANCHORS)
    cov = core.LineCoverage()
    lits, meta = [], []
    with cov:
        for i in range(ctx.budget(40, 200)):
            K = int(rng.integers(2, 5)); d = int(rng.integers(1, 4)); T = int(rng.integers(2 * K + 1, 14))
            labels = [k for k in range(K)] * 2 + [int(x) for x in rng.integers(0, K, size=T - 2 * K)]
            rng.shuffle(labels)
            labels = [int(x) for x in labels]
            data = rng.integers(-6, 7, size=(T, d)).astype(float)
            if i % 4 == 0:
                data += np.arange(d) * 10.0          # very different column means
            case = {"K": K, "labels": labels, "data": data.astype(int).tolist()}
            ctx.count("unit")
            if d >= 2:
                ctx.mark_nontrivial(repr(case))
            with ctx.guard("calinski_harabasz_index", case):
                got = impl_value(data, labels, K, biased=bool(i % 2))
                if i % 2 == 0:
                    # the same values held in another array dtype (counts, narrow floats) describe the same data
                    for dt in (np.int64, np.int32, np.float32):
                        got_dt = impl_value(data.astype(dt), labels, K, biased=bool(i % 2))
                        ctx.count("unit-dtype")
                        # (a float32 array is computed on in float32: agreement to single precision is all that can be asked)
                        if abs(got_dt - got) > (1e-4 if dt is np.float32 else 1e-9) * max(1.0, abs(got)):
                            ctx.violation("monitor", "the index of the same values stored as %s is %r, stored as float64 it is %r" % (np.dtype(dt).name, got_dt, got),
                                          {"case": dict(case, dtype=np.dtype(dt).name)})
                            break
                # the same labelling reached from an earlier one (as in the middle of a run): interior points exchanged between clusters,
                # every cluster keeping its size, its first and its last point - the index must not remember the earlier labelling
                earlier = list(labels)
                inner = [p for p in range(1, T - 1)]
                for a_ in inner:
                    for b_ in inner:
                        if a_ < b_ and earlier[a_] != earlier[b_]:
                            cand = list(earlier)
                            cand[a_], cand[b_] = cand[b_], cand[a_]
                            keep = all(min(q for q in range(T) if cand[q] == k) == min(q for q in range(T) if labels[q] == k)
                                       and max(q for q in range(T) if cand[q] == k) == max(q for q in range(T) if labels[q] == k) for k in range(K))
                            if keep:
                                earlier = cand
                                break
                    if earlier != list(labels):
                        break
                if earlier != list(labels):
                    got_h = impl_value(data, labels, K, biased=bool(i % 2), earlier=earlier)
                    ctx.count("unit-history")
                    if abs(got_h - got) > 1e-9 * max(1.0, abs(got)):
                        ctx.violation("monitor", "the index of a state that carried another labelling before (two interior points exchanged, sizes and end points of "
                                      "every cluster the same) is %r, of a fresh state with the same labelling %r" % (got_h, got), {"case": dict(case, earlier_labels=earlier)})
                lits.append("(%s, %s, %s)" % (c_nat(K), c_list([c_list(r, c_Z) for r in data.astype(int).tolist()]), c_list(labels, c_nat)))
                meta.append((case, got))
        # (a') thousands of windows (more than the usual block sizes of vectorised code), unequal cluster sizes:
        # the value must be the faithful formula (and, the columns sharing one mean, the definition)
        for j, Tn in enumerate([4097, 5000, 9001] + ([66000] if ctx.thorough else [])):
            K = 2 + j % 2
            d = 2
            labels = [int(x) for x in (np.arange(Tn) * K // Tn)]
            lab_arr = np.array(labels)
            data = rng.normal(size=(Tn, d)) + lab_arr[:, None] * 3.0
            data = data - data.mean(axis=0)
            data = data - data.mean(axis=0)
            got = impl_value(data, labels, K, biased=bool(j % 2))
            ref_f = ch_impl_np(data, labels, K)
            ref_d = ch_def_np(data, labels, K)
            ctx.count("unit-large")
            ctx.mark_nontrivial(("large", Tn))
            if abs(got - ref_f) > 1e-9 * max(1.0, abs(ref_f)) or abs(got - ref_d) > 1e-6 * max(1.0, abs(ref_d)):
                ctx.violation("monitor", "with %d windows (column-centred data, %d clusters) the index %r differs from the definition %r" % (Tn, K, got, ref_d),
                              {"case": {"T": Tn, "K": K, "data": "normal + 3*label, column-centred, seed %d" % ctx.seed}})
        # (b) traced runs
        from fast_ticc import data_preparation as dp
        runs = e2e.cached_runs(ctx, e2e.standard_grid(ctx.seed, ctx.thorough), "std")
        cen = []
        for j in range(ctx.budget(3, 10)):
            cen.append({"N": 2, "W": 1, "K": 2 + j % 2, "beta": 2.0, "lam": 0.11, "limit": 30, "m": 2, "biased": False, "eps": 0, "joint": False,
                        "lengths": [60], "data_seed": 300 + j, "rng_seed": 300 + j, "regimes": 2 + j % 2})
        cen += [{"N": 2, "W": 1 + j, "K": 2, "beta": 2.0, "lam": 0.11, "limit": 30, "m": 2, "biased": False, "eps": 0, "joint": False,
                 "lengths": [70], "data_seed": 330 + j, "rng_seed": 330 + j, "regimes": 2, "data_dtype": dt} for j, dt in enumerate(["int64", "float32"])]
        # as many regimes as clusters and a large refill size: a cluster is starved by a relabelling in mid-run, refilled, and the
        # run still converges with every cluster populated (seeds chosen so that this happens on the validated tree)
        cen += [{"N": 3, "W": 1, "K": 5, "beta": 10.0, "lam": 0.11, "limit": 30, "m": 10, "biased": False, "eps": 0, "joint": False,
                 "lengths": [300], "data_seed": 1700 + j, "rng_seed": 1700 + j, "regimes": 5} for j in ((11, 59) if not ctx.thorough else (11, 59, 23, 131))]
        cen += [{"N": 2, "W": 1, "K": 2, "beta": 0.0, "lam": 0.11, "limit": 30, "m": 2, "biased": False, "eps": 0, "joint": False,
                 "lengths": [90], "data_seed": 1750 + j, "rng_seed": 1750 + j, "regimes": 2, "scale": 2.5} for j in range(ctx.budget(8, 24))]
        # runs in which the relabelling phase answers with a scripted sequence of labellings (e2e.traced_run, "relabel_script"):
        # one that settles (A, B, B: a genuine fixed point) and two that cycle with period 2 / 3 and therefore never converge
        cen += [{"N": 2, "W": 1, "K": 2, "beta": 2.0, "lam": 0.11, "limit": [8, 8, 9][j], "m": 2, "biased": False, "eps": 0, "joint": False,
                 "lengths": [64], "data_seed": 1790 + j, "rng_seed": 1790 + j, "regimes": 2, "relabel_script": sc}
                for j, sc in enumerate(["settle", "cycle2", "cycle3"])]
        runs = runs + e2e.cached_runs(ctx, cen, "c17")
        for r in runs:
            ctx.count("run")
            cfg = r["cfg"]
            if r["error"] is not None or cfg["K"] < 2:
                continue
            fin = [e for e in r["events"] if e["event"] == "final"][0]["state"]
            sizes = [len(c["members"]) for c in fin["clusters"]]
            stop = [e for e in r["events"] if e["event"] == "stop"]
            if not stop or min(sizes) == 0:
                continue
            stacked = np.vstack([dp.stack_training_data(np.asarray(s, dtype=np.float64), cfg["W"]) for s in r["series"]])
            # the index is computed from the model's member lists and sizes: they must be those of the returned labelling
            stale_k = [k for k, c in enumerate(fin["clusters"]) if [int(x) for x in c["members"]] != [i for i, l in enumerate(fin["labels"]) if l == k]]
            if stale_k:
                ctx.violation("monitor", "converged run: the member list of cluster %s in the final model is not the set of points labelled with it, so the reported index %r "
                              "describes another clustering than the one returned (definition on the returned labels: %r)" % (
                                  stale_k, r["result"]["chi"], ch_def_np(stacked, fin["labels"], cfg["K"])), {"case": {"cfg": cfg}})
                continue
            means = [c["stacked_data_mean"] for c in fin["clusters"]]
            member_means = [stacked[c["members"]].mean(axis=0) for c in fin["clusters"]]
            if not all(np.allclose(a, b, rtol=1e-9, atol=1e-9) for a, b in zip(means, member_means)):
                # stored means that are not the member means are legitimate only when the LAST round began with a repopulation
                # that moved points (the statistics were then fitted to the repopulated labelling and the relabelling went back):
                # such a run is outside the clause.  In every other converged run the statistics of the last round were fitted to
                # the returned labelling, so a stored mean that is not its cluster's mean makes the reported index wrong.
                ph = [e for e in r["events"] if e["event"] == "phase"]
                last_round = max(e["round"] for e in ph)
                rep = [i for i, e in enumerate(ph) if e["round"] == last_round and e["phase"] == "repopulate"]
                moved = bool(rep) and rep[0] > 0 and ph[rep[0]]["state"]["labels"] != ph[rep[0] - 1]["state"]["labels"]
                if not moved:
                    bad_k = [k for k, (a, b) in enumerate(zip(means, member_means)) if not np.allclose(a, b, rtol=1e-9, atol=1e-9)]
                    d_true = ch_def_np(stacked, fin["labels"], cfg["K"])
                    ctx.violation("monitor", "converged run (no points moved by repopulation in its last round): the stored mean of cluster %s is not the mean of its "
                                  "windows, so the reported index %r is not the index of the returned clustering (definition: %r)" % (bad_k, r["result"]["chi"], d_true),
                                  {"case": {"cfg": cfg}})
                continue
            labels = fin["labels"]
            K = cfg["K"]
            got = r["result"]["chi"]
            d_ = ch_def_np(stacked, labels, K, means)
            f_ = ch_impl_np(stacked, labels, K, means)
            case = {"cfg": cfg}
            if abs(got - d_) <= 1e-9 * max(1.0, abs(d_)):
                continue
            if abs(got - f_) <= 1e-9 * max(1.0, abs(f_)):
                ctx.finding(KNOWN_KEY, "reported index %.6f equals the scalar-centre formula, the definition gives %.6f" % (got, d_), {"case": case})
                ctx.notes["known_runs"] = ctx.notes.get("known_runs", 0) + 1
                ctx.mark_nontrivial(repr(cfg))
            else:
                ctx.violation("monitor", "reported index %r is neither the definition %r nor the known scalar-centre value %r" % (got, d_, f_), {"case": case})
        # (c) translation: the definition is invariant, the implementation (known finding) is not; on CENTRED data they agree
        for j in range(ctx.budget(12, 40)):
            K = 2 + j % 2; T = 12; d = 2
            labels = [int(x) for x in ([k for k in range(K)] * 2 + list(rng.integers(0, K, size=T - 2 * K)))]
            data = rng.normal(size=(T, d))
            base = [3.0, 1e3, 1e5, 1e7][j % 4]
            data = data - data.mean(axis=0)
            data = data - data.mean(axis=0) + base          # every column has the same mean (up to rounding): scalar centre = centroid
            got = impl_value(data, labels, K, biased=bool(j % 2))
            ref = ch_def_np(data, labels, K)
            ctx.count("centred")
            if abs(got - ref) > 1e-6 * max(1.0, abs(ref)):
                ctx.violation("monitor", "on data whose columns share one mean (baseline %g) the index %r differs from the definition %r" % (base, got, ref),
                              {"labels": labels, "data_hex": [[float(v).hex() for v in row] for row in data]})
    core.anchored_check(ctx, ANCHORS, cov)
    ctx.sample({"K": meta[0][0]["K"], "labels": meta[0][0]["labels"], "data": meta[0][0]["data"][:4]})
    jobs = []
    for k in range(0, len(lits), 25):
        jobs.append(("ch_%d" % (k // 25), "From Coq Require Import List Arith ZArith.\nImport ListNotations.\nFrom Ticc Require Import Corr.RunAccounting.\n"
                     "Definition cases : list (nat * list (list Z) * list nat) := [\n%s].\nDefinition answers := Eval vm_compute in (map run_ch cases).\nPrint answers.\n" % ";\n".join(lits[k:k + 25])))
    vals = []
    for (name, _), (ok, out) in zip(jobs, ctx.coq_eval_many(jobs)):
        m = re.search(r"answers\s*=\s*\[(.*)\]\s*:\s*list", out, re.S)
        if not ok or not m:
            ctx.violation("tie", "model evaluation failed for %s" % name, {"correspondence": "tie:Accounting.ch", "log": out[-1500:]}, no_input=True)
            return ctx.finish(RULE)
        nums = [int(x) for x in re.findall(r"-?\d+", re.sub(r"%\w+", "", m.group(1)))]
        vals += [tuple(nums[i:i + 4]) for i in range(0, len(nums), 4)]
    differs = 0
    for (case, got), (a, b, c, d) in zip(meta, vals):
        impl_q = Fraction(a, b)
        def_q = Fraction(c, d)
        if abs(got - float(impl_q)) > 1e-10 * max(1.0, abs(float(impl_q))):
            ctx.tie_mismatch("Accounting.ch_impl", "calinski_harabasz_index differs from the faithful rational model (got %r, model %r)" % (got, float(impl_q)), {"case": case})
            break
        differs += impl_q != def_q
    ctx.notes["unit_cases_where_impl_differs_from_definition"] = differs
    if differs:
        ctx.finding(KNOWN_KEY, "on %d of %d generated integer data sets the implemented value (= faithful model ch_impl) differs from the definition ch_def" % (differs, len(meta)), {"case": meta[0][0]})
    return ctx.finish(RULE)


def replay(ctx, data):
    return run(ctx)
