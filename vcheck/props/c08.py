"""C08 - cluster repopulation conserves points and never starves a donor."""
import itertools
import random
import re

import numpy as np

from .. import core
from ..core import c_nat, c_list

ANCHORS = {"cluster_maintenance.py": ["repopulate_empty_clusters", "_find_point_donor",
                                      "_find_ranked_donor_cluster_ids", "_move_random_points"]}
RULE = ("all cluster-size vectors with K <= 5, sizes 0..3m+2 for m = 1 (quick) and m in {1,2,3} (thorough; K <= 4 for m >= 2), "
        "labels shuffled, three spread orders incl. ties, plus random K <= 12 (set-iteration order no longer ascending), "
        "larger sizes and repeated application; draws recorded from random.sample, recipient order read from the interpreter's "
        "set; non-trivial = at least one cluster is under-populated; distinct by (K, m, labels, spreads)")


def make_state(K, m, labels, spreads):
    from fast_ticc.containers import arguments, model_state
    ua = arguments.UserArguments(sparsity_weight=0.1, iteration_limit=1, label_switching_cost=0, min_cluster_size=m,
                                 min_meaningful_covariance=0, num_clusters=K, num_processors=1, biased_covariance=False,
                                 window_size=1)
    ms = model_state.ModelState.empty_model(ua, None)
    ms.point_labels = list(labels)
    for k, c in enumerate(ms.clusters):
        c.computed_covariance = np.array([[float(spreads[k])]])
    return ms


def snapshot(ms):
    return (list(ms.point_labels), [list(c.member_points) for c in ms.clusters], [id(c) for c in ms.clusters],
            [id(c.member_points) for c in ms.clusters], [c.computed_covariance.tobytes() for c in ms.clusters])


def second_round_state(K, m, labels1, spreads1, labels2, spreads2, seed):
    """a model state as the main loop would hold it in a later round: repopulated once, MRFs / covariances replaced by the
    optimise step (fresh spread ranking), relabelled"""
    from fast_ticc import cluster_maintenance as cm, graphical_lasso as gl
    ms = make_state(K, m, labels1, spreads1)
    random.seed(seed)
    try:
        ms = cm.repopulate_empty_clusters(ms)
    except RuntimeError:
        pass
    nxt = ms.shallow_copy()
    nxt.clusters = [gl._update_cluster_covariances(ms, c, np.array([1.0 / (1.0 + spreads2[k])])) for k, c in enumerate(ms.clusters)]
    nxt.point_labels = list(labels2)
    return nxt


def run_impl(K, m, labels, spreads, seed, ms=None):
    """returns dict(out=labels|None, error=str|None, draws, order, frame_ok)"""
    from fast_ticc import cluster_maintenance as cm
    if ms is None:
        ms = make_state(K, m, labels, spreads)
    before = snapshot(ms)
    draws = []
    moves = []
    orig_sample = random.sample
    orig_move = cm._move_random_points

    class R:  # stands in for the `random` module inside cluster_maintenance
        @staticmethod
        def sample(pop, k):
            r = orig_sample(pop, k)
            draws.append([int(x) for x in r])
            return r

    def move(model, d, e):
        moves.append((int(d), int(e)))
        return orig_move(model, d, e)
    sizes = [labels.count(k) for k in range(K)]
    s = set()
    for k in range(K):
        if sizes[k] < 2:
            s.add(k)
    order = list(s)
    random.seed(seed)
    cm.random = R
    cm._move_random_points = move
    err = None
    out = None
    same_object = False
    try:
        res = cm.repopulate_empty_clusters(ms)
        out = [int(x) for x in res.point_labels]
        same_object = res is ms
        new_members = [list(c.member_points) for c in res.clusters]
    except RuntimeError as e:
        err = str(e)
        new_members = None
    finally:
        cm.random = random
        cm._move_random_points = orig_move
    after = snapshot(ms)
    return {"out": out, "error": err, "draws": draws, "order": order, "moves": moves, "frame_ok": before == after,
            "same_object": same_object, "new_members": new_members}


def monitor(ctx, K, m, labels, spreads, r):
    """the bullets of the property on (before, after); independent of the model"""
    case = {"K": K, "m": m, "labels": labels, "spreads": spreads, "draws": r["draws"], "order": r["order"]}
    sizes = [labels.count(k) for k in range(K)]
    under = [k for k in range(K) if sizes[k] < 2]
    ok = True

    def bad(msg):
        nonlocal ok
        ok = False
        ctx.violation("monitor", msg, {"case": case, "out": r["out"], "error": r["error"]})
    if not r["frame_ok"]:
        bad("the caller's model state was modified")
    if r["error"] is not None:
        cap = sum(sizes[k] // m - 1 for k in range(K) if sizes[k] >= 2 * m)
        if not under:
            bad("error although no cluster is under-populated")
        elif cap >= len(under):
            bad("error although the donors can serve every under-populated cluster (capacity %d >= %d)" % (cap, len(under)))
        if "donor" not in r["error"]:
            bad("error message does not name the donor shortage: %r" % r["error"])
        return ok
    out = r["out"]
    if len(out) != len(labels) or any(not (0 <= x < K) for x in out):
        bad("output is not one label in [0,K) per point")
        return ok
    if not under:
        if out != labels or not r["same_object"]:
            bad("labelling changed although no cluster was under-populated")
        return ok
    nsz = [out.count(k) for k in range(K)]
    if r["new_members"] != [[i for i, x in enumerate(out) if x == k] for k in range(K)]:
        bad("member lists of the returned state do not match its labels")
    for p, (a, b) in enumerate(zip(labels, out)):
        if a != b and not (sizes[a] >= 2 * m and sizes[b] < 2):
            bad("point %d moved from cluster %d (size %d) to %d (size %d)" % (p, a, sizes[a], b, sizes[b]))
    for k in range(K):
        if k in under:
            if nsz[k] != sizes[k] + m:
                bad("under-populated cluster %d has %d points after refill (expected %d)" % (k, nsz[k], sizes[k] + m))
            if nsz[k] < m:
                bad("refilled cluster below m")
        else:
            lost = sizes[k] - nsz[k]
            if lost < 0 or lost % m != 0:
                bad("cluster %d changed size by %d" % (k, -lost))
            if lost > 0 and (sizes[k] < 2 * m or nsz[k] < m):
                bad("donor %d had %d keeps %d" % (k, sizes[k], nsz[k]))
    # donor order: replay sizes along the recorded moves
    cur = list(sizes)
    for (d, e) in r["moves"]:
        if cur[d] < 2 * m:
            bad("donor %d had only %d points at the time of the refill" % (d, cur[d]))
        for k in range(K):
            if sizes[k] >= 2 * m and cur[k] >= 2 * m and spreads[k] > spreads[d]:
                bad("refill took from cluster %d although cluster %d has a larger spread and still >= 2m points" % (d, k))
        cur[d] -= m
        cur[e] += m
    if len(r["moves"]) != len(under) or sorted(e for _, e in r["moves"]) != sorted(under):
        bad("recipients %s are not exactly the under-populated clusters %s" % ([e for _, e in r["moves"]], under))
    return ok


def gen(ctx, rng):
    cases = []
    pyr = random.Random(ctx.seed)
    ms = [1] if not ctx.thorough else [1, 2, 3]
    for m in ms:
        kmax = 5 if m == 1 else 4
        top = 3 * m + 2
        for K in range(1, kmax + 1):
            for idx, sizes in enumerate(itertools.product(range(top + 1), repeat=K)):
                if sum(sizes) == 0:
                    continue
                if not ctx.thorough and K == 5 and (idx % 2 == 1) and min(sizes) >= 2:
                    continue  # quick: thin out the no-op cases
                labels = []
                for k, s in enumerate(sizes):
                    labels += [k] * s
                pyr.shuffle(labels)
                pat = idx % 3
                spreads = [pyr.randint(0, 3) for _ in range(K)] if pat == 0 else (list(range(K)) if pat == 1 else list(range(K, 0, -1)))
                cases.append((K, m, labels, spreads, "exhaustive"))
    for _ in range(ctx.budget(300, 2500)):
        # repeated application inside one run: the state of a later round (after a repopulation and an optimise step
        # that changed the spread ranking)
        K = pyr.randint(2, 6)
        m = pyr.randint(1, 3)
        def lab():
            sizes = [pyr.choice([0, 1, 2 * m, 2 * m + 1, 3 * m, 3 * m + 1, 4 * m, 6 * m]) for _ in range(K)]
            if sum(sizes) == 0:
                sizes[0] = 2 * m
            l = []
            for k, sz in enumerate(sizes):
                l += [k] * sz
            pyr.shuffle(l)
            return l
        l1 = lab()
        l2 = lab()
        n = max(len(l1), len(l2))
        l1 = (l1 + [l1[0]] * n)[:n]
        l2 = (l2 + [l2[0]] * n)[:n]
        cases.append((K, m, l2, [pyr.randint(0, 4) for _ in range(K)], ("two-round", l1, [pyr.randint(0, 4) for _ in range(K)])))
    for _ in range(ctx.budget(400, 4000)):
        K = pyr.randint(6, 12)
        m = pyr.randint(1, 4)
        sizes = [pyr.choice([0, 0, 1, 1, 2, m, 2 * m - 1, 2 * m, 2 * m + 1, 3 * m - 1, 3 * m, 3 * m + 2, 5 * m, 9 * m + 1]) for _ in range(K)]
        if sum(sizes) == 0:
            sizes[0] = 1
        labels = []
        for k, s in enumerate(sizes):
            labels += [k] * s
        pyr.shuffle(labels)
        spreads = [pyr.randint(0, 4) for _ in range(K)]
        cases.append((K, m, labels, spreads, "random"))
    # long series: thousands of points (sizes on both sides of powers of two), the under-populated clusters anywhere
    # among the ids; checked by the property monitor only (the model is evaluated on the short cases)
    for j in range(ctx.budget(36, 200)):
        K = pyr.randint(3, 7)
        total = pyr.choice([1023, 1024, 1025, 2047, 2048, 2049, 3000, 4095, 4096, 4097, 6000, 8193])
        m = pyr.choice([1, 2, 10, 50, 200])
        empties = set(pyr.sample(range(K), pyr.randint(1, max(1, K - 2))))
        big = [k for k in range(K) if k not in empties]
        sizes = [pyr.choice([0, 0, 1]) if k in empties else 0 for k in range(K)]
        rest = total - sum(sizes)
        cuts = sorted(pyr.sample(range(1, rest), len(big) - 1)) if len(big) > 1 else []
        for k, (a, b) in zip(big, zip([0] + cuts, cuts + [rest])):
            sizes[k] = b - a
        labels = []
        for k, sz in enumerate(sizes):
            labels += [k] * sz
        if j % 2:
            pyr.shuffle(labels)
        spreads = [pyr.randint(0, 4) for _ in range(K)]
        cases.append((K, m, labels, spreads, "long"))
    return cases


def to_coq(K, m, spreads, order, draws, labels):
    return "(%s, %s, %s, %s, %s, %s)" % (c_nat(K), c_nat(m), c_list(spreads, c_nat), c_list(order, c_nat),
                                          c_list([c_list(d, c_nat) for d in draws]), c_list(labels, c_nat))


def run(ctx):
    rng = np.random.default_rng(ctx.seed)
    ctx.proof_layer(allowed_axioms=(), coq_deps=["Corr/RunRepop"], gen=["cluster_maintenance", "cm_repopulate", "cm_ranked"])
    core.note_drift(ctx, ANCHORS)
    cases = gen(ctx, rng)
    if not ctx.thorough:
        ctx.notes["exhaustive_subdomain"] = "K<=4 all size vectors 0..5, K=5 all vectors with an under-populated cluster and half of the others (m=1)"
    else:
        ctx.notes["exhaustive"] = True
    coq_cases, expected, keep = [], [], []
    hist = {"K": {}, "m": {}, "error": 0, "noop": 0, "refills": {}}
    cov = core.LineCoverage()
    with cov:
        for i, (K, m, labels, spreads, stream) in enumerate(cases):
            case = {"K": K, "m": m, "labels": labels, "spreads": spreads}
            r = None
            with ctx.guard("repopulate_empty_clusters", case):
                if isinstance(stream, tuple):
                    ms2 = second_round_state(K, m, stream[1], stream[2], labels, spreads, seed=i)
                    r = run_impl(K, m, labels, spreads, seed=ctx.seed * 1000003 + i, ms=ms2)
                    stream = "two-round"
                else:
                    r = run_impl(K, m, labels, spreads, seed=ctx.seed * 1000003 + i)
            ctx.count(stream)
            if r is None:
                continue
            monitor(ctx, K, m, labels, spreads, r)
            # repeated application on the output (consecutive iterations)
            if r["out"] is not None and i % 5 == 0:
                with ctx.guard("repopulate_empty_clusters (second application)", case):
                    r2 = run_impl(K, m, r["out"], spreads, seed=i)
                    monitor(ctx, K, m, r["out"], spreads, r2)
            hist["K"][K] = hist["K"].get(K, 0) + 1
            hist["m"][m] = hist["m"].get(m, 0) + 1
            hist["error"] += r["error"] is not None
            hist["noop"] += not r["order"]
            hist["refills"][len(r["moves"])] = hist["refills"].get(len(r["moves"]), 0) + 1
            if r["order"]:
                ctx.mark_nontrivial((K, m, tuple(labels), tuple(spreads)))
            if i in (0, 50, 500):
                ctx.sample({"K": K, "m": m, "labels": labels, "spreads": spreads, "order": r["order"], "draws": r["draws"], "out": r["out"], "error": r["error"]})
            if stream == "long":
                continue
            coq_cases.append(to_coq(K, m, spreads, r["order"], r["draws"], labels))
            expected.append("None" if r["out"] is None else "(Some %s)" % c_list(r["out"], c_nat))
            keep.append((K, m, labels, spreads, r))
    ctx.coverage["distribution"] = hist
    core.anchored_check(ctx, ANCHORS, cov, ignore=("remaining_donors.pop()",))
    CH = 500
    jobs = []
    for k in range(0, len(coq_cases), CH):
        jobs.append(("repop_%d" % (k // CH),
                     "From Coq Require Import List Arith.\nImport ListNotations.\nFrom Ticc Require Import Corr.RunRepop.\n"
                     "Definition cases : list (nat * nat * list nat * list nat * list (list nat) * list nat) := [\n%s].\n"
                     "Definition expected : list (option (list nat)) := [\n%s].\n"
                     "Definition answers := Eval vm_compute in (mismatches cases expected).\nPrint answers.\n"
                     % (";\n".join(coq_cases[k:k + CH]), ";\n".join(expected[k:k + CH]))))
    res = ctx.coq_eval_many(jobs)
    for j, ((name, _), (ok, out)) in enumerate(zip(jobs, res)):
        mm = re.search(r"answers\s*=\s*\[(.*?)\]\s*:\s*list", out, re.S)
        if not ok or not mm:
            ctx.violation("tie", "model evaluation failed for %s" % name, {"correspondence": "tie:Repop", "log": out[-1500:]}, no_input=True)
            continue
        for tok in [t for t in mm.group(1).split(";") if t.strip()]:
            K, m, labels, spreads, r = keep[j * CH + int(re.sub(r"%\w+", "", tok).strip())]
            ctx.tie_mismatch("Repop", "model and implementation disagree on repopulation",
                          {"case": {"K": K, "m": m, "labels": labels, "spreads": spreads, "order": r["order"], "draws": r["draws"]},
                           "impl_out": r["out"], "impl_error": r["error"]})
    return ctx.finish(RULE)


def replay(ctx, data):
    c = data.get("detail", {}).get("case")
    if not c or "labels" not in c:
        print("replay: no concrete case; re-running the check")
        return run(ctx)
    bad = 0
    for seed in range(20):
        r = run_impl(c["K"], c["m"], c["labels"], c["spreads"], seed)
        if not monitor(ctx, c["K"], c["m"], c["labels"], c["spreads"], r):
            bad += 1
    for v in ctx.violations[:3]:
        print("replay:", v["what"])
    print("replay: %d of 20 seeds violate the property" % bad)
    return 1 if bad else 0
