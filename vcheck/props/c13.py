"""C13 - model state: labels and cluster membership always describe one partition."""
import random

import numpy as np

from .. import core, coqfmt, e2e
from ..core import c_nat, c_list, c_bool

ANCHORS = {
    "containers/model_state.py": ["ClusterParameters.__init__", "ClusterParameters.member_points", "ClusterParameters.size",
                                  "ClusterParameters.empty_cluster", "ClusterParameters.shallow_copy", "ClusterParameters.deep_copy",
                                  "ModelState.__init__", "ModelState.empty_model", "ModelState._update_cluster_membership",
                                  "ModelState.point_labels", "ModelState.shallow_copy", "ModelState.deep_copy"],
    "containers/arguments.py": ["UserArguments.shallow_copy", "UserArguments.deep_copy"],
    "cluster_maintenance.py": ["repopulate_empty_clusters", "update_all_cluster_statistics", "update_cluster_member_data_statistics"],
    "graphical_lasso.py": ["_retrieve_optimization_results", "_update_cluster_covariances"],
    "cluster_label_assignment.py": ["predict_cluster_labels"],
}
RULE = ("random operation sequences (assign labels, shallow / deep copy, repopulate, update statistics, optimise, relabel; 8-30 ops, "
        "K <= 4, with scalar and array-valued lambda / beta) executed on real ModelState objects and on the heap model; after every "
        "operation the labels, member lists, presence of cost / log-det, the aliasing graph over ALL state handles created so far and "
        "the equal-content classes of all arrays must agree; plus the partition invariant and the frame property on every phase boundary "
        "of the traced end-to-end runs; non-trivial = sequence contains a copy followed by a label assignment or a phase")


# ------------------------------------------------------------ python side of the signature
def oid(x):
    return 0 if x is None else id(x)


def canon(seq):
    seen = {}
    out = []
    for x in seq:
        if x == 0:
            out.append(0)
        else:
            if x not in seen:
                seen[x] = len(seen) + 1
            out.append(seen[x])
    return out


def content_key(x):
    if x is None:
        return None
    if isinstance(x, np.ndarray):
        return ("arr", x.dtype.str, x.shape, x.tobytes() if x.dtype != object else repr(x.tolist()))
    return ("val", float(x).hex())


def state_sig_parts(s):
    refs = [id(s), id(s.arguments)]
    lam = s.arguments.sparsity_weight
    beta = s.arguments.label_switching_cost
    refs += [id(lam) if isinstance(lam, np.ndarray) else 0, id(beta) if isinstance(beta, np.ndarray) else 0]
    refs.append(id(s.clusters))
    vals = []
    contents = []
    labels = s._point_labels
    vals += [0] if labels is None else [len(labels) + 1] + [int(x) for x in labels]
    vals.append(0 if s.label_assignment_cost is None else 1)
    for c in s.clusters:
        refs += [id(c), id(c._member_points), oid(c.empirical_covariance), oid(c.stacked_data_mean), oid(c.train_inverse),
                 oid(c.computed_covariance), oid(c.inverse_covariance)]
        vals += [len(c._member_points)] + [int(x) for x in c._member_points] + [0 if c.log_determinant is None else 1]
        contents += [content_key(c.empirical_covariance), content_key(c.stacked_data_mean), content_key(c.train_inverse),
                     content_key(c.computed_covariance), content_key(c.inverse_covariance),
                     None if c.log_determinant is None else ("ld", float(c.log_determinant).hex())]
    refs += [oid(labels), id(s.stacked_training_data)]
    return refs, vals, contents


def signature(handles):
    refs, vals, contents = [], [], []
    for s in handles:
        r, v, c = state_sig_parts(s)
        refs += r
        vals += v
        contents += c
    seen = {}
    cc = []
    for x in contents:
        if x is None:
            cc.append(0)
        else:
            if x not in seen:
                seen[x] = len(seen) + 1
            cc.append(seen[x])
    return coqfmt.hashN(canon(refs) + [99999] + vals + [99999] + cc)


# ------------------------------------------------------------ executing ops on the real classes
DEEP_SHARED = []      # (shared fields, op prefix, data width) of every deep copy that shares a mutable object with its source


def mutable_fields(st):
    """every mutable object a state reaches, by path (arrays of ANY dimension - a 0-d array can be written in place too -,
    lists, the cluster and argument containers)"""
    out = {"arguments": st.arguments, "arguments.sparsity_weight": st.arguments.sparsity_weight,
           "arguments.label_switching_cost": st.arguments.label_switching_cost, "clusters": st.clusters, "_point_labels": st._point_labels,
           "stacked_training_data": st.stacked_training_data, "point_log_likelihood": st.point_log_likelihood}
    for k, cl in enumerate(st.clusters):
        out["clusters[%d]" % k] = cl
        for f, v in vars(cl).items():
            out["clusters[%d].%s" % (k, f)] = v
    return {k: v for k, v in out.items() if isinstance(v, (np.ndarray, list, dict, set)) or hasattr(v, "__dict__")}


def shared_mutables(a, b):
    fa, fb = mutable_fields(a), mutable_fields(b)
    ids = {id(v): k for k, v in fa.items()}
    out = [(ids[id(v)], k) for k, v in fb.items() if id(v) in ids]
    for ka, va in fa.items():
        if isinstance(va, np.ndarray) and va.dtype != object:
            for kb, vb in fb.items():
                if isinstance(vb, np.ndarray) and vb.dtype != object and va is not vb and va.size and vb.size and np.shares_memory(va, vb):
                    out.append((ka, kb))
    return out
class FakeTask:
    def __init__(self, theta):
        self.theta = theta

    def get(self):
        return self


def theta_for(tag, k, nw):
    """a deterministic SPD matrix (compressed) standing in for the optimiser's answer: depends on (tag, k) only"""
    from fast_ticc import matrix_compression as mc
    M = np.eye(nw) * (2.0 + tag + 0.25 * k)
    M[0, nw - 1] = M[nw - 1, 0] = 0.5 if nw > 1 else M[0, 0]
    return mc.compress_matrix(M)


def exec_ops(K, m, lam_arr, beta_arr, npoints, ops, data):
    """returns list of signatures (one per op, plus the initial one) or ends with 1 on error"""
    from fast_ticc.containers import arguments, model_state
    from fast_ticc import cluster_maintenance as cm, graphical_lasso as gl, cluster_label_assignment as cla
    nw = data.shape[1]
    lam = np.full((nw, nw), 0.11) if lam_arr else 0.11
    beta = np.full(npoints, 3.0) if beta_arr else 3.0
    ua = arguments.UserArguments(sparsity_weight=lam, iteration_limit=5, label_switching_cost=beta, min_cluster_size=m,
                                 min_meaningful_covariance=0, num_clusters=K, num_processors=1, biased_covariance=False, window_size=1)
    cur = model_state.ModelState.empty_model(ua, data)
    handles = [cur]
    sigs = [signature(handles)]
    for op in ops:
        kind = op[0]
        try:
            if kind == "set":
                cur.point_labels = list(op[1])
            elif kind == "shallow":
                cur = cur.shallow_copy()
            elif kind == "deep":
                src_ = cur
                cur = cur.deep_copy()
                shared = shared_mutables(src_, cur)
                if shared:
                    DEEP_SHARED.append((shared, [list(o) if isinstance(o, tuple) else o for o in ops[:ops.index(op) + 1]], int(data.shape[1])))
            elif kind == "repop":
                _, spreads, order, draws = op
                dr = list(draws)

                class R:
                    @staticmethod
                    def sample(pop, k):
                        return dr.pop(0)
                # the spread ranking enters through ||computed_covariance||: scale the matrices accordingly
                saved = [c.computed_covariance for c in cur.clusters]
                norms = [float(np.linalg.norm(c.computed_covariance)) for c in cur.clusters]
                cm.random = R
                orig_norm = np.linalg.norm
                lookup = {id(c.computed_covariance): float(spreads[k]) for k, c in enumerate(cur.clusters)}
                # deep copies get new ids: rank by content instead
                bycontent = {c.computed_covariance.tobytes(): float(spreads[k]) for k, c in enumerate(cur.clusters)}

                class LA:
                    @staticmethod
                    def norm(x, *a, **k):
                        return bycontent.get(np.asarray(x).tobytes(), 0.0)
                real_np_linalg = cm.np.linalg

                class NPProxy:
                    linalg = LA

                    def __getattr__(self, name):
                        return getattr(np, name)
                cm.np = NPProxy()
                try:
                    cur = cm.repopulate_empty_clusters(cur)
                finally:
                    cm.random = random
                    cm.np = np
            elif kind == "stats":
                cur.arguments.biased_covariance = bool(op[1])
                cur = cm.update_all_cluster_statistics(cur, data)
            elif kind == "opt":
                tasks = [FakeTask(theta_for(op[1], k, nw)) for k in range(K)]
                cur = gl._retrieve_optimization_results(cur, tasks)
            elif kind == "relabel":
                orig = cla.assign_point_cluster_labels
                cla.assign_point_cluster_labels = lambda label_assignment_cost, label_switching_cost: (list(op[1]), float(op[2]))
                try:
                    cur = cla.predict_cluster_labels(cur, data)
                finally:
                    cla.assign_point_cluster_labels = orig
        except (RuntimeError, AssertionError) as e:
            sigs.append(1)
            return sigs, handles, "%s: %s" % (type(e).__name__, e)
        if not any(cur is hdl for hdl in handles):
            handles.append(cur)
        sigs.append(signature(handles[-4:]))
        if op is ops[-1]:
            sigs.append(signature(handles))
    return sigs, handles, None


# ------------------------------------------------------------ generator of valid op sequences
def gen_case(pyr):
    K = pyr.randint(1, 4)
    m = pyr.randint(1, 2)
    n = pyr.randint(max(2 * K, 4), 14)
    lam_arr, beta_arr = pyr.random() < 0.3, pyr.random() < 0.3
    ops = []
    labels = None
    has_stats = has_mrf = False
    interesting = False
    prev_copy = False

    def rand_labels(allow_empty_cluster=True):
        if allow_empty_cluster and pyr.random() < 0.35:
            ks = [pyr.randrange(K) for _ in range(max(1, K - 1))]
            return [pyr.choice(ks) for _ in range(n)]
        lab = [k for k in range(K)] + [pyr.randrange(K) for _ in range(n - K)]
        pyr.shuffle(lab)
        return lab
    nops = pyr.randint(8, 30)
    # mirrors of the ascending set order / draws are computed while generating
    while len(ops) < nops:
        choices = ["set", "shallow"]
        if labels is not None:
            choices += ["deep", "set"]
            sizes = [labels.count(k) for k in range(K)]
            if all(s > 0 for s in sizes):
                choices += ["stats", "stats"]
            if has_stats:
                choices += ["opt", "opt"]
            if has_mrf and has_stats:
                choices += ["relabel", "relabel", "repop", "repop"]
        kind = pyr.choice(choices)
        if kind == "set":
            lab = rand_labels() if pyr.random() < 0.85 else (list(labels) if labels is not None else rand_labels())
            if pyr.random() < 0.05:
                lab = []
            ops.append(("set", lab))
            labels = lab
            interesting |= prev_copy
            prev_copy = False
        elif kind in ("shallow", "deep"):
            ops.append((kind,))
            prev_copy = True
        elif kind == "stats":
            ops.append(("stats", pyr.random() < 0.5))
            has_stats = True
            interesting |= prev_copy
        elif kind == "opt":
            ops.append(("opt", pyr.randint(0, 5)))
            has_mrf = True
            interesting |= prev_copy
        elif kind == "relabel":
            lab = rand_labels()
            ops.append(("relabel", lab, pyr.randint(0, 9)))
            labels = lab
            interesting = True
        elif kind == "repop":
            sizes = [labels.count(k) for k in range(K)]
            st = set()
            for k in range(K):
                if sizes[k] < 2:
                    st.add(k)
            order = list(st)
            spreads = [pyr.randint(0, 3) for _ in range(K)]
            # simulate to produce valid draws (donor sizes evolve)
            donors = sorted([k for k in range(K) if sizes[k] >= 2 * m], key=lambda k: -spreads[k])
            cur = list(sizes)
            draws = []
            lab = list(labels)
            rem = list(donors)
            ok = True
            for e in order:
                if not rem:
                    ok = False
                    break
                d = rem[0]
                if cur[d] < 3 * m:
                    rem = rem[1:]
                idx = pyr.sample(range(cur[d]), m)
                draws.append(idx)
                mem = [i for i, x in enumerate(lab) if x == d]
                for j in idx:
                    lab[mem[j]] = e
                cur[d] -= m
                cur[e] += m
            ops.append(("repop", spreads, order, draws))
            if ok:
                labels = lab
                interesting = True
            else:
                break  # the error ends the sequence
    return {"K": K, "m": m, "n": n, "lam_arr": lam_arr, "beta_arr": beta_arr, "ops": ops, "interesting": interesting}


def op_to_coq(op):
    k = op[0]
    if k == "set":
        return "OpSetLabels %s" % c_list(op[1], c_nat)
    if k == "shallow":
        return "OpShallow"
    if k == "deep":
        return "OpDeep"
    if k == "repop":
        return "OpRepopulate %s %s %s" % (c_list(op[1], c_nat), c_list(op[2], c_nat), c_list([c_list(d, c_nat) for d in op[3]]))
    if k == "stats":
        return "OpStatistics %s" % c_bool(op[1])
    if k == "opt":
        return "OpOptimise %s" % c_nat(op[1])
    if k == "relabel":
        return "OpRelabel %s %s" % (c_list(op[1], c_nat), c_nat(op[2]))
    raise ValueError(k)


# ------------------------------------------------------------ the heap model against REAL main-loop runs
def eop_to_coq(op):
    k = op[0]
    if k == "set":
        return "ESet %s" % c_list(op[1], c_nat)
    if k == "repop":
        return "ERepop %s %s %s" % (c_list(op[1], c_nat), c_list(op[2], c_nat), c_list([c_list(d, c_nat) for d in op[3]]))
    if k == "stats":
        return "EStats %s" % c_bool(op[1])
    if k == "opt":
        return "EOpt %s" % c_list(op[1], c_nat)
    if k == "relabel":
        return "ERelabel %s %s" % (c_list(op[1], c_nat), c_nat(0))
    raise ValueError(k)


def real_run_case(cfg):
    """run a front end; at every phase boundary compute the signature over the (live) state objects handed on so far and
    extract the operation sequence (labels, repopulation order / draws / spread ranks, covariance tags) for the model"""
    from fast_ticc import _verif, cluster_maintenance as cm
    handles, sigs, ops = [], [], []
    draws = []
    tags = {}
    prev = {"state": None}

    class R:
        @staticmethod
        def sample(pop, k):
            r = random.sample(pop, k)
            draws.append([int(x) for x in r])
            return r

    def listener(event, payload):
        if event not in ("init", "phase"):
            return
        st = payload["state"]
        K = st.arguments.num_clusters
        if event == "init":
            ops.append(("set", [int(x) for x in st.point_labels]))
        else:
            ph = payload["phase"]
            if ph == "repopulate":
                given = prev["state"]
                labels = [int(x) for x in given.point_labels]
                sizes = [labels.count(k) for k in range(K)]
                under = set()
                for k in range(K):
                    if sizes[k] < 2:
                        under.add(k)
                norms = [float(np.linalg.norm(c.computed_covariance)) for c in given.clusters]
                ranks = {v: i for i, v in enumerate(sorted(set(norms)))}
                ops.append(("repop", [ranks[v] for v in norms], list(under), list(draws)))
                del draws[:]
            elif ph == "statistics":
                ops.append(("stats", bool(st.arguments.biased_covariance)))
            elif ph == "optimise":
                t = []
                for c in st.clusters:
                    key = np.asarray(c.empirical_covariance).tobytes()
                    t.append(tags.setdefault(key, len(tags)))
                ops.append(("opt", t))
            elif ph == "relabel":
                ops.append(("relabel", [int(x) for x in st.point_labels]))
        if not any(st is hdl for hdl in handles):
            handles.append(st)
        sigs.append(signature(handles[-4:]))
        prev["state"] = st

    def patches():
        _verif.add_listener(listener)
        cm.random = R
        return [lambda: setattr(cm, "random", random)]
    r = e2e.traced_run(cfg, extra_patches=patches)
    return r, ops, sigs


# ------------------------------------------------------------ monitors on traced runs
def inv_holds(st):
    labels = st["labels"]
    K = st["K"]
    if len(st["clusters"]) != K:
        return "number of clusters %d != K %d" % (len(st["clusters"]), K)
    if labels is None:
        return None
    for k, c in enumerate(st["clusters"]):
        want = [i for i, x in enumerate(labels) if x == k]
        if c["members"] != want:
            return "cluster %d members %s != positions of label %d %s" % (k, c["members"][:8], k, want[:8])
    if sorted(sum((c["members"] for c in st["clusters"]), [])) != list(range(len(labels))):
        return "member lists do not partition the points"
    return None


def same_arr(a, b):
    if a is None or b is None:
        return a is None and b is None
    return a.shape == b.shape and a.dtype == b.dtype and (a.tobytes() == b.tobytes() if a.dtype != object else True)


def frame_diff(before, after, phase):
    """compare the snapshot of the state given to a phase with the same object re-snapshotted afterwards"""
    if before["labels"] != after["labels"]:
        return "labels changed"
    if before["cost"] != after["cost"] and not (before["cost"] != before["cost"] and after["cost"] != after["cost"]):
        return "cost changed"
    if len(before["clusters"]) != len(after["clusters"]):
        return "cluster count changed"
    for k, (b, a) in enumerate(zip(before["clusters"], after["clusters"])):
        if b["id"] != a["id"]:
            return "cluster object %d replaced in the given state" % k
        if b["members"] != a["members"]:
            return "membership of cluster %d changed" % k
        for f in ("empirical_covariance", "stacked_data_mean", "train_inverse", "computed_covariance"):
            if not same_arr(b[f], a[f]):
                return "%s of cluster %d changed" % (f, k)
        if phase == "relabel":
            if not same_arr(a["inverse_covariance"], a["train_inverse"]):
                return "scoring cache of cluster %d is not the cluster's MRF" % k
            if b["log_determinant"] is not None and a["log_determinant"] is not None and b["log_determinant"] == b["log_determinant"]:
                if abs(a["log_determinant"] - b["log_determinant"]) > 1e-9 * max(1.0, abs(b["log_determinant"])):
                    return "log-determinant of cluster %d changed value" % k
        else:
            if not same_arr(b["inverse_covariance"], a["inverse_covariance"]):
                return "inverse_covariance of cluster %d changed" % k
            if b["log_determinant"] != a["log_determinant"] and not (b["log_determinant"] != b["log_determinant"]):
                return "log-determinant of cluster %d changed" % k
    return None


def run(ctx):
    pyr = random.Random(ctx.seed)
    ctx.proof_layer(allowed_axioms=(), coq_deps=["Corr/RunState"], gen=["model_state", "cm_repopulate", "cp_init", "cp_empty", "cp_shallow", "cp_deep", "st_init", "st_empty", "st_shallow", "st_deep", "ua_shallow", "ua_deep", "cp_size", "cp_members", "st_labels"])
    core.note_drift(ctx, ANCHORS)
    ncases = ctx.budget(300, 3000)
    data_rng = np.random.default_rng(5)
    cases = [gen_case(pyr) for _ in range(ncases)]
    impl = []
    cov = core.LineCoverage()
    hist = {"ops": {}, "errors": 0}
    n_shared_reports = 0
    with cov:
        for ci_, c in enumerate(cases):
            # (one, two or three columns: with a single column NumPy's covariance of a cluster is a 0-d array, still an array)
            data = data_rng.normal(size=(c["n"], [2, 1, 3, 2][ci_ % 4]))
            h = -1
            with ctx.guard("state operations", {"case": c}):
                sigs, handles, err = exec_ops(c["K"], c["m"], c["lam_arr"], c["beta_arr"], c["n"], c["ops"], data)
                h = sigs
                hist["errors"] += err is not None
            impl.append(h)
            for shared, prefix, width in DEEP_SHARED[: max(0, 5 - n_shared_reports)]:
                n_shared_reports += 1
                ctx.violation("monitor", "a deep copy shares a mutable object with its source: %s (data with %d column(s))" % (
                    ", ".join("%s is %s" % (x, y) for x, y in shared[:4]), width), {"case": c, "ops_up_to_copy": prefix, "shared": shared, "data_columns": width})
            del DEEP_SHARED[:]
            for op in c["ops"]:
                hist["ops"][op[0]] = hist["ops"].get(op[0], 0) + 1
            ctx.count("opseq")
            if c["interesting"]:
                ctx.mark_nontrivial(repr(c["ops"]))
        # defensive branches of the containers (None member lists)
        from fast_ticc.containers import model_state as _ms
        _c = _ms.ClusterParameters(member_points=None)
        _c.member_points = [3, 1]
        _c.member_points = None
        if _c.member_points != [] or _c.size != 0:
            ctx.violation("monitor", "assigning None to member_points does not clear the cluster", {"probe": "member_points=None"})
        # the heap model replayed on real main-loop executions: same signatures at every phase boundary
        real_cases = []
        for j in range(ctx.budget(6, 24)):
            W = [1, 2][j % 2]; N = 1 + j % 2; K = [3, 5, 4][j % 3]
            T = 50 + 5 * j
            cfg = {"N": N, "W": W, "K": K, "beta": [2.0, 30.0, 1e5][j % 3], "lam": (0.11 if j % 4 else np.full((N * W, N * W), 0.11)),
                   "limit": [3, 4, 2][j % 3], "m": [1, 2, 3][j % 3], "biased": bool(j % 2), "eps": 0, "joint": False,
                   "lengths": [T], "data_seed": 500 + j + ctx.seed, "rng_seed": 500 + j, "regimes": 2}
            if j % 5 == 3:
                cfg["beta"] = np.full(T - W + 1, 4.0)
            with ctx.guard("traced run for the heap-model replay", {"cfg": {k: (v if not isinstance(v, np.ndarray) else "array") for k, v in cfg.items()}}):
                r, eops, sigs_r = real_run_case(cfg)
                ctx.count("real-run")
                if r["error"] is None or eops:
                    real_cases.append((cfg, eops, sigs_r, r["error"]))
                    if any(o[0] == "repop" and o[2] for o in eops):
                        ctx.mark_nontrivial(("real", j))
        # the phases as library functions on a fitted state, with the data of the call differing from the data the state was
        # fitted to (the labelling step is also the library's way to label new data): a longer or a shorter series.
        # The state given must come back untouched (frame) and the state returned must satisfy the invariant.
        from fast_ticc.containers import arguments as _arg
        from fast_ticc import cluster_maintenance as _cm, graphical_lasso as _gl, cluster_label_assignment as _cla
        for j in range(ctx.budget(24, 120)):
            Kf = 2 + j % 3
            n0 = 20 + 3 * (j % 5)
            d_fit = data_rng.normal(size=(n0, 2))
            lab0 = [k for k in range(Kf)] * 2 + [int(x) for x in data_rng.integers(0, Kf, size=n0 - 2 * Kf)]
            ua = _arg.UserArguments(sparsity_weight=0.11, iteration_limit=5, label_switching_cost=2.0, min_cluster_size=1,
                                    min_meaningful_covariance=0, num_clusters=Kf, num_processors=1, biased_covariance=bool(j % 2), window_size=1)
            st0 = _ms.ModelState.empty_model(ua, d_fit)
            st0.point_labels = list(lab0)
            case = {"K": Kf, "fitted_on_points": n0, "labels": lab0}
            with ctx.guard("phases on a fitted state", case):
                st1 = _cm.update_all_cluster_statistics(st0, d_fit)
                # the optimiser's answers: positive definite ones and - every third case - what a large covariance floor can leave
                # behind, a symmetric matrix that is invertible but indefinite (the labelling step must cope with it without
                # repairing it in the state it was given)
                def answer(k):
                    if j % 3 == 2 and k == Kf - 1:
                        from fast_ticc import matrix_compression as _mc
                        return _mc.compress_matrix(np.array([[1.0, 2.0 + 0.25 * k], [2.0 + 0.25 * k, 1.0]]))
                    return theta_for(j % 7, k, 2)
                st2 = _gl._retrieve_optimization_results(st1, [FakeTask(answer(k)) for k in range(Kf)])
                for delta in (0, 7, -6, 1, -1)[: (5 if ctx.thorough else 3 + j % 3)]:
                    n1 = n0 + delta
                    d_new = d_fit[:n1] if delta <= 0 else np.vstack([d_fit, data_rng.normal(size=(delta, 2))])
                    # new labels: the old ones on the common prefix, with the tail (or the cut) changing only the LAST cluster's membership
                    new_lab = (list(lab0) + [Kf - 1] * max(delta, 0))[:n1]
                    if j % 2 and n1 > 2:
                        new_lab[1] = (new_lab[1] + 1) % Kf
                    before = e2e.snap_state(st2)
                    orig_k = _cla.assign_point_cluster_labels
                    _cla.assign_point_cluster_labels = lambda label_assignment_cost, label_switching_cost, _l=new_lab: (list(_l), 1.5)
                    try:
                        st3 = _cla.predict_cluster_labels(st2, d_new)
                    finally:
                        _cla.assign_point_cluster_labels = orig_k
                    after = e2e.snap_state(st2)
                    dd = frame_diff(before, after, "relabel")
                    c2 = dict(case, new_data_points=n1, new_labels=new_lab)
                    if dd:
                        ctx.violation("monitor", "the labelling step altered the state it was given (data of %d points, state fitted to %d): %s" % (n1, n0, dd), {"case": c2})
                    why = inv_holds(e2e.snap_state(st3))
                    if why:
                        ctx.violation("monitor", "the state returned by the labelling step breaks the partition invariant: %s" % why, {"case": c2})
                    if [int(x) for x in st3.point_labels] != new_lab:
                        ctx.violation("monitor", "the state returned by the labelling step does not carry the assigned labels", {"case": c2})
                    ctx.count("relabel-other-length")
                    ctx.mark_nontrivial(("rol", j, delta))
        # traced runs: invariant + frame at every phase boundary
        runs = e2e.cached_runs(ctx, e2e.standard_grid(ctx.seed, ctx.thorough), "std")
        # large covariance floors (a legal, documented argument): thresholding can leave a fitted MRF indefinite or singular; whatever
        # a phase does about that, it must not be done to the state it was given
        runs += e2e.cached_runs(ctx, [{"N": [1, 2, 1][j % 3], "W": [3, 3, 4][j % 3], "K": 2 + j % 2, "beta": 2.0, "lam": 0.11, "limit": 3, "m": 2,
                                       "biased": False, "eps": [0.1, 0.25, 0.05][j % 3], "joint": j % 3 == 1, "lengths": [[80], [50, 45], [90]][j % 3],
                                       "data_seed": 1300 + j, "rng_seed": 1300 + j, "regimes": 2 + j % 2} for j in range(ctx.budget(4, 9))], "c13floor")
        e2e.traced_run({"N": 1, "W": 2, "K": 2, "beta": 1.0, "lengths": [30], "limit": 2, "m": 1, "data_seed": 1, "rng_seed": 1, "joint": False})
    ctx.coverage["distribution"] = hist
    nb = 0
    for r in runs:
        ctx.count("e2e")
        prev = None
        for e in r["events"]:
            if e["event"] not in ("init", "phase", "final"):
                continue
            st = e["state"]
            why = inv_holds(st)
            nb += 1
            if why:
                ctx.violation("monitor", "partition invariant broken after %s/%s round %s: %s" % (e["event"], e.get("phase"), e.get("round"), why),
                              {"cfg": r["cfg"], "event": [e["event"], e.get("phase"), e.get("round")]})
            if e["event"] == "phase" and prev is not None and "given_after" in e:
                d = frame_diff(prev, e["given_after"], e["phase"])
                if d:
                    ctx.violation("monitor", "phase %s (round %s) altered the state it was given: %s" % (e["phase"], e["round"], d),
                                  {"cfg": r["cfg"], "event": [e["phase"], e["round"]]})
            prev = st
    ctx.notes["phase_boundaries_checked"] = nb
    core.anchored_check(ctx, ANCHORS, cov, ignore=("new_members is None", "return 0"))
    ctx.sample({"K": cases[0]["K"], "m": cases[0]["m"], "n": cases[0]["n"], "ops": [list(o) for o in cases[0]["ops"][:6]]})
    # ---- model side
    CH = 100
    jobs = []
    for k in range(0, len(cases), CH):
        body = ";\n".join("(%s, %s, %s, %s, %s)" % (c_nat(c["K"]), c_nat(c["m"]), c_bool(c["lam_arr"]), c_bool(c["beta_arr"]),
                                                 c_list([op_to_coq(o) for o in c["ops"]])) for c in cases[k:k + CH])
        jobs.append(("state_%d" % (k // CH),
                     "From Coq Require Import List Arith.\nImport ListNotations.\nFrom Ticc Require Import Model.State Corr.RunState.\n"
                     "Definition cases : list (nat * nat * bool * bool * list op) := [\n%s].\n"
                     "Definition answers := Eval vm_compute in (map run_case cases).\nPrint answers.\n" % body))
    res = ctx.coq_eval_many(jobs)
    model = []
    for (name, _), (ok, out) in zip(jobs, res):
        vals = coqfmt.parse_print_list(out) if ok else None
        if vals is None:
            ctx.violation("tie", "model evaluation failed for %s" % name, {"correspondence": "tie:State." + name, "log": out[-1500:]}, no_input=True)
            return ctx.finish(RULE)
        model += vals
    # real runs
    if real_cases:
        body = ";\n".join("(%s, %s, %s, %s, %s)" % (c_nat(cfg["K"]), c_nat(cfg["m"]), c_bool(isinstance(cfg["lam"], np.ndarray)),
                                                  c_bool(isinstance(cfg["beta"], np.ndarray)), c_list([eop_to_coq(o) for o in eops]))
                          for (cfg, eops, _, _) in real_cases)
        ok, out = ctx.coq_eval("state_real", "From Coq Require Import List Arith.\nImport ListNotations.\nFrom Ticc Require Import Model.State Corr.RunState.\n"
                               "Definition cases : list (nat * nat * bool * bool * list eop) := [\n%s].\n"
                               "Definition answers := Eval vm_compute in (map erun_case cases).\nPrint answers.\n" % body)
        vals = coqfmt.parse_print_list(out) if ok else None
        if vals is None or len(vals) != len(real_cases):
            ctx.violation("tie", "model evaluation failed for the real-run replay", {"correspondence": "tie:State.real-runs", "log": out[-1500:]}, no_input=True)
        else:
            for (cfg, eops, sigs_r, err), mh in zip(real_cases, vals):
                hh = 7
                for x in sigs_r:
                    hh = (hh * coqfmt.HMUL + x + 1) % coqfmt.HMOD
                if hh != mh:
                    ctx.tie_mismatch("State.real-runs", "the heap model replayed on a real main-loop run disagrees with the objects the run produced "
                                     "(labels / membership / aliasing / content classes at some phase boundary)",
                                     {"cfg": {k: (v if not isinstance(v, np.ndarray) else "array") for k, v in cfg.items()}, "ops": [list(o)[:2] for o in eops][:12], "run_error": err})
                    break
    for c, sigs, mh in zip(cases, impl, model):
        if sigs == -1:
            continue
        # hashI (sig0 :: sigs...) in Coq = fold over the list of ints
        hh = 7
        for x in sigs:
            hh = (hh * coqfmt.HMUL + x + 1) % coqfmt.HMOD
        if hh != mh:
            ctx.tie_mismatch("State.ops", "heap model and ModelState objects disagree (labels / membership / aliasing / content classes) on an operation sequence",
                             {"case": {k: v for k, v in c.items()}})
            break
    return ctx.finish(RULE)


def replay(ctx, data):
    print("replay: re-running the check")
    return run(ctx)
