"""C09 - main loop: bounded, stops only at a fixed point, returns what it scored."""
import re
from fractions import Fraction

import numpy as np

from .. import core, coqfmt, e2e, looptrace
from ..core import c_nat, c_list, c_float
from .c01 import exact_dp, exact_cost

ANCHORS = {"main_loop.py": ["fit_stacked_data"], "cluster_label_assignment.py": ["predict_cluster_labels"],
           "cluster_maintenance.py": ["repopulate_empty_clusters"], "graphical_lasso.py": ["optimize_markov_random_fields"]}
R_AX = core.R_AX
RULE = ("traced runs of both front ends (standard grid + runs with iteration_limit 1/2/3, runs that converge, runs with more clusters than "
        "regimes so that repopulation fires): (a) the verified acceptor accept_c09 evaluated inside Coq on the hook trace of every run; "
        "(b) the model loop replayed inside Coq from the recorded phase outputs must reproduce the number of rounds, the stop reason and "
        "the returned labels; (c) the labelling of the last round re-derived bit for bit by the binary64 kernel model from the hooked cost "
        "table, the table recomputed from the RETURNED model, result fields = last round; non-trivial = at least 2 rounds")


def c09_cfgs(seed, thorough):
    rng = np.random.default_rng(seed + 909)
    cfgs = []
    for i in range(10 if not thorough else 40):
        W = [1, 2, 3][i % 3]
        cfgs.append({"N": 1 + i % 3, "W": W, "K": [2, 3, 4, 5][i % 4], "beta": [0.0, 2.0, 10.0, 60.0][(i // 2) % 4], "lam": 0.11,
                     "limit": [1, 2, 3, 4, 50][i % 5], "m": [1, 2, 3][i % 3], "biased": bool(i % 2), "eps": 0, "joint": i % 4 == 3,
                     "lengths": [int(rng.integers(W + 30, W + 80)) for _ in range(1 + (i % 4 == 3))],
                     "data_seed": int(rng.integers(0, 10 ** 6)), "rng_seed": int(rng.integers(0, 10 ** 6)), "regimes": 2 + (i % 2)})
    return cfgs


def scripted_cfgs(seed, thorough):
    """The control logic of the main loop driven by SCRIPTED labellings: the initial labelling and the output of every
    relabelling step are dictated (the mixture initialisation and the labelling kernel are substituted from the harness,
    everything else - repopulation gate, statistics, optimiser, convergence test, result assembly - is the real code).
    The scripts are the histories the property quantifies over: equal labellings, labellings that describe the same
    groups under other cluster ids, cycles, a labelling equal to the initial one, limits 1..6."""
    rng = np.random.default_rng(seed + 991)
    A = [0] * 6 + [1] * 6
    B = [1] * 6 + [0] * 6            # the groups of A under swapped ids
    C = [0] * 4 + [1] * 8
    D = [0] * 8 + [1] * 4
    E3 = [0] * 4 + [1] * 4 + [2] * 4
    F3 = [2] * 4 + [0] * 4 + [1] * 4  # the groups of E3, ids rotated
    G3 = [0] * 3 + [1] * 6 + [2] * 3
    fixed = [
        ("same groups, swapped ids, then agreement", 2, 6, A, [A, B, B]),
        ("same groups, swapped ids until the limit", 2, 4, A, [A, B, A, B]),
        ("cycle of two labellings", 2, 5, C, [A, C, A, C, A]),
        ("agreement in round 1", 2, 4, C, [A, A]),
        ("first output equals the initial labelling", 2, 3, A, [A, C, C]),
        ("limit 1", 2, 1, A, [C]),
        ("limit 2 without agreement", 2, 2, A, [C, D]),
        ("three clusters, rotated ids", 3, 5, E3, [E3, F3, G3, G3]),
        ("three clusters, rotated ids until the limit", 3, 3, G3, [E3, F3, E3]),
        ("agreement only in the last permitted round", 2, 3, A, [C, D, D]),
    ]
    pool2 = [A, B, C, D]
    pool3 = [E3, F3, G3]
    for i in range(6 if not thorough else 30):
        K = 2 + i % 2
        pool = pool2 if K == 2 else pool3
        limit = int(rng.integers(1, 7))
        outs = [pool[int(rng.integers(0, len(pool)))] for _ in range(limit)]
        fixed.append(("random script %d" % i, K, limit, pool[int(rng.integers(0, len(pool)))], outs))
    cfgs = []
    for j, (name, K, limit, init, outs) in enumerate(fixed):
        cfgs.append({"N": 1, "W": 1, "K": K, "beta": 1.0, "lam": 0.11, "limit": limit, "m": 1, "biased": False, "eps": 0, "joint": False,
                     "lengths": [len(init)], "data_seed": 4000 + j, "rng_seed": 4000 + j, "regimes": 2,
                     "scripted": name, "script": {"init": init, "outs": outs, "dtype": ["uint16", "int64", "int"][j % 3]}})
    return cfgs


def scripted_patches(script):
    def install():
        from fast_ticc import cluster_label_assignment as cla
        orig_init, orig_kernel = cla.build_initial_clusters, cla.assign_point_cluster_labels
        calls = {"n": 0}
        conv = {"uint16": np.uint16, "int64": np.int64, "int": int}[script["dtype"]]

        def init(num_clusters, training_data):
            return [np.int64(x) for x in script["init"]]

        def kernel(label_assignment_cost, label_switching_cost):
            k = min(calls["n"], len(script["outs"]) - 1)
            calls["n"] += 1
            out = script["outs"][k]
            # like the real kernel: the first entry comes from argmin (int64), the rest from the path matrix
            return ([np.int64(out[0])] + [conv(x) for x in out[1:]], float(k))
        cla.build_initial_clusters = init
        cla.assign_point_cluster_labels = kernel
        return [lambda: setattr(cla, "build_initial_clusters", orig_init), lambda: setattr(cla, "assign_point_cluster_labels", orig_kernel)]
    return install


def unpadded_result_labels(run):
    res = run["result"]
    cfg = run["cfg"]
    W = cfg["W"]
    front = (W - 1) // 2
    if cfg.get("joint"):
        out = []
        for l, T in zip(res["point_labels"], cfg["lengths"]):
            out += l[front:front + T - W + 1]
        return out
    T = cfg["lengths"][0]
    return res["point_labels"][front:front + T - W + 1]


def score_table(final_state, data_rows, W):
    """-log-likelihood table recomputed from the returned model (independent NumPy code)"""
    K = len(final_state["clusters"])
    T, NW = data_rows.shape
    tab = np.zeros((T, K))
    for k, c in enumerate(final_state["clusters"]):
        theta = c["train_inverse"]
        mu = c["stacked_data_mean"]
        sign, ld = np.linalg.slogdet(theta)
        d = data_rows - mu
        q = np.einsum("ij,jk,ik->i", d, theta, d)
        tab[:, k] = -0.5 * (ld - q - NW * np.log(2 * np.pi))
    return tab


def run(ctx):
    from fast_ticc import data_preparation as dp
    ctx.proof_layer(allowed_axioms=R_AX, coq_deps=["Corr/RunMainLoop", "Corr/RunViterbi"], gen=["main_loop", "la_predict", "vh_emit", "vh_add", "vh_clear", "main_loop_full"])
    core.note_drift(ctx, ANCHORS)
    cov = core.LineCoverage()
    with cov:
        runs = e2e.cached_runs(ctx, e2e.standard_grid(ctx.seed, ctx.thorough), "std") + e2e.cached_runs(ctx, c09_cfgs(ctx.seed, ctx.thorough), "c09")
        # keep the anchored lines under the tracer even on cache hits (one converging run, one limit-1 run, one repopulating run)
        runs.append(e2e.traced_run({"N": 1, "W": 2, "K": 2, "beta": 3.0, "lengths": [40], "limit": 30, "m": 1, "data_seed": 2, "rng_seed": 2, "joint": False, "regimes": 2}))
        runs.append(e2e.traced_run({"N": 2, "W": 1, "K": 5, "beta": 30.0, "lengths": [60], "limit": 4, "m": 2, "data_seed": 4, "rng_seed": 4, "joint": False, "regimes": 2}))
        # scripted histories (control logic under dictated labellings)
        for cfg_s in scripted_cfgs(ctx.seed, ctx.thorough):
            r_s = e2e.traced_run(cfg_s, extra_patches=scripted_patches(cfg_s["script"]))
            runs.append(r_s)
            ctx.count("scripted")
            if r_s["error"] is not None:
                ctx.violation("monitor", "scripted run '%s' raised %s" % (cfg_s["scripted"], r_s["error"][:200]), {"case": {"cfg": cfg_s}})
            else:
                want_rounds = None
                outs_s = cfg_s["script"]["outs"]
                for j in range(1, len(outs_s)):
                    if outs_s[j] == outs_s[j - 1]:
                        want_rounds = j + 1
                        break
                want_rounds = want_rounds or cfg_s["limit"]
                got = len(looptrace.rounds_of(r_s)["rounds"])
                if got != want_rounds:
                    ctx.violation("monitor", "scripted history '%s' (limit %d): the loop ran %d rounds, the stopping rule gives %d"
                                  % (cfg_s["scripted"], cfg_s["limit"], got, want_rounds), {"case": {"cfg": cfg_s}})
    accept_lits, replay_lits, vit_lits = [], [], []
    meta_a, meta_r, meta_v = [], [], []
    hist = {"rounds": {}, "early": 0, "limit_hit": 0, "repop_changed": 0, "errors": 0}
    for r in runs:
        cfg = r["cfg"]
        ctx.count("run")
        if r["error"] is not None:
            hist["errors"] += 1
            continue
        tr = looptrace.rounds_of(r)
        case = {"cfg": cfg}
        K, limit = cfg["K"], cfg.get("limit", 20)
        nr = len(tr["rounds"])
        hist["rounds"][nr] = hist["rounds"].get(nr, 0) + 1
        if nr >= 2:
            ctx.mark_nontrivial(repr(cfg))
        if tr["order_problem"]:
            ctx.violation("monitor", "phase order: " + tr["order_problem"], {"case": case})
            continue
        if tr["init"] is None or any(x is None for rr in tr["rounds"] for x in rr[:3]):
            ctx.violation("tie", "incomplete hook trace", {"correspondence": "hook:H1", "case": case}, no_input=True)
            continue
        res_labels = unpadded_result_labels(r)
        early = tr["stop_event"] is not None
        hist["early"] += early
        hist["limit_hit"] += (not early)
        hist["repop_changed"] += sum(1 for (a, b, c, _) in tr["rounds"][1:] if a != b)
        # ---- python monitor (search engine; mirrors the acceptor)
        outs = [c for (_, _, c, _) in tr["rounds"]]
        probs = []
        if not (1 <= nr <= limit):
            probs.append("%d rounds with iteration_limit %d" % (nr, limit))
        if early and not (nr >= 2 and outs[-1] == outs[-2]):
            probs.append("stopped early although the last two labellings differ")
        if not early and nr != limit:
            probs.append("stopped after %d rounds without agreement and without reaching the limit %d" % (nr, limit))
        for j in range(nr - 2):
            if outs[j] == outs[j + 1]:
                probs.append("rounds %d and %d agree but the loop went on" % (j, j + 1))
        if tr["rounds"][0][0] != tr["rounds"][0][1]:
            probs.append("labels changed before the first fit (repopulation in round 0?)")
        for j, (lin, lfit, lout, _) in enumerate(tr["rounds"]):
            if j > 0 and lin != lfit and all(lin.count(k) >= 2 for k in range(K)):
                probs.append("round %d repopulated although every cluster had >= 2 points" % j)
        if res_labels != outs[-1] or tr["final_labels"] != outs[-1]:
            probs.append("returned labels are not those of the last round")
        for p in probs:
            ctx.violation("monitor", p, {"case": case})
        # every round fits the MRFs to the statistics of the CURRENT labels: the MRF stored after the optimise phase
        # must be a fresh solve for that round's covariance (checked for all rounds after a repopulation that moved
        # points, and for the last round)
        from fast_ticc import admm as _admm, matrix_compression as _mc
        phases = [e for e in r["events"] if e["event"] == "phase"]
        for j, (lin, lfit, lout, _) in enumerate(tr["rounds"]):
            if not ((j > 0 and lin != lfit) or j == nr - 1):
                continue
            opt = [e for e in phases if e["round"] == j and e["phase"] == "optimise"]
            if not opt:
                continue
            for k, c in enumerate(opt[0]["state"]["clusters"]):
                S = c["empirical_covariance"]
                if S is None or c["train_inverse"] is None:
                    continue
                fresh = _mc.reinflate_matrix(_admm.admm_optimize_theta(np.array(S, copy=True), e2e.lam_of(cfg), cfg["W"], cfg["N"]).theta)
                eps = cfg.get("eps", 0)
                if eps:
                    fresh[(fresh < eps) & (fresh > -eps)] = 0
                if not np.allclose(fresh, c["train_inverse"], rtol=1e-9, atol=1e-12):
                    ctx.violation("monitor", "round %d: the MRF of cluster %d is not a fit to that round's covariance (max diff %.3g) - stale model"
                                  % (j, k, float(np.max(np.abs(fresh - c["train_inverse"])))), {"case": case})
                    break
        # result = last round: cost, MRFs
        fin = [e for e in r["events"] if e["event"] == "final"][0]["state"]
        lo = [e for e in r["events"] if e["event"] == "labelling_output"]
        li = [e for e in r["events"] if e["event"] == "labelling_input"]
        if float(lo[-1]["cost"]).hex() != float(r["result"]["label_assignment_cost"]).hex() and not (lo[-1]["cost"] != lo[-1]["cost"]):
            ctx.violation("monitor", "returned cost is not the cost of the last relabelling", {"case": case})
        for k, c in enumerate(fin["clusters"]):
            if c["train_inverse"].tobytes() != r["result"]["markov_random_fields"][k].tobytes():
                ctx.violation("monitor", "returned MRF %d is not the last round's" % k, {"case": case})
                break
        # cost table of the last round must be scored from the returned model
        W = cfg["W"]
        stacked = np.vstack([dp.stack_training_data(s, W) for s in r["series"]])
        tab = li[-1]["cost_table"]
        ref = score_table(fin, stacked, W)
        if tab.shape != ref.shape or not np.allclose(tab, ref, rtol=1e-7, atol=1e-7 * (1 + np.abs(ref).max())):
            ctx.violation("monitor", "the labelling of the last round was not scored from the returned model", {"case": case})
        # ---- Coq: acceptor, replay, last labelling by the kernel model
        accept_lits.append(looptrace.accept_literal(K, limit, tr, res_labels)); meta_a.append(case)
        rl = looptrace.replay_literal(limit, tr)
        if rl is not None:
            replay_lits.append(rl); meta_r.append((case, nr, early, res_labels))
        sc = li[-1]["switching_cost"]
        T = tab.shape[0]
        betas = [float(sc["value"])] * T if sc["kind"] != "ndarray" else [float(x) for x in sc["value"]]
        if T * K <= 1200 and np.all(np.isfinite(tab)) and not cfg.get("scripted"):
            opt_, nopt = exact_dp(tab.tolist(), betas)
            # the returned labelling must be a minimum-cost labelling for the returned model (exact rationals; the slack covers
            # the rounding of the kernel's own additions)
            from .c01 import exact_cost as _exact_cost
            got_ = _exact_cost(tab.tolist(), betas, [int(x) for x in lo[-1]["labels"]])
            slack_ = 16 * T * 2.0 ** -52 * (float(np.sum(np.abs(tab))) + sum(abs(b) for b in betas))
            if float(got_ - opt_) > slack_:
                ctx.violation("monitor", "the returned labelling is not a minimum-cost labelling for the returned model: its cost %.6f exceeds the optimum %.6f "
                              "of the last round's cost table (switching cost given %s)" % (float(got_), float(opt_), "per pair" if sc["kind"] == "ndarray" else "as one number"),
                              {"case": case})
            if abs(float(lo[-1]["cost"]) - float(got_)) > slack_:
                ctx.violation("monitor", "the cost the last round reports (%.6f) is not the cost %.6f of the labelling it returns under the last round's cost table "
                              "(switching cost given %s)" % (float(lo[-1]["cost"]), float(got_), "per pair" if sc["kind"] == "ndarray" else "as one number"), {"case": case})
            vit_lits.append("(%s, %s, %s, %s, %s)" % (c_nat(K), c_list([c_list([c_float(x) for x in row]) for row in tab]),
                                                    c_list([c_float(b) for b in betas]), c_list(lo[-1]["labels"], c_nat), c_float(lo[-1]["cost"])))
            meta_v.append((case, nopt == 1))
    # the relabelling phase answering with a scripted sequence of labellings (e2e.traced_run, "relabel_script" - the loop is specified
    # for arbitrary phase functions): a sequence that settles must stop the loop in the round after it settles, with reason
    # "converged"; sequences that cycle with period 2 / 3 never reach a fixed point and must use up the iteration limit
    for j, (sc_, limit_) in enumerate([("settle", 8), ("cycle2", 8), ("cycle3", 9)]):
        cfg_s = {"N": 2, "W": 1, "K": 2, "beta": 2.0, "lam": 0.11, "limit": limit_, "m": 2, "biased": False, "eps": 0, "joint": False,
                 "lengths": [64], "data_seed": 1790 + j, "rng_seed": 1790 + j, "regimes": 2, "relabel_script": sc_}
        rs_ = e2e.traced_run(cfg_s)
        ctx.count("scripted-relabelling")
        ctx.mark_nontrivial(("scripted", sc_))
        if rs_["error"] is not None:
            ctx.violation("monitor", "run with a scripted relabelling phase (%s) failed: %s" % (sc_, rs_["error"]), {"case": {"cfg": cfg_s}})
            continue
        rel_ = [e["state"]["labels"] for e in rs_["events"] if e["event"] == "phase" and e["phase"] == "relabel"]
        stop_ = [e for e in rs_["events"] if e["event"] == "stop"]
        if stop_ and (len(rel_) < 2 or rel_[-1] != rel_[-2]):
            ctx.violation("monitor", "the loop stopped as converged after %d rounds although the last relabelling changed the labels (relabelling sequence: %s): not a fixed point"
                          % (len(rel_), sc_), {"case": {"cfg": cfg_s, "rounds": len(rel_)}})
        if sc_ == "settle" and (not stop_ or len(rel_) != 3):
            ctx.violation("monitor", "a relabelling sequence A, B, B, ... must stop the loop after the third round as converged; it ran %d rounds, stop event: %s"
                          % (len(rel_), bool(stop_)), {"case": {"cfg": cfg_s, "rounds": len(rel_)}})
        if sc_ != "settle" and len(rel_) != limit_:
            ctx.violation("monitor", "a relabelling sequence that never repeats in consecutive rounds (%s) must run for the whole iteration limit %d; it ran %d rounds"
                          % (sc_, limit_, len(rel_)), {"case": {"cfg": cfg_s, "rounds": len(rel_)}})
        if rs_["result"]["point_labels"] != rel_[-1]:
            ctx.violation("monitor", "the labels returned are not the last relabelling's (scripted sequence %s)" % sc_, {"case": {"cfg": cfg_s}})
    ctx.coverage["distribution"] = hist
    core.anchored_check(ctx, ANCHORS, cov, ignore=("LOGGER.", "raise", "return model", "task_pool.terminate()", "task_pool.join()"))
    if runs and runs[0]["result"]:
        tr0 = looptrace.rounds_of(runs[0])
        ctx.sample({"cfg": runs[0]["cfg"], "rounds": len(tr0["rounds"]), "first_round_out": tr0["rounds"][0][2][:12]})
    jobs = []
    CH = 12
    for k in range(0, len(accept_lits), CH):
        jobs.append(("accept_%d" % (k // CH), "From Coq Require Import List Arith.\nImport ListNotations.\nFrom Ticc Require Import Model.MainLoop Corr.RunMainLoop.\n"
                     "Definition cases : list (%s) := [\n%s].\nDefinition answers := Eval vm_compute in (map (fun c => if accept c then 1 else 0) cases).\nPrint answers.\n"
                     % (looptrace.ACCEPT_TYPE, ";\n".join(accept_lits[k:k + CH]))))
    for k in range(0, len(replay_lits), CH):
        jobs.append(("replay_%d" % (k // CH), "From Coq Require Import List Arith.\nImport ListNotations.\nFrom Ticc Require Import Model.MainLoop Corr.RunMainLoop.\n"
                     "Definition cases : list (%s) := [\n%s].\nDefinition answers := Eval vm_compute in (concat (map replay cases)).\nPrint answers.\n"
                     % (looptrace.REPLAY_TYPE, ";\n".join(replay_lits[k:k + CH]))))
    for k in range(0, len(vit_lits), 6):
        jobs.append(("vit_%d" % (k // 6), "From Coq Require Import List Arith NArith PrimFloat.\nImport ListNotations.\nFrom Ticc Require Import Corr.RunViterbi.\nOpen Scope float_scope.\n"
                     "Definition cases : list (nat * list (list float) * list float * list nat * float) := [\n%s].\n"
                     "Definition answers := Eval vm_compute in (map check_case cases).\nPrint answers.\n" % ";\n".join(vit_lits[k:k + 6])))
    res = ctx.coq_eval_many(jobs)
    acc, rep, vit = [], [], []
    for (name, _), (ok, out) in zip(jobs, res):
        vals = coqfmt.parse_print_list(out) if ok else None
        if vals is None:
            ctx.violation("tie", "model evaluation failed for %s" % name, {"correspondence": "tie:MainLoop." + name, "log": out[-1500:]}, no_input=True)
            return ctx.finish(RULE)
        {"accept": acc, "replay": rep, "vit": vit}[name.split("_")[0]].extend(vals)
    ctx.count("accept_c09", len(acc))
    for a, case in zip(acc, meta_a):
        if a != 1:
            ctx.violation("monitor", "the verified trace acceptor accept_c09 rejects the hook trace of this run", {"case": case})
    for i, (case, nr, early, res_labels) in enumerate(meta_r):
        kind, n, e, pool, h = rep[5 * i: 5 * i + 5]
        if (kind, n, e) != (1, nr, 1 if early else 0) or h != coqfmt.hashN(res_labels) or pool != 1:
            ctx.tie_mismatch("MainLoop.replay", "the model loop replayed from the recorded phase outputs does not reproduce the run "
                             "(model: kind=%d rounds=%d early=%d; run: rounds=%d early=%s)" % (kind, n, e, nr, early), {"case": case})
    ctx.count("replay", len(meta_r))
    for code, (case, unique) in zip(vit, meta_v):
        if code == 2 or (code == 1 and unique):
            ctx.tie_mismatch("Viterbi.binary64@last-round", "the last round's labels/cost are not what the kernel model computes from the hooked cost table", {"case": case})
    ctx.count("last-round-kernel", len(meta_v))
    return ctx.finish(RULE)


def replay(ctx, data):
    cfg = (data.get("detail", {}).get("case") or {}).get("cfg")
    if cfg:
        print("replay: re-running configuration", cfg)
    return run(ctx)
