"""C19 - caller-owned data is never modified (partial)."""
import json
import os

import numpy as np

from .. import core, inventory, e2e

ANCHORS = {"front_end.py": ["ticc_labels", "ticc_joint_labels"], "data_preparation.py": ["stack_training_data", "stack_training_data_multiple_series"],
           "graphical_lasso.py": ["_zero_small_elements", "_reconstruct_optimized_matrix"], "admm/solver.py": ["run_admm_optimization", "admm_update_x"],
           "cluster_label_assignment.py": ["predict_cluster_labels", "assign_point_cluster_labels"]}
RULE = ("(a) the inventory of in-place write sites regenerated from the source (subscript / attribute / augmented stores, mutating method "
        "calls, out=, copy=False, each with the provenance of its target): no site of unknown provenance, and the sites whose target is "
        "not provably fresh must be exactly the reviewed ones the Coq summaries account for; (b) every public entry point called with "
        "read-only arrays (NumPy raises on any write through them or their views), C- and Fortran-ordered, all parameter forms, on "
        "successful and on failing calls, with byte snapshots of every argument before and after; non-trivial = array-valued lambda / "
        "beta or a failing call")


WRITABLE = [False]


def ro(a, order="C"):
    """read-only copy (or, in the writable pass, an ordinary writable copy: a silent in-place write then shows in the snapshot)"""
    b = np.array(a, order=order, copy=True)
    if not WRITABLE[0]:
        b.setflags(write=False)
    return b


def snap(objs):
    out = []
    for o in objs:
        if isinstance(o, np.ndarray):
            out.append((o.tobytes(), o.shape, o.dtype.str, o.flags.writeable, o.flags.c_contiguous))
        elif isinstance(o, list):
            out.append(("list", [id(x) for x in o], snap([x for x in o if isinstance(x, np.ndarray)])))
        else:
            out.append(repr(o))
    return out


def kernel_ro(payload):
    from fast_ticc.cluster_label_assignment import assign_point_cluster_labels as kernel
    res = []
    for item in payload:
        tab, beta = item[0], item[1]
        if isinstance(tab, tuple):          # ("big", T, K, seed): built here rather than shipped
            tab = np.random.default_rng(tab[3]).normal(size=(tab[1], tab[2]))
        readonly = item[2] if len(item) > 2 else True
        # (arrays come out of the pickle writable: the read-only flag is set here, in the process that makes the call)
        tab.setflags(write=not readonly)
        if isinstance(beta, np.ndarray):
            beta.setflags(write=not readonly)
        before = (tab.tobytes(), beta.tobytes() if isinstance(beta, np.ndarray) else None)
        try:
            kernel(label_assignment_cost=tab, label_switching_cost=beta)
            err = None
        except Exception as e:  # noqa
            err = "%s: %s" % (type(e).__name__, str(e)[:200])
        after = (tab.tobytes(), beta.tobytes() if isinstance(beta, np.ndarray) else None)
        res.append((before == after, err))
    return res


def step_ro(payload):
    """worker (JIT): the labelling step and the likelihood table on caller-built model states and data in the given forms"""
    from fast_ticc.containers import arguments as _arg, model_state as _ms
    from fast_ticc import likelihood as _lk, cluster_label_assignment as _cla
    res = []
    for (data, thetas, means, W, order, readonly) in payload:
        K = len(thetas)
        ua = _arg.UserArguments(sparsity_weight=0.11, iteration_limit=2, label_switching_cost=2.0, min_cluster_size=1, min_meaningful_covariance=0,
                                num_clusters=K, num_processors=1, biased_covariance=False, window_size=W)
        data = np.array(data, order=order, copy=True)
        data.setflags(write=not readonly)
        st = _ms.ModelState.empty_model(ua, data)
        owned = [data]
        for k, cl in enumerate(st.clusters):
            th = np.array(thetas[k], order=order, copy=True)
            th.setflags(write=not readonly)
            mu = np.array(means[k], copy=True)
            mu.setflags(write=not readonly)
            cl.train_inverse = th
            cl.stacked_data_mean = mu
            owned += [th, mu]
        before = [o.tobytes() for o in owned]
        errs = []
        for name, fn in (("all_points_all_clusters_log_likelihood", lambda: _lk.all_points_all_clusters_log_likelihood(st, data)),
                         ("predict_cluster_labels", lambda: _cla.predict_cluster_labels(st, data))):
            try:
                fn()
            except Exception as e:  # noqa
                errs.append("%s: %s: %s" % (name, type(e).__name__, str(e)[:160]))
        res.append(([o.tobytes() for o in owned] == before, errs))
    return res


def run(ctx):
    import io
    import contextlib
    from fast_ticc import front_end, admm, cluster_label_assignment as cla, graphical_lasso as gl
    rng = np.random.default_rng(ctx.seed)
    ctx.proof_layer(allowed_axioms=(), coq_deps=[], gen=["front_single", "front_joint", "la_predict", "ua_print"])
    core.note_drift(ctx, ANCHORS)
    # ---- (a) inventory tie
    exp = json.load(open(os.path.join(core.VERIF, "vcheck", "expected_inventory.json")))
    sites = inventory.mutation_sites()
    key = lambda x: (x["file"], x["function"], x["kind"], x["target"], x["provenance"])
    nonfresh = [x for x in sites if x["provenance"] not in ("fresh", "self", "attr-of-self", "attr-of-fresh")]
    unknown = [x for x in sites if "unknown" in x["provenance"] or x["provenance"] in ("global", "<call>", "<expr>")]
    ctx.count("write-sites", len(sites))
    ctx.notes["write_sites_total"] = len(sites)
    ctx.notes["write_sites_not_provably_fresh"] = [list(key(x)) for x in nonfresh]
    new = sorted(set(map(key, nonfresh)) - set(map(key, exp["mutation_sites_non_fresh"])))
    gone = sorted(set(map(key, exp["mutation_sites_non_fresh"])) - set(map(key, nonfresh)))
    tie_broken = bool(new or unknown)
    if new or unknown:
        ctx.notes["inventory_new_sites"] = [list(x) for x in new] + [list(key(x)) for x in unknown]
    if gone:
        ctx.notes["inventory_sites_gone"] = [list(x) for x in gone]
    # ---- (b) dynamic cross-check
    cov = core.LineCoverage()
    hist = {"calls": 0, "failing_calls": 0}
    with cov:
        def call(name, fn, args_objs, expect_fail=False):
            before = snap(args_objs)
            err = None
            try:
                with contextlib.redirect_stdout(io.StringIO()):
                    fn()
            except Exception as e:  # noqa
                err = "%s: %s" % (type(e).__name__, str(e)[:300])
            after = snap(args_objs)
            hist["calls"] += 1
            hist["failing_calls"] += err is not None
            ctx.count("entry-point-call")
            if before != after:
                ctx.violation("monitor", "%s modified a caller-owned argument%s" % (name, " (call raised %s)" % err if err else ""), {"call": name})
            if err is not None and ("read-only" in err or "WRITEABLE" in err or "writeable" in err):
                # (also for calls that are allowed to fail: a failure for THIS reason is an attempted write into the caller's array)
                ctx.violation("monitor", "%s attempts to write through a read-only argument: %s" % (name, err), {"call": name})
            elif err is not None and not expect_fail:
                ctx.violation("monitor", "%s fails on read-only / reordered inputs: %s" % (name, err), {"call": name})
            return err
        for i in range(ctx.budget(8, 32)):
            WRITABLE[0] = bool((i // 4) % 2)
            N, W, K = [(2, 2, 2), (1, 3, 2), (2, 1, 3), (3, 2, 2)][i % 4]
            n = N * W
            order = "CF"[i % 2]
            data = ro(e2e.make_data({"N": N, "lengths": [45], "data_seed": 40 + i, "regimes": 2})[0], order)
            if i % 4 == 3:
                data = ro(np.round(np.asarray(data) * 4).astype(np.int64), order)
            T = 45 - W + 1
            lam = ro(np.full((n, n), 0.11) + 0.01 * np.eye(n), order) if i % 2 == 0 else 0.11
            beta = ro(np.full(T, 3.0)) if i % 3 == 0 else 3.0
            if i % 3 == 0 and i % 2 == 1:
                bv = np.full(T, 3.0)
                bv[T // 2] = np.inf           # "never switch here": a legal if unusual per-pair cost
                beta = ro(bv)
            if isinstance(lam, np.ndarray) or isinstance(beta, np.ndarray):
                ctx.mark_nontrivial(("forms", i))
            np.random.seed(i)
            call("ticc_labels[%s]" % order, lambda: front_end.ticc_labels(data, window_size=W, num_clusters=K, sparsity_weight=lam, label_switching_cost=beta,
                                                                        iteration_limit=3, min_cluster_size=2), [data, lam, beta])
            series = [ro(s, order) for s in e2e.make_data({"N": N, "lengths": [30, 26], "data_seed": 60 + i, "regimes": 2})]
            if i % 4 in (1, 2):
                # series stored as counts / single precision: a caller's list of such arrays is still the caller's list
                dt = [np.int64, np.float32][i % 2]
                series = [ro(np.round(np.asarray(s) * 4).astype(dt), order) for s in series]
            lst = list(series)
            np.random.seed(i)
            jbeta = ro(np.full(sum(len(x) - W + 1 for x in series), 3.0)) if i % 2 else 3.0
            call("ticc_joint_labels[%s]" % order, lambda: front_end.ticc_joint_labels(lst, window_size=W, num_clusters=K, sparsity_weight=lam,
                                                                                      label_switching_cost=jbeta, iteration_limit=2, min_cluster_size=2), [lst, lam, jbeta] + series)
            # failing calls: impossible minimum cluster size (donor shortage) and a wrong front end
            np.random.seed(i)
            call("ticc_labels failing[%s]" % order, lambda: front_end.ticc_labels(data, window_size=W, num_clusters=6, sparsity_weight=lam, label_switching_cost=beta,
                                                                                iteration_limit=4, min_cluster_size=40), [data, lam, beta], expect_fail=True)
            ctx.mark_nontrivial(("failing", i))
            call("ticc_labels(list)", lambda: front_end.ticc_labels(lst, window_size=W, num_clusters=K), [lst] + series, expect_fail=True)
            S = ro(np.cov(np.asarray(data).T) if n == N else np.eye(n) * 2.0 + 0.3, order)
            call("admm_optimize_theta[%s]" % order, lambda: admm.admm_optimize_theta(S, lam, W, N), [S, lam])
            # covariances of the kinds a cluster can produce on real recordings: a sensor that never moves (zero row, column and
            # diagonal entry), two sensors that read the same (singular), a tiny and a huge scale, counts stored as integers; for
            # these the solver may well fail - but whether it returns or raises the caller's matrix is the caller's
            base_cov = np.cov(rng.normal(size=(n + 6, n)).T) if n > 1 else np.array([[1.7]])
            kinds = {"dead sensor": base_cov.copy(), "duplicated sensor": base_cov.copy(), "tiny scale": base_cov * 1e-12, "huge scale": base_cov * 1e9,
                     "integer counts": np.round(base_cov * 8).astype(np.int64)}
            kinds["dead sensor"][n - 1, :] = 0.0
            kinds["dead sensor"][:, n - 1] = 0.0
            if n > 1:
                kinds["duplicated sensor"][n - 1, :] = kinds["duplicated sensor"][0, :]
                kinds["duplicated sensor"][:, n - 1] = kinds["duplicated sensor"][:, 0]
                kinds["duplicated sensor"][n - 1, n - 1] = kinds["duplicated sensor"][0, 0]
            for kind_, mat in kinds.items():
                Sd = ro(mat, order)
                call("admm_optimize_theta[%s, %s]" % (kind_, order), lambda: admm.admm_optimize_theta(Sd, lam, W, N, max_iterations=60), [Sd, lam], expect_fail=True)
                ctx.mark_nontrivial(("degenerate covariance", kind_, i))
            tab = ro(rng.normal(size=(T, K)), order)
            call("assign_point_cluster_labels[%s]" % order, lambda: cla.assign_point_cluster_labels(label_assignment_cost=tab, label_switching_cost=beta), [tab, beta])
            # the labelling step as a library function: a model state whose matrices the caller built (either memory order,
            # read-only or writable) and data to label; none of the caller's arrays may change, whether it returns or raises
            from fast_ticc.containers import arguments as _arg, model_state as _ms
            from fast_ticc import likelihood as _lk
            ua = _arg.UserArguments(sparsity_weight=0.11, iteration_limit=2, label_switching_cost=beta if not isinstance(beta, np.ndarray) else ro(np.asarray(beta)),
                                    min_cluster_size=1, min_meaningful_covariance=0, num_clusters=K, num_processors=1, biased_covariance=False, window_size=W)
            from fast_ticc import data_preparation as _dp
            stacked = ro(_dp.stack_training_data(np.asarray(data), W), order)
            mstate = _ms.ModelState.empty_model(ua, stacked)
            owned = [stacked]
            for kk, cl in enumerate(mstate.clusters):
                a = rng.normal(size=(n + 2, n))
                th = a.T @ a / (n + 2) + (0.5 + kk) * np.eye(n)
                cl.train_inverse = ro(th, order)
                cl.computed_covariance = ro(np.linalg.inv(th), order)
                cl.empirical_covariance = ro(np.linalg.inv(th), order)
                cl.stacked_data_mean = ro(np.asarray(stacked).mean(axis=0) + kk)
                owned += [cl.train_inverse, cl.computed_covariance, cl.empirical_covariance, cl.stacked_data_mean]
            if isinstance(ua.label_switching_cost, np.ndarray):
                owned.append(ua.label_switching_cost)
            call("all_points_all_clusters_log_likelihood[%s]" % order, lambda: _lk.all_points_all_clusters_log_likelihood(mstate, stacked), owned)
            call("predict_cluster_labels[%s]" % order, lambda: cla.predict_cluster_labels(mstate, stacked), owned)
            bad_data = ro(np.asarray(stacked)[:, :-1] if n > 1 else np.zeros((3, 2)), order)
            call("predict_cluster_labels failing[%s]" % order, lambda: cla.predict_cluster_labels(mstate, bad_data), owned + [bad_data], expect_fail=True)
            M = ro(rng.normal(size=(n, n)))
            call("_zero_small_elements(copy=True)", lambda: gl._zero_small_elements(M, 0.5), [M])
        WRITABLE[0] = False
        # the labelling kernel under JIT with read-only inputs
        payload = [(np.array(ro(rng.normal(size=(9, 3)), "CF"[j % 2])), np.full(9, 2.0) if j % 2 else 2.0, True) for j in range(6)]
        # tables of tens of megabytes (size thresholds of "in place above N bytes" optimisations), writable and read-only
        payload += [(("big", 1050000, 4, 19), 2.0, False), (("big", 1050000, 4, 20), 2.0, True), (("big", 300000, 8, 21), 2.0, False)]
        r = core.run_worker(ctx, "vcheck.props.c19:kernel_ro", payload, mode="jit", tag="ro")
        if not r["ok"]:
            ctx.violation("tie", "JIT worker failed: %s" % r["error"][:300], {"correspondence": "harness:C19.jit"}, no_input=True)
        else:
            for (same, err), item in zip(r["result"], payload):
                ctx.count("jit-kernel-call")
                shape = item[0][1:3] if isinstance(item[0], tuple) else item[0].shape
                desc = {"call": "assign_point_cluster_labels/jit", "table_shape": list(shape), "read_only": bool(item[2])}
                if not same:
                    ctx.violation("monitor", "JIT-compiled labelling kernel modified the %d x %d cost table it was given" % tuple(shape), desc)
                if err:
                    ctx.violation("monitor", "JIT-compiled labelling kernel fails on a %s %d x %d cost table: %s" % (
                        "read-only" if item[2] else "writable", shape[0], shape[1], err), desc)
        # the labelling step and the likelihood table under JIT on caller-built states: writable and read-only, both memory orders
        pl = []
        for j in range(4):
            n_ = 2; W_ = 1 + j % 2
            A_ = rng.normal(size=(3, n_ * W_, n_ * W_))
            pl.append((rng.normal(size=(12, n_ * W_)), [a @ a.T + np.eye(n_ * W_) for a in A_[:2]], [rng.normal(size=n_ * W_) for _ in range(2)],
                       W_, "CF"[j // 2], bool(j % 2)))
        r2 = core.run_worker(ctx, "vcheck.props.c19:step_ro", pl, mode="jit", tag="stepro")
        if not r2["ok"]:
            ctx.violation("tie", "JIT worker failed: %s" % r2["error"][:300], {"correspondence": "harness:C19.jit-step"}, no_input=True)
        else:
            for (same, errs), item in zip(r2["result"], pl):
                ctx.count("jit-labelling-step")
                desc = {"call": "labelling step / likelihood table under JIT", "data_shape": list(item[0].shape), "order": item[4], "read_only": item[5]}
                if not same:
                    ctx.violation("monitor", "the labelling step under JIT modified a caller-built array (%s order, %s)" % (item[4], "read-only" if item[5] else "writable"), desc)
                for e in errs:
                    ctx.violation("monitor", "under JIT, with %s %s-ordered arrays: %s" % ("read-only" if item[5] else "writable", item[4], e), desc)
    ctx.coverage["distribution"] = hist
    core.anchored_check(ctx, ANCHORS, cov, ignore=("raise TypeError", "not_a_numpy_array", "not_a_list_of_numpy_arrays", "LOGGER.", "new_rho", "scale = args.rho", "u = scale * u", "filtered = array"))
    ctx.sample({"site": list(key(sites[0]))})
    ctx.sample({"not provably fresh": [list(key(x)) for x in nonfresh][:2]})
    if tie_broken:
        concrete = [v for v in ctx.violations if v["kind"] == "monitor"]
        ctx.violation("tie:inventory", "write sites not accounted for by the effect summaries: %s" % ([list(x) for x in new] + [list(key(x)) for x in unknown])[:3],
                      {"correspondence": "inventory:mutation-sites", "new_sites": [list(x) for x in new], "unknown": [list(key(x)) for x in unknown]}, no_input=not concrete)
    return ctx.finish(RULE)


def replay(ctx, data):
    return run(ctx)
