"""C12 - each cluster is fitted to exactly its own windows, with the requested estimator."""
import re
from fractions import Fraction

import numpy as np

from .. import core, e2e
from ..core import c_nat, c_list, c_Z, c_bool

ANCHORS = {"cluster_maintenance.py": ["update_cluster_member_data_statistics", "update_all_cluster_statistics"],
           "graphical_lasso.py": ["optimize_markov_random_fields", "_setup_optimization_task"]}
RULE = ("(a) update_all_cluster_statistics on generated (integer data, labels, estimator flag): mean and covariance of every cluster against "
        "the exact-rational model evaluated in Coq over Q (rows = the windows labelled k, divisor n or n-1); (b) traced runs of both "
        "front ends incl. rounds after repopulation: at every statistics phase the stored mean / covariance of every cluster recomputed "
        "in exact rationals from the stacked data and that state's labels; what every optimisation task receives (recorded in the "
        "parent): the very covariance object of the statistics phase, the user's sparsity weight, W, N = NW/W and the default solver "
        "settings; non-trivial = cluster with >= 2 rows in >= 2 dimensions")

DEFAULT_KW = {"rho": 1, "rho_update": None, "max_iterations": 1000, "relative_tolerance": 1e-6, "absolute_tolerance": 1e-6, "verbose": False}


def exact_moments(rows, biased):
    """rows: list of lists of floats (exact rationals). returns mean (Fractions), cov (Fractions)"""
    n = len(rows)
    d = len(rows[0])
    F = [[Fraction(float(v)) for v in r] for r in rows]
    mean = [sum(r[j] for r in F) / n for j in range(d)]
    div = n if (biased or n < 2) else n - 1
    cov = [[sum((r[j] - mean[j]) * (r[k] - mean[k]) for r in F) / div for k in range(d)] for j in range(d)]
    return mean, cov


def close(a, b, tol=1e-10):
    return abs(float(a) - float(b)) <= tol * max(1.0, abs(float(a)), abs(float(b)))


def check_stats_state(ctx, st, stacked, biased, what, case):
    labels = st["labels"]
    for k, c in enumerate(st["clusters"]):
        rows = [i for i, l in enumerate(labels) if l == k]
        if c["members"] != rows:
            ctx.violation("monitor", "%s: cluster %d members are not the points labelled %d" % (what, k, k), {"case": case})
            return False
        if not rows:
            continue
        mean, cov = exact_moments(stacked[rows].tolist(), biased)
        got_m = np.atleast_1d(c["stacked_data_mean"])
        got_c = np.atleast_2d(c["empirical_covariance"])
        d = len(mean)
        if got_m.shape != (d,) or got_c.shape != (d, d):
            ctx.violation("monitor", "%s: cluster %d statistics have shape %s / %s" % (what, k, got_m.shape, got_c.shape), {"case": case})
            return False
        if not all(close(got_m[j], mean[j]) for j in range(d)):
            ctx.violation("monitor", "%s: mean of cluster %d is not the mean of exactly its %d windows" % (what, k, len(rows)), {"case": case})
            return False
        if not all(close(got_c[j, kk], cov[j][kk], 1e-9) for j in range(d) for kk in range(d)):
            ctx.violation("monitor", "%s: covariance of cluster %d is not the %s sample covariance of exactly its %d windows"
                          % (what, k, "biased" if biased else "unbiased", len(rows)), {"case": case})
            return False
    return True


def run(ctx):
    from fast_ticc import cluster_maintenance as cm, data_preparation as dp
    from fast_ticc.containers import arguments, model_state
    rng = np.random.default_rng(ctx.seed)
    ctx.proof_layer(allowed_axioms=core.R_AX, coq_deps=["Corr/RunStats"], gen=["cluster_maintenance", "gl_optimize", "gl_setup", "cm_update_all", "gl_stats"])
    core.note_drift(ctx, ANCHORS)
    cov = core.LineCoverage()
    lits, meta = [], []
    with cov:
        for i in range(ctx.budget(50, 300)):
            K = int(rng.integers(1, 5)); d = int(rng.integers(1, 4)); T = int(rng.integers(K, 16))
            labels = [k for k in range(K)] + [int(x) for x in rng.integers(0, K, size=T - K)]
            rng.shuffle(labels)
            labels = [int(x) for x in labels]
            data = rng.integers(-9, 10, size=(T, d)).astype(float)
            biased = bool(i % 2)
            ua = arguments.UserArguments(sparsity_weight=0.1, iteration_limit=1, label_switching_cost=1.0, min_cluster_size=1,
                                         min_meaningful_covariance=0, num_clusters=K, num_processors=1, biased_covariance=biased, window_size=1)
            ms = model_state.ModelState.empty_model(ua, data)
            ms.point_labels = list(labels)
            case = {"K": K, "labels": labels, "data": data.astype(int).tolist(), "biased": biased}
            ctx.count("unit")
            with ctx.guard("update_all_cluster_statistics", case):
                out = cm.update_all_cluster_statistics(ms, data)
                st = e2e.snap_state(out)
                check_stats_state(ctx, st, data, biased, "unit", case)
                for k, c in enumerate(out.clusters):
                    ctx.count("unit-cluster")
                    rows = [j for j, l in enumerate(labels) if l == k]
                    if len(rows) >= 2 and d >= 2:
                        ctx.mark_nontrivial((i, k))
                    lits.append("(%s, %s, %s, %s)" % (c_list([c_list(r, c_Z) for r in data.astype(int).tolist()]), c_list(rows, c_nat), c_bool(biased), c_nat(d)))
                    meta.append((case, k, np.atleast_1d(c.stacked_data_mean).copy(), np.atleast_2d(c.empirical_covariance).copy()))
        # (a') clusters of many thousand windows (sizes around the usual block / chunk sizes of numerical code): the moments
        # must still be those of ALL the windows of the cluster.  Integer data, exact integer reference.
        for j, nbig in enumerate([4097, 8193, 20000] + ([70000] if ctx.thorough else [])):
            d = 2
            Tn = nbig + 1500
            data = rng.integers(-50, 51, size=(Tn, d)).astype(float)
            data[: Tn // 2] += 7.0          # the two halves differ in level, so between-block scatter matters
            labels = [0] * Tn
            other = rng.choice(Tn, size=1500, replace=False)
            for o in other:
                labels[int(o)] = 1
            biased = bool(j % 2)
            ua = arguments.UserArguments(sparsity_weight=0.1, iteration_limit=1, label_switching_cost=1.0, min_cluster_size=1,
                                         min_meaningful_covariance=0, num_clusters=2, num_processors=1, biased_covariance=biased, window_size=1)
            ms = model_state.ModelState.empty_model(ua, data)
            ms.point_labels = list(labels)
            case = {"cluster_sizes": [Tn - 1500, 1500], "biased": biased, "data": "integers in [-50, 50] (+7 on the first half), seed %d" % ctx.seed}
            ctx.count("unit-large")
            ctx.mark_nontrivial(("large", nbig))
            with ctx.guard("update_all_cluster_statistics (large cluster)", case):
                out = cm.update_all_cluster_statistics(ms, data)
                for k, c in enumerate(out.clusters):
                    rows = np.array([i for i, l in enumerate(labels) if l == k])
                    X = data[rows].astype(np.int64)
                    n = len(rows)
                    sx = [int(v) for v in X.sum(axis=0)]
                    sxy = [[int((X[:, a] * X[:, b]).sum()) for b in range(d)] for a in range(d)]
                    div = n if biased else n - 1
                    mean = [Fraction(sx[a], n) for a in range(d)]
                    cov_x = [[(Fraction(sxy[a][b]) - Fraction(sx[a] * sx[b], n)) / div for b in range(d)] for a in range(d)]
                    gm, gc = np.atleast_1d(c.stacked_data_mean), np.atleast_2d(c.empirical_covariance)
                    if not all(close(gm[a], mean[a]) for a in range(d)):
                        ctx.violation("monitor", "mean of a cluster of %d windows is not the mean of all its windows" % n, {"case": case})
                    elif not all(close(gc[a, b], cov_x[a][b], 1e-9) for a in range(d) for b in range(d)):
                        ctx.violation("monitor", "covariance of a cluster of %d windows is not the %s sample covariance of all its windows (got %r, exact %r)"
                                      % (n, "biased" if biased else "unbiased", float(gc[0, 0]), float(cov_x[0][0])), {"case": case})
        # (b) traced runs
        runs = e2e.cached_runs(ctx, e2e.standard_grid(ctx.seed, ctx.thorough), "std")
        runs.append(e2e.traced_run({"N": 2, "W": 2, "K": 2, "beta": 1.0, "lengths": [30], "limit": 2, "m": 1, "data_seed": 1, "rng_seed": 1, "joint": False}))
        # matrix-valued sparsity weights - symmetric, upper triangle only, different lower triangle - must reach the optimiser unchanged
        # a sensor that reads a constant (a zero-variance channel in every cluster): what the optimiser receives must still be
        # exactly the covariance of the cluster's windows
        runs += e2e.cached_runs(ctx, [{"N": 3, "W": 1 + j % 2, "K": 2 + j % 2, "beta": 3.0, "lam": 0.11, "limit": 3, "m": 2, "biased": bool(j % 2), "eps": 0,
                                       "joint": False, "lengths": [80], "data_seed": 1250 + j, "rng_seed": 1250 + j, "regimes": 2 + j % 2,
                                       "dead_sensor": j % 3, "dead_value": [0.0, 7.5][j % 2], "scale": [1.0, 1e-3][j % 2]} for j in range(ctx.budget(3, 8))], "c12dead")
        runs += e2e.cached_runs(ctx, [{"N": N, "W": W, "K": 2, "beta": 2.0, "lam_matrix": kind, "limit": 2, "m": 2, "biased": bool(j % 2), "eps": 0,
                                       "joint": j % 3 == 2, "lengths": [40, 30][: 1 + (j % 3 == 2)], "data_seed": 1200 + j, "rng_seed": 1200 + j, "regimes": 2}
                                      for j, (N, W, kind) in enumerate([(2, 2, "sym"), (2, 2, "upper"), (1, 3, "asym"), (3, 1, "upper"), (2, 3, "asym")])], "c12lam")
        nstats = ntasks = after_repop = 0
        nfits = 0
        for r in runs:
            ctx.count("run")
            cfg = r["cfg"]
            if r["error"] is not None:
                continue
            W, K, N = cfg["W"], cfg["K"], cfg["N"]
            stacked = np.vstack([dp.stack_training_data(s, W) for s in r["series"]])
            case = {"cfg": cfg}
            prev_phase_labels = None
            for e in r["events"]:
                if e["event"] != "phase":
                    continue
                if e["phase"] == "repopulate":
                    prev_phase_labels = e["state"]["labels"]
                if e["phase"] == "statistics":
                    nstats += 1
                    check_stats_state(ctx, e["state"], stacked, bool(cfg.get("biased", False)), "round %d" % e["round"], case)
                    # what the K tasks of this round receive
                    tasks = r["tasks"][e["n_tasks_so_far"]: e["n_tasks_so_far"] + K]
                    nxt = [x for x in r["events"] if x["event"] == "phase" and x["round"] == e["round"] and x["phase"] == "optimise"]
                    if not nxt:
                        continue
                    tasks = r["tasks"][e["n_tasks_so_far"]: nxt[0]["n_tasks_so_far"]]
                    if len(tasks) != K:
                        ctx.violation("monitor", "round %d submitted %d optimisation tasks for %d clusters" % (e["round"], len(tasks), K), {"case": case})
                        continue
                    for k, (t, c) in enumerate(zip(tasks, e["state"]["clusters"])):
                        ntasks += 1
                        a = t["args"]
                        probs = []
                        if t["func"] not in ("fast_ticc.admm.front_end.admm_optimize_theta",):
                            probs.append("task function is %s" % t["func"])
                        if len(a) != 4:
                            probs.append("%d positional arguments" % len(a))
                        else:
                            if a[0]["id"] != c["ec_id"] or a[0]["kind"] != "ndarray" or a[0]["value"].tobytes() != np.asarray(c["empirical_covariance"]).tobytes():
                                probs.append("covariance argument is not the cluster's freshly computed empirical covariance")
                            lam = e2e.lam_of(cfg)
                            if isinstance(lam, np.ndarray):
                                if a[1]["kind"] != "ndarray" or a[1]["value"].shape != lam.shape or not np.array_equal(a[1]["value"], lam):
                                    probs.append("the matrix-valued sparsity weight handed to the optimiser is not the user's matrix (%s)" % cfg.get("lam_matrix"))
                            elif a[1]["kind"] == "ndarray" or float(a[1]["value"]) != float(lam):
                                probs.append("sparsity weight %r instead of the user's %r" % (a[1]["value"], lam))
                            if a[2]["value"] != W:
                                probs.append("window size %r instead of %r" % (a[2]["value"], W))
                            if a[3]["value"] != N:
                                probs.append("sensor count %r instead of %r" % (a[3]["value"], N))
                        if t["kwargs"] != DEFAULT_KW:
                            probs.append("solver settings %r" % (t["kwargs"],))
                        for p in probs:
                            ctx.violation("monitor", "optimisation task of cluster %d in round %d: %s" % (k, e["round"], p), {"case": case})
                    # ... and what each cluster carries after the optimise phase is the fit to ITS OWN covariance: the solver's answer
                    # to the covariance this cluster's task was given (whatever order the pool finished the tasks in)
                    if nfits < (60 if not ctx.thorough else 400):
                        from fast_ticc import admm as _admm, matrix_compression as _mc
                        for k, (c_before, c_after) in enumerate(zip(e["state"]["clusters"], nxt[0]["state"]["clusters"])):
                            S_ = c_before["empirical_covariance"]
                            if S_ is None or c_after["train_inverse"] is None or np.ndim(S_) != 2:
                                continue
                            nfits += 1
                            with ctx.guard("admm_optimize_theta", {"cfg": cfg, "round": e["round"], "cluster": k}):
                                own = _mc.reinflate_matrix(_admm.admm_optimize_theta(np.array(S_, dtype=float, copy=True), e2e.lam_of(cfg), W, N).theta)
                                eps_ = cfg.get("eps", 0)
                                if eps_:
                                    own[(own < eps_) & (own > -eps_)] = 0
                                if own.shape != np.shape(c_after["train_inverse"]) or not np.allclose(own, c_after["train_inverse"], rtol=1e-9, atol=1e-12):
                                    ctx.violation("monitor", "round %d: after the optimise phase cluster %d does not carry the fit to its own covariance (max diff %.3g from the solver's answer to it)"
                                                  % (e["round"], k, float(np.max(np.abs(own - c_after["train_inverse"]))) if own.shape == np.shape(c_after["train_inverse"]) else float("nan")),
                                                  {"case": case})
                    if e["round"] > 0:
                        rep = [x for x in r["events"] if x["event"] == "phase" and x["round"] == e["round"] and x["phase"] == "repopulate"]
                        prv = [x for x in r["events"] if x["event"] == "phase" and x["round"] == e["round"] - 1 and x["phase"] == "relabel"]
                        if rep and prv and rep[0]["state"]["labels"] != prv[0]["state"]["labels"]:
                            after_repop += 1
        ctx.notes.update({"statistics_phases_checked": nstats, "tasks_checked": ntasks, "statistics_phases_right_after_a_repopulation": after_repop})
    core.anchored_check(ctx, ANCHORS, cov, ignore=("assert ",))
    ctx.sample({"K": meta[0][0]["K"], "labels": meta[0][0]["labels"], "biased": meta[0][0]["biased"]})
    jobs = []
    for k in range(0, len(lits), 40):
        jobs.append(("stats_%d" % (k // 40), "From Coq Require Import List Arith ZArith.\nImport ListNotations.\nFrom Ticc Require Import Corr.RunStats.\n"
                     "Definition cases : list (list (list Z) * list nat * bool * nat) := [\n%s].\nDefinition answers := Eval vm_compute in (map run_stats cases).\nPrint answers.\n" % ";\n".join(lits[k:k + 40])))
    idx = 0
    for (name, _), (ok, out) in zip(jobs, ctx.coq_eval_many(jobs)):
        m = re.search(r"answers\s*=\s*\[(.*)\]\s*:\s*list", out, re.S)
        if not ok or not m:
            ctx.violation("tie", "model evaluation failed for %s" % name, {"correspondence": "tie:Stats", "log": out[-1500:]}, no_input=True)
            return ctx.finish(RULE)
        body = re.sub(r"%\w+", "", m.group(1))
        # every case prints ([means], [[cov rows]]); collect all integer pairs in order
        for chunk in re.split(r"\)\s*;\s*\(\s*\[", body):
            nums = [int(x) for x in re.findall(r"-?\d+", chunk)]
            case, k, gm, gc = meta[idx]
            d = len(gm)
            fr = [Fraction(nums[i], nums[i + 1]) for i in range(0, len(nums), 2)]
            if len(fr) != d + d * d:
                ctx.violation("tie", "could not parse the model's answer for case %d" % idx, {"correspondence": "tie:Stats.parse"}, no_input=True)
                return ctx.finish(RULE)
            ok_case = all(close(gm[j], fr[j]) for j in range(d)) and all(close(gc[j, kk], fr[d + j * d + kk], 1e-9) for j in range(d) for kk in range(d))
            if not ok_case:
                ctx.tie_mismatch("Stats.moments", "mean / covariance of cluster %d differ from the exact-rational model" % k, {"case": case, "cluster": k})
                return ctx.finish(RULE)
            idx += 1
    return ctx.finish(RULE)


def replay(ctx, data):
    return run(ctx)
