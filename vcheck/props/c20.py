"""C20 - failures surface as exceptions, never as a partial result (partial: OS process reaping is observed, not proved)."""
import multiprocessing
import os
import random
import time

import numpy as np

from .. import core, coqfmt, e2e, looptrace

ANCHORS = {"main_loop.py": ["fit_stacked_data", "_init_task_pool"],
           "graphical_lasso.py": ["optimize_markov_random_fields", "_retrieve_optimization_results", "_setup_optimization_task"],
           "front_end.py": ["ticc_labels", "ticc_joint_labels"],
           "cluster_maintenance.py": ["_find_point_donor"]}
RULE = ("fault enumeration on the real front ends: an exception injected into the optimisation task of every (round <= 2, cluster < K), "
        "into each phase function in rounds 0..2, a natural donor shortage, and both wrong-front-end calls; single-process pool and "
        "multiprocessing pools with 2..3 workers.  Observed: exception class/message, no result, wall-clock bound, no live child process "
        "right after the call, a following clean call bit-identical to a fresh one; the model loop replayed inside Coq with the fault at "
        "the same point must predict the number of intact rounds.  non-trivial = fault strikes after at least one completed phase")


HANG_LIMIT_S = 60


class Injected(ValueError):
    pass


def raise_fault(*a, **k):
    raise Injected("injected optimisation failure")


# failures of the classes a library bug typically produces (a front end must not mistake them for "wrong kind of input")
BUILTIN_FAULTS = {"AttributeError": AttributeError, "IndexError": IndexError, "TypeError": TypeError, "KeyError": KeyError}


def raise_attribute_error(*a, **k):
    raise AttributeError("module 'numpy' has no attribute 'float' (injected)")


def raise_index_error(*a, **k):
    raise IndexError("index 7 is out of bounds for axis 0 with size 7 (injected)")


BASE = {"N": 2, "W": 2, "K": 3, "beta": 8.0, "lam": 0.11, "limit": 6, "m": 2, "biased": False, "eps": 0, "joint": False,
        "lengths": [70], "data_seed": 11, "rng_seed": 11, "regimes": 3}


def digest_result(r):
    if r["result"] is None:
        return None
    res = r["result"]
    return coqfmt.hashN([len(res["point_labels"])] + [x + 1 for x in res["point_labels"]]) ^ hash(float(res["label_assignment_cost"]).hex()) ^ \
        hash(b"".join(m.tobytes() for m in res["markov_random_fields"]))


def run_with_fault(cfg, fault, procs=1, mp=False):
    """fault = ('task', round, cluster) | ('post', round, cluster) | ('phase', name, round) | None"""
    from fast_ticc import graphical_lasso as gl, cluster_maintenance as cm, cluster_label_assignment as cla, main_loop
    state = {"round_tasks": 0, "calls": {}}
    undo = []

    def patches():
        if fault and fault[0] == "task":
            orig = gl._setup_optimization_task
            K = cfg["K"]

            def setup(cluster, n, w, lam, pool, *more, **kwmore):
                # (extra arguments a revised helper may take are handed through untouched)
                t = state["round_tasks"]
                state["round_tasks"] += 1
                if (t // K, t % K) == (fault[1], fault[2]):
                    fn = {None: raise_fault, "AttributeError": raise_attribute_error, "IndexError": raise_index_error}[fault[3] if len(fault) > 3 else None]
                    return pool.apply_async(fn, [], {})
                return orig(cluster, n, w, lam, pool, *more, **kwmore)
            gl._setup_optimization_task = setup
            undo.append(lambda: setattr(gl, "_setup_optimization_task", orig))
        if fault and fault[0] == "post":
            # the parent-side post-processing of one cluster's optimisation result (inverse, log-determinant, floor)
            orig_post = gl._update_cluster_covariances
            K = cfg["K"]

            def post(*a, **k):
                t = state["calls"].get("post", 0)
                state["calls"]["post"] = t + 1
                if (t // K, t % K) == (fault[1], fault[2]):
                    raise Injected("injected failure in the post-processing of an optimisation result")
                return orig_post(*a, **k)
            gl._update_cluster_covariances = post
            undo.append(lambda: setattr(gl, "_update_cluster_covariances", orig_post))
        if fault and fault[0] == "phase":
            mod, name = {"statistics": (cm, "update_all_cluster_statistics"), "relabel": (cla, "predict_cluster_labels"),
                         "repopulate": (cm, "repopulate_empty_clusters"), "optimise": (gl, "optimize_markov_random_fields")}[fault[1]]
            orig = getattr(mod, name)

            def wrapped(*a, **k):
                n = state["calls"].get(name, 0)
                state["calls"][name] = n + 1
                rnd = n + (1 if fault[1] == "repopulate" else 0)
                if rnd == fault[2]:
                    raise Injected("injected failure in " + name)
                return orig(*a, **k)
            setattr(mod, name, wrapped)
            undo.append(lambda: setattr(mod, name, orig))
        return undo
    if mp:
        os.environ["CUPCAKE_ENABLE_MULTIPROCESSING"] = "1"
    else:
        os.environ.pop("CUPCAKE_ENABLE_MULTIPROCESSING", None)
    c = dict(cfg, procs=procs)
    t0 = time.time()
    import signal

    class Hang(BaseException):
        pass

    def on_alarm(signum, frame):
        raise Hang()
    old = signal.signal(signal.SIGALRM, on_alarm)
    signal.alarm(HANG_LIMIT_S)
    try:
        r = e2e.traced_run(c, extra_patches=patches)
    except Hang:
        # the call did not return: clean up what we can and report it
        for u in undo:
            try:
                u()
            except Exception:
                pass
        from fast_ticc import _verif, main_loop as _ml
        _verif.clear_listeners()
        for ch in multiprocessing.active_children():
            ch.terminate()
        r = {"cfg": c, "result": None, "error": "HANG: the call did not return within %d s" % HANG_LIMIT_S, "events": [], "tasks": [], "series": []}
    finally:
        signal.alarm(0)
        signal.signal(signal.SIGALRM, old)
    r["wall"] = time.time() - t0
    r["children_after"] = max(len(multiprocessing.active_children()), r.get("children_at_raise", 0))
    os.environ.pop("CUPCAKE_ENABLE_MULTIPROCESSING", None)
    return r


def run(ctx):
    from fast_ticc import front_end
    ctx.proof_layer(allowed_axioms=(), coq_deps=["Corr/RunMainLoop"], gen=["main_loop", "front_single", "front_joint", "main_loop_full"])
    core.note_drift(ctx, ANCHORS)
    cov = core.LineCoverage()
    replay_lits, meta = [], []
    hist = {"faults": 0, "propagated": 0, "pool_modes": {}}
    with cov:
        # pick a reference configuration whose clean run has >= 3 rounds with pairwise different labellings
        global BASE
        clean = None
        for sd in range(11, 40):
            cand = dict(BASE, data_seed=sd, rng_seed=sd, beta=[8.0, 2.0, 20.0][sd % 3])
            c = run_with_fault(cand, None)
            if c["error"] is None:
                t = looptrace.rounds_of(c)
                fits = [tuple(rr[1]) for rr in t["rounds"]]
                if len(fits) >= 3 and len(set(fits)) == len(fits):
                    BASE, clean = cand, c
                    break
        if clean is None:
            clean = run_with_fault(BASE, None)
        # joint front end and a repopulating run also pass through the fault machinery (coverage of their lines)
        jr = run_with_fault(dict(BASE, joint=True, lengths=[40, 35]), ("task", 0, 1))
        if jr["result"] is not None or not (jr["error"] or "").startswith("Injected") or jr["children_after"]:
            ctx.violation("monitor", "joint front end: injected task failure did not surface cleanly (%r)" % jr["error"], {"case": "joint task fault"})
        jr2 = run_with_fault(dict(BASE, joint=True, lengths=[40, 35]), ("task", 0, 1, "IndexError"))
        if jr2["result"] is not None or not ((jr2["error"] or "").startswith("IndexError") and "injected" in (jr2["error"] or "")) or jr2["children_after"]:
            ctx.violation("monitor", "joint front end: an IndexError raised by an optimisation task did not surface as itself (%r)" % jr2["error"],
                          {"case": "joint task fault of class IndexError"})
        jc = run_with_fault(dict(BASE, joint=True, lengths=[40, 35], limit=2), None)
        if jc["error"] is not None or jc["children_after"]:
            ctx.violation("monitor", "clean joint run failed or left a worker behind: %r" % jc["error"], {"case": "joint clean"})
        rr_ = run_with_fault({"N": 2, "W": 1, "K": 5, "beta": 30.0, "lengths": [60], "limit": 4, "m": 2, "data_seed": 4, "rng_seed": 4, "joint": False, "regimes": 2, "lam": 0.11}, ("phase", "relabel", 2))
        if rr_["result"] is not None and len(looptrace.rounds_of(rr_)["rounds"]) > 2:
            ctx.violation("monitor", "fault in relabel round 2 of a repopulating run returned a result", {"case": "repop fault"})
        if clean["error"] is not None:
            ctx.violation("tie", "the clean reference run fails: %s" % clean["error"], {"correspondence": "e2e:reference"}, no_input=True)
            return ctx.finish(RULE)
        ref = digest_result(clean)
        tr_clean = looptrace.rounds_of(clean)
        nrounds = len(tr_clean["rounds"])
        ctx.notes["reference_rounds"] = nrounds
        K = BASE["K"]
        faults = [("task", rd, k) for rd in range(min(3, nrounds)) for k in range(K)]
        faults += [("phase", ph, rd) for ph in ("statistics", "optimise", "relabel") for rd in range(min(3, nrounds))]
        faults += [("phase", "repopulate", rd) for rd in range(1, min(3, nrounds))]
        faults += [("post", rd, k) for rd in range(min(2, nrounds)) for k in (0, K - 1)]
        # task failures of built-in classes (what a broken dependency raises), through both front ends
        faults += [("task", 0, 1, "AttributeError"), ("task", 1, 0, "IndexError")]
        hung = {}
        modes = [(1, False), (2, True)] if not ctx.thorough else [(1, False), (1, True), (2, True), (3, True)]
        for (procs, mp) in modes:
            for fi, fault in enumerate(faults):
                if not ctx.thorough and mp and fi % 3 != 0:
                    continue
                case = {"cfg": BASE, "fault": list(fault), "procs": procs, "multiprocessing": mp}
                if hung.get(fault[0], 0) >= 2:
                    continue      # two calls with this kind of fault already hang: reported, no need to wait for the others
                r = run_with_fault(BASE, fault, procs, mp)
                ctx.count("fault:%s" % fault[0])
                hist["faults"] += 1
                hist["pool_modes"]["%d/%s" % (procs, mp)] = hist["pool_modes"].get("%d/%s" % (procs, mp), 0) + 1
                if (r["error"] or "").startswith("HANG"):
                    hung[fault[0]] = hung.get(fault[0], 0) + 1
                    ctx.violation("monitor", "the call with fault %s hangs" % (fault,), {"case": case})
                    continue
                if r["result"] is not None:
                    ctx.violation("monitor", "a result was returned although %s failed" % (fault,), {"case": case})
                    continue
                want_cls = fault[3] if len(fault) > 3 else "Injected"
                if not ((r["error"] or "").startswith(want_cls) and "injected" in (r["error"] or "")):
                    ctx.violation("monitor", "the injected error (%s) did not surface as itself: %r" % (want_cls, r["error"]), {"case": case})
                else:
                    hist["propagated"] += 1
                if r["children_after"] != 0:
                    ctx.violation("monitor", "%d worker process(es) still alive right after the failed call" % r["children_after"], {"case": case})
                if r["wall"] > 60:
                    ctx.violation("monitor", "failed call took %.0fs" % r["wall"], {"case": case})
                # intact rounds before the fault, as the model predicts
                tr = looptrace.rounds_of(r)
                done_rounds = sum(1 for rr in tr["rounds"] if rr[2] is not None)
                rd = fault[2] if fault[0] == "phase" else fault[1]
                if done_rounds != rd:
                    ctx.violation("monitor", "fault in round %d but %d rounds completed before the exception" % (rd, done_rounds), {"case": case})
                if rd >= 1 or fault[0] == "phase" and fault[1] != "statistics":
                    ctx.mark_nontrivial(repr(case))
                # model replay with the fault at the same point
                lin = tr_clean["rounds"][rd][0]
                lfit = tr_clean["rounds"][rd][1]
                fr = lin if fault == ("phase", "repopulate", rd) else None
                ff = lfit if fr is None else None
                rl = looptrace.replay_literal(BASE["limit"], tr_clean, fail_repop=fr, fail_fit=ff)
                if rl is not None and fault[0] in ("task", "post") or (fault[0] == "phase" and fault[1] in ("statistics", "optimise", "repopulate")):
                    if rl is not None:
                        replay_lits.append(rl)
                        meta.append((case, rd))
                # a clean call afterwards behaves as if the failed call had not happened
                if fi % 4 == 0 or (fault[0] == "task" and fault[2] < K - 1 and fi % 2 == 0):
                    again = run_with_fault(BASE, None)
                    if (again["error"] or "").startswith("HANG"):
                        ctx.violation("monitor", "the clean call that follows the failed call hangs", {"case": case})
                    elif digest_result(again) != ref:
                        ctx.violation("monitor", "a clean call after the failed call differs from a fresh run", {"case": case})
        # donor shortage: more clusters than the data can populate with this minimum size
        r = run_with_fault(dict(BASE, K=6, m=40, lengths=[60], limit=5, data_seed=3, rng_seed=3), None)
        ctx.count("no-donor")
        if r["result"] is not None:
            ctx.notes["no_donor_run_completed"] = True
        elif not r["error"].startswith("RuntimeError") or "donor" not in r["error"]:
            if not r["error"].startswith("AssertionError"):
                ctx.violation("monitor", "donor shortage surfaced as %r" % r["error"], {"case": "no-donor"})
        if r["children_after"] != 0:
            ctx.violation("monitor", "worker alive after the donor-shortage error", {"case": "no-donor"})
        # a donor shortage that is certain by counting, through BOTH front ends: the caller's minimum cluster size m makes a donor
        # impossible (2m exceeds the number of stacked points) and a probe run of one round (same seeds) shows that round 0 leaves a
        # cluster with fewer than two points - so round 1 must ask for a donor and the call must raise the RuntimeError
        for j, joint_ in enumerate([False, True, True]):
            lengths_ = [[64], [40, 33], [70]][j]
            W_ = [2, 3, 1][j]
            T_ = sum(t - W_ + 1 for t in lengths_)
            m_ = T_ // 2 + 3 + j
            cfg_ = dict(BASE, N=2, W=W_, K=3, beta=1e6, m=m_, lengths=lengths_, joint=joint_, data_seed=31 + j, rng_seed=31 + j, regimes=2)
            probe = run_with_fault(dict(cfg_, limit=1), None)
            ctx.count("certain-donor-shortage")
            if probe["result"] is None:
                continue
            labs = probe["result"]["point_labels"]
            flat = [x for l in labs for x in l] if joint_ else labs
            sizes_ = [sum(1 for x in flat if x == k) for k in range(3)]
            if min(sizes_) >= 2:
                continue
            ctx.mark_nontrivial(("certain-shortage", j))
            for mp_, procs_ in ((False, 1), (True, 2)):
                r2 = run_with_fault(dict(cfg_, limit=4), None, mp=mp_, procs=procs_)
                case_ = {"front_end": "joint" if joint_ else "single", "stacked_points": T_, "min_cluster_size": m_, "sizes_after_round_0": sizes_, "mp": mp_}
                if r2["result"] is not None:
                    ctx.violation("monitor", "no cluster can be a donor (2 * %d > %d points) and round 0 leaves cluster sizes %s, yet the %s front end returned a result"
                                  % (m_, T_, sizes_, case_["front_end"]), {"case": case_})
                elif not (r2["error"] or "").startswith("RuntimeError") or "donor" not in r2["error"]:
                    ctx.violation("monitor", "a certain donor shortage surfaced as %r through the %s front end" % (r2["error"], case_["front_end"]), {"case": case_})
                if r2["children_after"] != 0:
                    ctx.violation("monitor", "worker alive after the donor-shortage error", {"case": case_})
        # donor shortage at the repopulation entry point: whenever the donors cannot serve every under-populated cluster
        # (capacity sum(floor(size/m) - 1) over clusters with >= 2m points < number of clusters with < 2 points) the call
        # must raise the RuntimeError - for every such size vector with K <= 4, sizes 0..3m+2, m in {1, 2}
        import itertools
        from .c08 import run_impl
        nshort = 0
        for m_ in (1, 2):
            for K_ in range(1, 5):
                for sizes in itertools.product(range(3 * m_ + 3), repeat=K_):
                    under = sum(1 for s_ in sizes if s_ < 2)
                    cap = sum(s_ // m_ - 1 for s_ in sizes if s_ >= 2 * m_)
                    if sum(sizes) == 0 or under == 0 or cap >= under:
                        continue
                    labels = [k for k, s_ in enumerate(sizes) for _ in range(s_)]
                    nshort += 1
                    if not ctx.thorough and nshort % 3:
                        continue
                    ctx.count("donor-shortage")
                    try:
                        r_ = run_impl(K_, m_, labels, list(range(K_, 0, -1)), seed=nshort)
                    except Exception as e:  # noqa
                        ctx.violation("monitor", "donor shortage surfaces as %s: %s instead of the RuntimeError" % (type(e).__name__, e), {"K": K_, "m": m_, "sizes": list(sizes)})
                        continue
                    if r_["out"] is not None:
                        ctx.violation("monitor", "repopulation returned a labelling although the donors cannot serve all %d under-populated clusters (capacity %d)" % (under, cap),
                                      {"K": K_, "m": m_, "sizes": list(sizes)})
                    elif "donor" not in (r_["error"] or ""):
                        ctx.violation("monitor", "donor shortage error does not name the shortage: %r" % r_["error"], {"K": K_, "m": m_, "sizes": list(sizes)})
        # wrong front end
        x = np.random.default_rng(0).normal(size=(30, 2))
        for name, call, other in (("ticc_labels(list)", lambda: front_end.ticc_labels([x, x], window_size=2, num_clusters=2), "ticc_joint_labels"),
                                  ("ticc_joint_labels(array)", lambda: front_end.ticc_joint_labels(x, window_size=2, num_clusters=2), "ticc_labels")):
            ctx.count("wrong-front-end")
            try:
                call()
                ctx.violation("monitor", "%s returned a result" % name, {"case": name})
            except TypeError as e:
                if other not in str(e):
                    ctx.violation("monitor", "%s: TypeError does not name %s: %s" % (name, other, e), {"case": name})
            except Exception as e:  # noqa
                ctx.violation("monitor", "%s raised %s instead of TypeError" % (name, type(e).__name__), {"case": name})
            if multiprocessing.active_children():
                ctx.violation("monitor", "worker alive after %s" % name, {"case": name})
    ctx.coverage["distribution"] = hist
    core.anchored_check(ctx, ANCHORS, cov, ignore=("LOGGER.", "raise RuntimeError", "remaining_donors.pop()", "remaining_donors.pop(0)", "Unable to find", "min_cluster_size too high", "f\"{2 * min_cluster_size}"))
    ctx.sample({"fault": ["task", 1, 2], "cfg": BASE})
    jobs = []
    CH = 8
    for k in range(0, len(replay_lits), CH):
        jobs.append(("replay_%d" % (k // CH), "From Coq Require Import List Arith.\nImport ListNotations.\nFrom Ticc Require Import Model.MainLoop Corr.RunMainLoop.\n"
                     "Definition cases : list (%s) := [\n%s].\nDefinition answers := Eval vm_compute in (concat (map replay cases)).\nPrint answers.\n"
                     % (looptrace.REPLAY_TYPE, ";\n".join(replay_lits[k:k + CH]))))
    res = ctx.coq_eval_many(jobs) if jobs else []
    rep = []
    for (name, _), (ok, out) in zip(jobs, res):
        vals = coqfmt.parse_print_list(out) if ok else None
        if vals is None:
            ctx.violation("tie", "model evaluation failed for %s" % name, {"correspondence": "tie:MainLoop." + name, "log": out[-1500:]}, no_input=True)
            return ctx.finish(RULE)
        rep += vals
    for i, (case, rd) in enumerate(meta):
        kind, n, e, pool, h = rep[5 * i: 5 * i + 5]
        if (kind, n, pool) != (2, rd, 2):
            ctx.tie_mismatch("MainLoop.fault", "model predicts kind=%d intact_rounds=%d pool=%d for a fault in round %d" % (kind, n, pool, rd), {"case": case})
    ctx.count("model-replay", len(meta))
    return ctx.finish(RULE, level="proof")


def replay(ctx, data):
    c = data.get("detail", {}).get("case")
    if isinstance(c, dict) and "fault" in c:
        r = run_with_fault(c["cfg"], tuple(c["fault"]), c["procs"], c["multiprocessing"])
        print("replay: error=%r result=%s children=%d" % (r["error"], r["result"] is not None, r["children_after"]))
        return 1 if (r["result"] is not None or r["children_after"] or not (r["error"] or "").startswith("Injected")) else 0
    return run(ctx)
