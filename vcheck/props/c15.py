"""C15 - Numba acceleration is semantically transparent (partial: the Numba compiler is not modelled)."""
import hashlib

import numpy as np

from .. import core, e2e
from . import c01

ANCHORS = {"numba_guard.py": ["noop_decorator", "fake_njit", "fake_prange"],
           "likelihood.py": ["all_points_all_clusters_log_likelihood_fast", "point_log_likelihood_fast"],
           "cluster_label_assignment.py": ["assign_point_cluster_labels"]}
RULE = ("each execution mode (JIT compiled, JIT disabled, Numba not importable) in its own process against the same inputs: labelling kernel "
        "labels and cost bit for bit (all three also equal the binary64 Coq model, see C01); likelihood table bit for bit across thread "
        "counts 1/2/4/8/16 inside JIT mode and to 1e-12 relative across modes; kernel input layouts (C / Fortran order, non-contiguous "
        "views, read-only); complete front-end runs give the same labels in all modes; non-trivial = table with >= 2 points and clusters")


def ll_tables(payload):
    """worker: likelihood table kernel on each case, optionally in several input layouts"""
    from fast_ticc import likelihood as lk
    out = []
    for (W, K, mus, thetas, lds, data, layout) in payload:
        if layout == "F":
            data, thetas = np.asfortranarray(data), np.asfortranarray(thetas)
        elif layout == "view":
            big = np.zeros((data.shape[0] * 2, data.shape[1]))
            big[::2] = data
            data = big[::2]
        elif layout == "readonly":
            data = data.copy(); data.setflags(write=False)
        out.append(lk.all_points_all_clusters_log_likelihood_fast(W, K, mus, thetas, lds, data))
    return out


def e2e_labels(payload):
    import io, contextlib, random
    from fast_ticc import front_end
    out = []
    for (series, W, K, beta, joint, seed) in payload:
        np.random.seed(seed); random.seed(seed)
        try:
            with contextlib.redirect_stdout(io.StringIO()):
                if joint:
                    r = front_end.ticc_joint_labels([s.copy() for s in series], window_size=W, num_clusters=K, label_switching_cost=beta, iteration_limit=4, min_cluster_size=2)
                    out.append([list(map(int, l)) for l in r.point_labels])
                else:
                    r = front_end.ticc_labels(series[0].copy(), window_size=W, num_clusters=K, label_switching_cost=beta, iteration_limit=4, min_cluster_size=2)
                    out.append(list(map(int, r.point_labels)))
        except Exception as e:  # noqa
            out.append("ERR %s: %s" % (type(e).__name__, str(e)[:200]))
    return out


def guard_probe(payload):
    """worker (Numba blocked): the fallback decorators must pass arguments and keywords through"""
    from fast_ticc import numba_guard as ng
    @ng.njit(parallel=True)
    def f(a, b=2, *, c=3):
        return (a, b, c)
    return {"available": ng.NUMBA_AVAILABLE, "call": f(1, b=5, c=7), "prange": list(ng.prange(3)), "prange2": list(ng.prange(1, 4))}


def frozen_global_history(payload):
    """worker: label a table, call the one-argument function that rebinds the global with each candidate value, label again"""
    import importlib
    from fast_ticc import cluster_label_assignment as cla
    tab, site = payload["table"], payload["site"]
    mod = importlib.import_module("fast_ticc." + site["file"][:-3].replace("/", "."))
    out = []
    labels, cost = cla.assign_point_cluster_labels(tab, 2.0)
    out.append(("first call", [int(x) for x in labels], float(cost)))
    for setter in site["setters"]:
        for v in payload["values"]:
            try:
                getattr(mod, setter)(v)
            except Exception as e:  # noqa
                out.append(("%s(%r) raised %s" % (setter, v, type(e).__name__), None, None))
                continue
            labels, cost = cla.assign_point_cluster_labels(tab, 2.0)
            out.append(("after %s(%r)" % (setter, v), [int(x) for x in labels], float(cost)))
    return out


def run(ctx):
    rng = np.random.default_rng(ctx.seed)
    ctx.proof_layer(allowed_axioms=(), coq_deps=[], gen=["ng_prange", "ng_njit", "ng_noop"])
    core.note_drift(ctx, ANCHORS)
    # source-derived (regenerated on every run): no compiled function may read a module global that the module rebinds - the
    # compiler freezes the value at its first call, the interpreter does not
    from .. import inventory
    frozen = inventory.jit_frozen_globals()
    ctx.notes["jit_frozen_globals"] = frozen
    ctx.count("inventory:jit-frozen-globals")
    if frozen:
        ctx.violation("tie", "a Numba-compiled function reads a module-level name that another function rebinds (%s): compiled and interpreted "
                      "runs diverge once it is rebound after the first call" % ", ".join("%s:%s reads %s" % (f["file"], f["function"], f["global"]) for f in frozen[:4]),
                      {"correspondence": "inventory:jit-frozen-globals", "sites": frozen}, no_input=True)
        # search for the concrete history: the same sequence of calls (label, rebind through the module's own one-argument
        # function, label again) in a compiled and in an interpreted process
        tabh = np.random.default_rng(15).integers(0, 9, size=(12, 3)).astype(np.float64)
        for site in frozen[:3]:
            if not site["setters"]:
                continue
            pl = {"table": tabh, "site": site, "values": [0.5, 3.0, 0.0]}
            hh = {m: core.start_worker(ctx, "vcheck.props.c15:frozen_global_history", pl, mode=m, tag="frozen") for m in ("interp", "jit")}
            rr = {m: core.wait_worker(h, timeout=300) for m, h in hh.items()}
            if all(r["ok"] for r in rr.values()):
                for a, b in zip(rr["interp"]["result"], rr["jit"]["result"]):
                    if a != b:
                        ctx.violation("monitor", "labelling kernel, same calls in one process: %s the interpreted kernel returns cost %r, the compiled one %r"
                                      % (a[0], a[2], b[2]), {"case": {"history": [x[0] for x in rr["interp"]["result"]], "table": tabh.tolist(), "beta": 2.0,
                                                                      "module": site["file"], "rebinds": site["global"]}})
                        break
    cov = core.LineCoverage()
    with cov:
        # likelihood table kernel
        payload = []
        for i in range(ctx.budget(30, 150)):
            n = [1, 2, 4, 6, 12, 30][i % 6]; W = 1 if n in (1,) else 2; K = int(rng.integers(1, 5)); T = int(rng.integers(1, 40))
            thetas = []
            for k in range(K):
                A = rng.normal(size=(n, n)); thetas.append(A @ A.T / n + np.eye(n) * 0.2)
            thetas = np.array(thetas)
            mus = rng.normal(size=(K, n))
            lds = np.array([np.linalg.slogdet(t)[1] for t in thetas])
            data = rng.normal(size=(T, n)) * 2
            if i % 6 == 5 or i < 2:
                # held / stuck sensor readings: stretches of identical consecutive windows, many more points than threads
                T = 4000 + 37 * i
                data = rng.normal(size=(T, n)) * 2
                for start in range(50, T - 40, 230):
                    data[start:start + 25] = data[start]
            payload.append((W, K, mus, thetas, lds, data, ["C", "F", "view", "readonly"][i % 4]))
        handles = {"interp": core.start_worker(ctx, "vcheck.props.c15:ll_tables", payload, mode="interp", tag="ll"),
                   "nonumba": core.start_worker(ctx, "vcheck.props.c15:ll_tables", payload, mode="nonumba", tag="ll")}
        for th in (1, 2, 4, 8, 16):
            handles["jit%d" % th] = core.start_worker(ctx, "vcheck.props.c15:ll_tables", payload, mode="jit", extra_env={"NUMBA_NUM_THREADS": str(th)}, tag="ll%d" % th)
        # the kernels in-process (interpreted) for line coverage
        ll_tables(payload[:4])
        res = {k: core.wait_worker(h) for k, h in handles.items()}
        bad = [k for k, r in res.items() if not r["ok"]]
        for k in bad:
            ctx.violation("tie", "likelihood worker %s failed: %s" % (k, res[k]["error"][:300]), {"correspondence": "harness:C15/" + k}, no_input=True)
        if not bad:
            for i, case in enumerate(payload):
                ctx.count("ll-table")
                T, K = case[5].shape[0], case[1]
                if T >= 2 and K >= 2:
                    ctx.mark_nontrivial(("ll", i))
                ref = res["jit1"]["result"][i]
                desc = {"index": i, "seed": ctx.seed, "NW": case[5].shape[1], "T": T, "K": K, "layout": case[6]}
                for th in (2, 4, 8, 16):
                    if res["jit%d" % th]["result"][i].tobytes() != ref.tobytes():
                        ctx.violation("monitor", "likelihood table depends on the number of threads (1 vs %d)" % th, {"case": desc})
                for m in ("interp", "nonumba"):
                    o = res[m]["result"][i]
                    if o.shape != ref.shape or not np.allclose(o, ref, rtol=1e-12, atol=1e-12 * (1 + np.abs(ref).max())):
                        ctx.violation("monitor", "likelihood table differs between JIT and %s mode beyond rounding (max diff %.3g)" % (m, float(np.max(np.abs(o - ref)))), {"case": desc})
                if res["interp"]["result"][i].tobytes() != res["nonumba"]["result"][i].tobytes():
                    ctx.violation("monitor", "likelihood table differs between JIT-disabled and Numba-absent mode", {"case": desc})
        # labelling kernel across modes (bit for bit)
        cases = c01.gen_cases(rng, ctx.budget(200, 1000), 11, 4)
        # ... and with hundreds of clusters (ids beyond one byte), where a narrower successor table would behave differently
        # compiled (silent truncation) and interpreted (error)
        cases += c01.gen_many_clusters(rng, ctx.budget(10, 40))
        hk = {m: core.start_worker(ctx, "vcheck.props.c01:kernel_batch", cases, mode=m, tag="kern") for m in ("interp", "jit", "nonumba")}
        c01.kernel_batch(cases[:5])
        rk = {m: core.wait_worker(h) for m, h in hk.items()}
        if all(r["ok"] for r in rk.values()):
            for i, case in enumerate(cases):
                ctx.count("kernel")
                a = rk["interp"]["result"][i]
                for m in ("jit", "nonumba"):
                    b = rk[m]["result"][i]
                    if a[0] != b[0] or (a[0] != "ERR" and float(a[1]).hex() != float(b[1]).hex()):
                        ctx.violation("monitor", "labelling kernel differs between interpreted and %s mode" % m, {"case": c01.describe(case), "interp": str(a[:2]), m: str(b[:2])})
                if case["table"].shape[0] >= 2 and case["table"].shape[1] >= 2:
                    ctx.mark_nontrivial(case["table"].tobytes())
        else:
            for m, r in rk.items():
                if not r["ok"]:
                    ctx.violation("tie", "kernel worker %s failed: %s" % (m, r["error"][:300]), {"correspondence": "harness:C15.kernel/" + m}, no_input=True)
        # complete runs
        runs_payload = []
        for j in range(ctx.budget(4, 12)):
            W = [1, 2, 3][j % 3]; N = 1 + j % 2; joint = j % 3 == 2
            series = e2e.make_data({"N": N, "lengths": [50, 44][: 1 + joint], "data_seed": 70 + j, "regimes": 2 + j % 2})
            runs_payload.append((series, W, 2 + j % 2, [3.0, 0.0, 12.0][j % 3], joint, 70 + j))
        # ... and with switching costs at the edge of the float range - "never switch" (inf) as a number and at single pairs of a
        # per-pair vector, and 1e300: whatever a mode does with them (labels, or an error), every mode must do the same
        for j, bkind in enumerate(["inf", "inf-at-pairs", "1e300", "inf-at-pairs"][: ctx.budget(4, 4)]):
            W = [2, 1, 3, 2][j]; N = 1 + j % 2
            series = e2e.make_data({"N": N, "lengths": [48], "data_seed": 170 + j, "regimes": 2})
            T_ = 48 - W + 1
            if bkind == "inf":
                bval = float("inf")
            elif bkind == "1e300":
                bval = 1e300
            else:
                bval = np.full(T_, 2.0)
                bval[[5, T_ // 2, T_ - 3]] = np.inf
            runs_payload.append((series, W, 2, bval, False, 170 + j))
        he = {m: core.start_worker(ctx, "vcheck.props.c15:e2e_labels", runs_payload, mode=m, tag="e2e") for m in ("interp", "jit", "nonumba")}
        re_ = {m: core.wait_worker(h) for m, h in he.items()}
        if all(r["ok"] for r in re_.values()):
            for j in range(len(runs_payload)):
                ctx.count("complete-run")
                a = re_["interp"]["result"][j]
                for m in ("jit", "nonumba"):
                    if re_[m]["result"][j] != a:
                        ctx.violation("monitor", "complete run returns different labels in %s mode" % m, {"run": {"W": runs_payload[j][1], "K": runs_payload[j][2], "beta": (runs_payload[j][3] if not isinstance(runs_payload[j][3], np.ndarray) else "vector with inf at some pairs"), "joint": runs_payload[j][4], "seed": runs_payload[j][5]}})
        else:
            for m, r in re_.items():
                if not r["ok"]:
                    ctx.violation("tie", "end-to-end worker %s failed: %s" % (m, r["error"][:300]), {"correspondence": "harness:C15.e2e/" + m}, no_input=True)
        # the fallback decorators (Numba absent)
        g = core.run_worker(ctx, "vcheck.props.c15:guard_probe", None, mode="nonumba", tag="guard")
        if not g["ok"] or g["result"]["available"] or g["result"]["call"] != (1, 5, 7) or g["result"]["prange"] != [0, 1, 2] or g["result"]["prange2"] != [1, 2, 3]:
            ctx.violation("monitor", "fallback decorators of numba_guard do not pass arguments through: %s" % (g.get("result") or g.get("error")), {"probe": "numba_guard"})
        # in-process probe of the fallback functions for line coverage
        from fast_ticc import numba_guard as ng
        ng.noop_decorator(lambda *a, **k: (a, k))(1, x=2)
        ng.fake_njit(parallel=True)
        list(ng.fake_prange(2))
    core.anchored_check(ctx, ANCHORS, cov, ignore=("wrapper = noop_decorator", "return range(*args, **kwargs)"))
    ctx.sample({"ll-table case": {"NW": payload[0][5].shape[1], "T": payload[0][5].shape[0], "K": payload[0][1], "layout": payload[0][6]}})
    return ctx.finish(RULE)


def replay(ctx, data):
    return run(ctx)
