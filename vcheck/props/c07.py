"""C07 - jointly labelled series are independent across series boundaries."""
import itertools
from fractions import Fraction

import numpy as np

from .. import core, coqfmt, e2e
from ..core import c_nat, c_list
from .c01 import exact_cost, exact_dp, int_dp

ANCHORS = {"data_preparation.py": ["label_switching_cost_template", "stack_training_data_multiple_series"],
           "front_end.py": ["ticc_joint_labels"]}
R_AX = core.R_AX
RULE = ("(a) the mask helper on every tuple of 1..5 (thorough: 6) stacked lengths in 1..5 against the model and against the "
        "boundary-pair definition; (b) joint stacking = concatenation of the per-series stackings; (c) traced joint runs with 1..4 "
        "series: which switching-cost object reaches the labelling step, reported cost and labels against an exact-rational DP with "
        "boundary pairs free and with boundary pairs priced; (d) joint labelling of one series vs the single-series front end under "
        "equal RNG states, bit for bit; non-trivial = at least two series")

KNOWN_KEY = "joint-unmasked-beta"


def joint_cfgs(seed, thorough):
    rng = np.random.default_rng(seed + 707)
    cfgs = []
    for i in range(8 if not thorough else 24):
        ns = [2, 3, 4, 2][i % 4]
        W = [1, 2, 3][i % 3]
        cfgs.append({"N": 1 + i % 2, "W": W, "K": 2 + i % 2, "beta": [5.0, 40.0, 0.5, 200.0][i % 4], "lam": 0.11, "limit": [3, 30][i % 2],
                     "m": 2, "biased": False, "eps": 0, "joint": True, "lengths": [int(rng.integers(W + 12, W + 40)) for _ in range(ns)],
                     "data_seed": int(rng.integers(0, 10 ** 6)), "rng_seed": int(rng.integers(0, 10 ** 6)), "regimes": 2 + i % 2})
    return cfgs


def check_joint_run(ctx, r):
    cfg = r["cfg"]
    if r["error"] is not None:
        return
    lens = [T - cfg["W"] + 1 for T in cfg["lengths"]]
    ins = [e for e in r["events"] if e["event"] == "labelling_input"]
    outs = [e for e in r["events"] if e["event"] == "labelling_output"]
    if not ins or len(ins) != len(outs):
        ctx.violation("tie", "labelling events missing from a completed run", {"correspondence": "hook:H3", "cfg": cfg}, no_input=True)
        return
    table = ins[-1]["cost_table"]
    sc = ins[-1]["switching_cost"]
    labels = outs[-1]["labels"]
    reported = r["result"]["label_assignment_cost"]
    T = sum(lens)
    beta = float(cfg["beta"])
    boundaries = set(np.cumsum(lens)[:-1] - 1)
    masked = [0.0 if i in boundaries else beta for i in range(T)]
    priced = [beta] * T
    rows = table.tolist()
    case = {"cfg": cfg, "stacked_lengths": lens}
    # which object reached the kernel
    if sc["kind"] == "ndarray":
        got = [float(x) for x in sc["value"]]
        mech = "masked" if got == masked else ("scalar-as-vector" if got == priced else "other")
    else:
        mech = "scalar" if float(sc["value"]) == beta else "other"
    if len(lens) == 1:
        if mech == "other":
            ctx.violation("monitor", "single-series joint run: unexpected switching cost at the labelling step", {"case": case, "seen": str(sc["value"])[:200]})
        return
    ctx.mark_nontrivial(repr(cfg))
    M = float(np.sum(np.abs(table)) + sum(priced))
    slack = Fraction(64 * T * M * 2.0 ** -52)
    free_opt, _ = exact_dp(rows, masked)
    free_cost = exact_cost(rows, masked, labels)
    priced_opt, _ = exact_dp(rows, priced)
    priced_cost = exact_cost(rows, priced, labels)
    prop_ok = (free_cost - free_opt <= slack) and abs(Fraction(reported) - free_cost) <= slack
    if mech == "masked" and prop_ok:
        return
    if mech in ("scalar", "scalar-as-vector") and beta > 0:
        faithful = (priced_cost - priced_opt <= slack) and abs(Fraction(reported) - priced_cost) <= slack
        if faithful:
            npairs = sum(1 for i in boundaries if labels[i] != labels[i + 1])
            ctx.finding(KNOWN_KEY, "joint run prices the %d boundary pair(s) at beta=%g: the scalar switching cost reaches the labelling step "
                        "(reported %.6f, within-series cost of the returned labels %.6f, differing boundary pairs %d, free-boundary optimum %.6f)"
                        % (len(boundaries), beta, reported, float(free_cost), npairs, float(free_opt)),
                        {"case": case, "mechanism": mech, "reported": reported, "free_cost": str(free_cost), "free_opt": str(free_opt)})
            ctx.notes.setdefault("known_runs", 0)
            ctx.notes["known_runs"] += 1
            if not prop_ok:
                ctx.notes.setdefault("known_runs_with_observable_deviation", 0)
                ctx.notes["known_runs_with_observable_deviation"] += 1
            return
    if beta == 0 and prop_ok:
        return
    ctx.violation("monitor", "joint run: cost/labels are explained neither by free boundaries nor by the known scalar pricing "
                  "(mechanism=%s reported=%r free_cost=%s free_opt=%s priced_cost=%s priced_opt=%s)"
                  % (mech, reported, float(free_cost), float(free_opt), float(priced_cost), float(priced_opt)), {"case": case})


def run(ctx):
    from fast_ticc import data_preparation as dp
    rng = np.random.default_rng(ctx.seed)
    ctx.proof_layer(allowed_axioms=R_AX, coq_deps=["Corr/RunStacking"], gen=["data_preparation", "front_joint"])
    core.note_drift(ctx, ANCHORS)
    cov = core.LineCoverage()
    tuples, hashes = [], []
    with cov:
        # (a) mask helper, exhaustive
        for ns in range(1, (7 if ctx.thorough else 6)):
            for lens in itertools.product(range(1, 6), repeat=ns):
                lens = list(lens)
                h = -1
                with ctx.guard("label_switching_cost_template", {"lens": lens}):
                    t = dp.label_switching_cost_template(list(lens))
                    h = coqfmt.hashN([1 if x == 1.0 else 0 for x in t])
                    want = np.ones(sum(lens))
                    for e in np.cumsum(lens)[:-1]:
                        want[e - 1] = 0
                    if t.shape != want.shape or not np.array_equal(t, want):
                        ctx.violation("monitor", "mask zeros are not exactly the boundary pairs", {"lens": lens, "mask": [float(x) for x in t]})
                tuples.append(lens)
                hashes.append(h)
                ctx.count("mask")
                if ns >= 2:
                    ctx.mark_nontrivial(("mask", tuple(lens)))
        ctx.notes["exhaustive"] = True
        # (b) joint stacking never mixes series
        for _ in range(40):
            W = int(rng.integers(1, 6)); N = int(rng.integers(1, 4)); ns = int(rng.integers(1, 5))
            series = [rng.normal(size=(int(rng.integers(W, W + 15)), N)) for _ in range(ns)]
            with ctx.guard("stack_training_data_multiple_series", {"W": W, "N": N, "lengths": [len(s) for s in series]}):
                out = dp.stack_training_data_multiple_series(series, W)
                ref = np.vstack([dp.stack_training_data(s, W) for s in series])
                if out.shape != ref.shape or not np.array_equal(out, ref):
                    ctx.violation("monitor", "a stacked window mixes rows of two series", {"W": W, "lengths": [len(s) for s in series]})
                # the next call holds the same rows split differently (same total, same number of series, same W)
                for other in (series[::-1], series[1:] + series[:1]):
                    out2 = dp.stack_training_data_multiple_series(other, W)
                    ref2 = np.vstack([dp.stack_training_data(s, W) for s in other])
                    if out2.shape != ref2.shape or not np.array_equal(out2, ref2):
                        ctx.violation("monitor", "a stacked window mixes rows of two series when the same series are stacked again in another order",
                                      {"W": W, "first_call_lengths": [len(s) for s in series], "second_call_lengths": [len(s) for s in other]})
                        break
            ctx.count("stack")
        # (b') the series are views into ONE recording (devices interleaved row by row, or side by side in the columns):
        # judged by definition on identity-tagged cells - cell (i, j*N + c) of the block of series k must be row i+j of series k
        for rep in range(ctx.budget(24, 120)):
            W = int(rng.integers(1, 6)); N = int(rng.integers(1, 4)); ns = int(rng.integers(2, 5)); L = int(rng.integers(W, W + 9))
            kind = ["interleaved", "side-by-side", "every-other-row"][rep % 3]
            tag = lambda k, r, c: float(k * 1000000 + r * 1000 + c)   # noqa: E731
            if kind == "interleaved":
                recb = np.empty((L * ns, N))
                for k in range(ns):
                    for r in range(L):
                        recb[r * ns + k] = [tag(k, r, c) for c in range(N)]
                series = [recb[k::ns] for k in range(ns)]
            elif kind == "side-by-side":
                recb = np.empty((L, N * ns))
                for k in range(ns):
                    for r in range(L):
                        recb[r, k * N:(k + 1) * N] = [tag(k, r, c) for c in range(N)]
                series = [recb[:, k * N:(k + 1) * N] for k in range(ns)]
            else:
                recb = np.full((2 * L * ns, N), -1.0)
                for k in range(ns):
                    for r in range(L):
                        recb[2 * (k * L + r)] = [tag(k, r, c) for c in range(N)]
                series = [recb[2 * k * L:2 * (k + 1) * L:2] for k in range(ns)]
            case = {"W": W, "N": N, "series": ns, "rows": L, "views": kind}
            with ctx.guard("stack_training_data_multiple_series (views of one recording)", case):
                out = dp.stack_training_data_multiple_series(series, W)
                rows_per = L - W + 1
                bad = None
                if out.shape != (ns * rows_per, N * W):
                    bad = "shape %s" % (out.shape,)
                else:
                    for k in range(ns):
                        for i in range(rows_per):
                            for j in range(W):
                                for c in range(N):
                                    if out[k * rows_per + i, j * N + c] != tag(k, i + j, c):
                                        bad = bad or "window %d of series %d holds %r where row %d of that series belongs" % (i, k, float(out[k * rows_per + i, j * N + c]), i + j)
                if bad:
                    ctx.violation("monitor", "a stacked window mixes rows of two series (series given as %s views of one recording): %s" % (kind, bad), {"case": case})
            ctx.count("stack-views")
        # the labelling step given beta * mask: labels and reported cost must be those of labelling every series on its own
        # (what C07_masked_is_separable says about the model), on small integer tables (exact)
        from fast_ticc.cluster_label_assignment import assign_point_cluster_labels as kernel
        for i in range(ctx.budget(150, 800)):
            ns = int(rng.integers(2, 5)); K = int(rng.integers(2, 4))
            lens = [int(rng.integers(1, 5)) for _ in range(ns)]
            T = sum(lens)
            tab = rng.integers(-4, 5, size=(T, K)).astype(float)
            beta = float(rng.integers(0, 7))
            mask = dp.label_switching_cost_template(list(lens))
            case = {"lens": lens, "beta": beta, "table": tab.astype(int).tolist()}
            ctx.count("masked-kernel")
            ctx.mark_nontrivial(("mk", i))
            with ctx.guard("assign_point_cluster_labels(beta * mask)", case):
                labels, cost = kernel(label_assignment_cost=tab, label_switching_cost=beta * mask)
                labels = [int(x) for x in labels]
                want = Fraction(0)
                pos = 0
                for n in lens:
                    o, _ = exact_dp(tab[pos:pos + n].tolist(), [beta] * n)
                    want += o
                    pos += n
                within = [0.0 if m == 0 else beta for m in mask]
                got = exact_cost(tab.tolist(), within, labels)
                if got != want:
                    ctx.violation("monitor", "labelling with the masked switching cost is not the per-series optimum (%s vs %s)" % (float(got), float(want)), {"case": case, "labels": labels})
                if Fraction(float(cost)) != got:
                    ctx.violation("monitor", "reported cost %r is not assignment cost + within-series switching cost %s of the returned labels" % (float(cost), float(got)), {"case": case, "labels": labels})
        # the same with hundreds of clusters (ids beyond one byte): integer tables, optimum by an exact int64 recursion per series
        for i in range(ctx.budget(6, 30)):
            ns = int(rng.integers(2, 4)); K = int(rng.choice([257, 300, 400, 520]))
            lens = [int(rng.integers(2, 6)) for _ in range(ns)]
            T = sum(lens)
            tab = rng.integers(0, 50, size=(T, K)).astype(float)
            # make the high-numbered clusters attractive so that optimal paths live there
            tab[:, 256:] -= 30.0
            beta = float(rng.integers(1, 40))
            mask = dp.label_switching_cost_template(list(lens))
            case = {"lens": lens, "beta": beta, "K": K, "table": "integers in [0,50), columns >= 256 lowered by 30, seed %d case %d" % (ctx.seed, i)}
            ctx.count("masked-kernel-many-clusters")
            with ctx.guard("assign_point_cluster_labels(beta * mask), hundreds of clusters", case):
                labels, cost = kernel(label_assignment_cost=tab, label_switching_cost=beta * mask)
                labels = [int(x) for x in labels]
                want = Fraction(0)
                pos = 0
                for n in lens:
                    want += int_dp(tab[pos:pos + n], [beta] * n)
                    pos += n
                within = [0.0 if m == 0 else beta for m in mask]
                got = exact_cost(tab.tolist(), within, labels)
                if got != want:
                    ctx.violation("monitor", "with %d clusters the labelling under the masked switching cost is not the per-series optimum (%s vs %s)" % (K, float(got), float(want)),
                                  {"case": case, "labels": labels})
                if Fraction(float(cost)) != got:
                    ctx.violation("monitor", "with %d clusters the reported cost %r is not the cost %s of the returned labels" % (K, float(cost), float(got)), {"case": case, "labels": labels})
        # (c) traced joint runs
        runs = e2e.cached_runs(ctx, joint_cfgs(ctx.seed, ctx.thorough), "c07") + \
            [r for r in e2e.cached_runs(ctx, e2e.standard_grid(ctx.seed, ctx.thorough), "std") if r["cfg"].get("joint")]
        small = {"N": 1, "W": 2, "K": 2, "beta": 3.0, "lengths": [25, 20], "limit": 2, "m": 1, "data_seed": 3, "rng_seed": 3, "joint": True, "regimes": 2}
        runs.append(e2e.traced_run(small))
        for r in runs:
            ctx.count("joint-run")
            check_joint_run(ctx, r)
        # (d) joint-of-one == single
        for i in range(ctx.budget(8, 16)):
            # every residue of W modulo 4 (the margin is (W-1)//2 at the front, the rest at the back), odd and even, up to 12
            base = {"N": 1 + i % 2, "W": [1, 2, 3, 4, 5, 8, 6, 12, 7, 9, 10, 11, 4, 8, 12, 2][i], "K": 2 + i % 2, "beta": [4.0, 0.0, 25.0][i % 3], "lengths": [44 + 3 * i], "limit": 3, "m": 2,
                    "data_seed": 50 + i, "rng_seed": 9 + i, "regimes": 2,
                    # every option of the two front ends takes a non-default value in some of the runs (each must reach the fit
                    # the same way through both)
                    "biased": i % 2 == 1, "eps": [0, 1e-3, 0][i % 3], "lam": [0.11, 0.3, 0.05][(i // 2) % 3], "m": [2, 3, 5][(i // 3) % 3],
                    "procs": [1, 2][(i // 4) % 2]}
            a = e2e.traced_run(dict(base, joint=False))
            b = e2e.traced_run(dict(base, joint=True))
            ctx.count("joint-of-one")
            if (a["error"] is None) != (b["error"] is None):
                ctx.violation("monitor", "joint labelling of one series and the single-series front end differ in completion", {"cfg": base, "single": a["error"], "joint": b["error"]})
                continue
            if a["error"] is not None:
                continue
            ra, rb = a["result"], b["result"]
            same = (rb["point_labels"] == [ra["point_labels"]] and float(ra["label_assignment_cost"]).hex() == float(rb["label_assignment_cost"]).hex()
                    and all(x.tobytes() == y.tobytes() for x, y in zip(ra["markov_random_fields"], rb["markov_random_fields"]))
                    and ra["all_log_likelihood"] == rb["all_log_likelihood"] and float(ra["bic"]).hex() == float(rb["bic"]).hex())
            if not same:
                ctx.violation("monitor", "joint labelling of a single series differs from the single-series front end", {"cfg": base})
    core.anchored_check(ctx, ANCHORS, cov, ignore=("raise TypeError", "not_a_list_of_numpy_arrays"))
    ctx.sample({"lens": tuples[7]})
    ctx.sample({"joint cfg": runs[0]["cfg"]})
    # model side of (a)
    jobs = []
    CH = 700
    for k in range(0, len(tuples), CH):
        jobs.append(("tmpl_%d" % (k // CH), coqfmt.cases_file("From Ticc Require Import Corr.RunStacking.", "list nat",
                     [c_list(l, c_nat) for l in tuples[k:k + CH]], "run_template")))
    res = ctx.coq_eval_many(jobs)
    model = []
    for (name, _), (ok, out) in zip(jobs, res):
        vals = coqfmt.parse_print_list(out) if ok else None
        if vals is None:
            ctx.violation("tie", "model evaluation failed for %s" % name, {"correspondence": "tie:Stacking.template", "log": out[-1500:]}, no_input=True)
            return ctx.finish(RULE)
        model += vals
    for l, a, b in zip(tuples, model, hashes):
        if a != b:
            ctx.tie_mismatch("Stacking.template", "model and implementation disagree on the mask for lengths %s" % l, {"lens": l})
            break
    return ctx.finish(RULE)


def replay(ctx, data):
    d = data.get("detail", {})
    cfg = (d.get("case") or {}).get("cfg")
    if cfg:
        r = e2e.traced_run(cfg)
        check_joint_run(ctx, r)
        for v in ctx.violations:
            print("replay:", v["what"])
        return 1 if ctx.violations else 0
    print("replay: re-running the check")
    return run(ctx)
