"""C05 - reported log-likelihoods are exact Gaussian log-densities (partial)."""
import math
import re

import numpy as np

from .. import core, e2e
from ..core import c_float, c_nat

ANCHORS = {"likelihood.py": ["point_log_likelihood_fast", "point_log_likelihood", "all_points_all_clusters_log_likelihood_fast",
                             "all_points_all_clusters_log_likelihood"],
           "main_loop.py": ["_compute_log_likelihood_by_cluster"]}
RULE = ("(a) the formula, bit for bit: point_log_likelihood_fast against the binary64 model with the implementation's own quadratic form, "
        "log-det and log(2 pi) as oracle inputs; (b) plumbing: tables from clusters with distinct per-cluster tags; (c) independent density "
        "(long-double Cholesky / scipy logpdf) for SPD precisions with NW in {1,2,5,40,100,200} and log-determinants in [-3000,3000], "
        "interpreted and JIT-compiled kernels; (d) every table and every reported per-point value of the traced runs recomputed from the "
        "model state; non-trivial = NW >= 2")


def independent_logpdf(x, mu, theta):
    """log N(x; mu, theta^-1) in long double via Cholesky of theta"""
    L = np.linalg.cholesky(theta).astype(np.longdouble)
    ld = 2 * np.sum(np.log(np.diag(L)))
    d = (x - mu).astype(np.longdouble)
    y = L.T @ d
    q = y @ y
    n = len(x)
    return float(0.5 * (ld - q - n * np.log(np.longdouble(2) * np.longdouble(math.pi))))


def kernel_values(payload):
    """worker: point_log_likelihood_fast and the table kernel on each case"""
    from fast_ticc import likelihood as lk
    out = []
    for (x, mu, theta, ld, W, N) in payload:
        v = lk.point_log_likelihood_fast(x, mu, theta, ld, W, N)
        step = float(np.max(np.abs(x - mu))) + 1e-300          # cluster 1 / point 2 are shifted by about one spread
        tab = lk.all_points_all_clusters_log_likelihood_fast(W, 2, np.array([mu, mu + step]), np.array([theta, theta * 2.0]),
                                                             np.array([ld, ld + len(x) * math.log(2.0)]), np.array([x, mu, x + 0.5 * step]))
        out.append((float(v), tab))
    return out


def random_spd(rng, n, target_logdet):
    Q, _ = np.linalg.qr(rng.normal(size=(n, n)))
    e = 10.0 ** rng.uniform(-1, 1, size=n)
    e *= math.exp((target_logdet - np.sum(np.log(e))) / n)
    M = (Q * e) @ Q.T
    return (M + M.T) / 2


def run(ctx):
    from fast_ticc import likelihood as lk
    from fast_ticc.containers import model_state, arguments
    rng = np.random.default_rng(ctx.seed)
    ctx.proof_layer(allowed_axioms=core.R_AX, coq_deps=["Corr/RunAccounting"], gen=["likelihood", "ll_point", "ll_table"])
    core.note_drift(ctx, ANCHORS)
    cov = core.LineCoverage()
    lits, meta = [], []
    payload = []
    with cov:
        for i in range(ctx.budget(60, 300)):
            n = [1, 2, 5, 40, 100, 200][i % 6] if (ctx.thorough or i % 6 < 4 or i < 12) else [1, 2, 5, 40][i % 4]
            W = 1 if n in (1, 5) else 2
            N = n // W
            tl = float(rng.uniform(-3000, 3000)) if i % 3 else float(rng.uniform(-20, 20))
            tl = float(np.clip(tl, -300.0 * n, 300.0 * n))   # keep the entries themselves inside the double range
            theta = random_spd(rng, n, tl)
            sc = math.exp(-tl / (2 * n))
            mu = rng.normal(size=n) * sc
            if i % 5 == 4:
                mu = mu + sc * [1e4, 1e6, 1e8][(i // 5) % 3]      # sensor values with a large offset relative to their spread
            x = mu + rng.normal(size=n) * sc * [1.0, 3.0, 0.1][i % 3]
            ld = np.linalg.slogdet(theta)[1]
            case = {"n": n, "target_logdet": tl}
            ctx.count("formula")
            if n >= 2:
                ctx.mark_nontrivial((n, i))
            with ctx.guard("point_log_likelihood_fast", case):
                v = lk.point_log_likelihood_fast(x, mu, theta, ld, W, N)
                d = x - mu
                q = d.T @ theta @ d
                lits.append("(%s, %s, %s, %s, %s)" % (c_float(ld), c_float(q), c_nat(n), c_float(np.log(2 * math.pi)), c_float(v)))
                meta.append(case)
                ref = independent_logpdf(x, mu, theta)
                if not np.isfinite(v) or abs(v - ref) > 1e-9 * max(1.0, abs(ref)) + 1e-7 * abs(q):
                    ctx.violation("monitor", "log-likelihood %r is not the Gaussian log-density %r (NW=%d, logdet=%.1f)" % (float(v), ref, n, ld), {"case": case, "seed": ctx.seed, "index": i})
                payload.append((x, mu, theta, ld, W, N))
        # the table entry point on a model whose determinants leave the double range
        for n, tl in ((100, -2500.0), (200, 2800.0), (40, -1500.0)):
            ua = arguments.UserArguments(sparsity_weight=0.1, iteration_limit=1, label_switching_cost=1.0, min_cluster_size=1,
                                         min_meaningful_covariance=0, num_clusters=2, num_processors=1, biased_covariance=False, window_size=2)
            data = rng.normal(size=(4, n)) * math.exp(-tl / (2 * n))
            ms = model_state.ModelState.empty_model(ua, data)
            for k, c in enumerate(ms.clusters):
                c.train_inverse = random_spd(rng, n, tl + 5 * k)
                c.stacked_data_mean = data[k] * 0.5
            ctx.count("table-entry-point")
            ctx.mark_nontrivial(("big", n, tl))
            with ctx.guard("all_points_all_clusters_log_likelihood", {"n": n, "logdet": tl}):
                tab = lk.all_points_all_clusters_log_likelihood(ms, data)
                for p in range(4):
                    for k, c in enumerate(ms.clusters):
                        ref = independent_logpdf(data[p], c.stacked_data_mean, c.train_inverse)
                        if not np.isfinite(tab[p, k]) or abs(tab[p, k] - ref) > 1e-8 * max(1.0, abs(ref)):
                            ctx.violation("monitor", "table entry %r for NW=%d, log-det %.0f is not the finite log-density %r" % (float(tab[p, k]), n, tl, ref),
                                          {"n": n, "logdet": tl, "seed": ctx.seed})
        # tables of many thousand points (more than the usual block sizes of vectorised code): every row must be scored
        for Tn in ([4097, 6146] + ([10001, 66000] if ctx.thorough else [])):
            n = 2
            ua = arguments.UserArguments(sparsity_weight=0.1, iteration_limit=1, label_switching_cost=1.0, min_cluster_size=1,
                                         min_meaningful_covariance=0, num_clusters=3, num_processors=1, biased_covariance=False, window_size=1)
            data = rng.normal(size=(Tn, n)) * 2.0 + 1.0
            ms = model_state.ModelState.empty_model(ua, data)
            for k, c in enumerate(ms.clusters):
                a = rng.normal(size=(n + 3, n))
                c.train_inverse = a.T @ a / (n + 3) + 0.3 * (k + 1) * np.eye(n)
                c.stacked_data_mean = rng.normal(size=n) + k
            ctx.count("table-large")
            ctx.mark_nontrivial(("table-large", Tn))
            with ctx.guard("all_points_all_clusters_log_likelihood", {"points": Tn}):
                tab = lk.all_points_all_clusters_log_likelihood(ms, data)
                if tab.shape != (Tn, 3):
                    ctx.violation("monitor", "table of %d points has shape %s" % (Tn, tab.shape), {"points": Tn})
                    continue
                for k, c in enumerate(ms.clusters):
                    d = data - c.stacked_data_mean
                    q = np.einsum("ij,jk,ik->i", d, c.train_inverse, d)
                    ref = 0.5 * (np.linalg.slogdet(c.train_inverse)[1] - q - n * np.log(2 * np.pi))
                    bad = np.nonzero(~np.isclose(tab[:, k], ref, rtol=1e-9, atol=1e-9))[0]
                    if len(bad):
                        ctx.violation("monitor", "table of %d points: entry (%d,%d) is %r, the log-density is %r (%d entries of this column are wrong)"
                                      % (Tn, int(bad[0]), k, float(tab[bad[0], k]), float(ref[bad[0]]), len(bad)), {"points": Tn, "seed": ctx.seed})
                        break
        # the per-point values of the RESULT (main_loop._compute_log_likelihood_by_cluster) on fitted states whose MRFs are
        # ill-conditioned (sensors in very different units: eigenvalues spread over up to 12 orders of magnitude) or have
        # determinants outside the double range: one value per labelled point, the log-density under the point's own cluster
        from fast_ticc import main_loop as ml
        for j in range(ctx.budget(10, 40)):
            n = [2, 3, 6, 40][j % 4]
            Wc = 1 if n in (3,) else 2
            spread = [0.0, 4.0, 9.0, 12.0][j % 4]
            ua = arguments.UserArguments(sparsity_weight=0.1, iteration_limit=1, label_switching_cost=1.0, min_cluster_size=1,
                                         min_meaningful_covariance=0, num_clusters=3, num_processors=1, biased_covariance=False, window_size=Wc)
            qmat, _ = np.linalg.qr(rng.normal(size=(n, n)))
            ev = 10.0 ** (np.linspace(-spread / 2, spread / 2, n) + (rng.uniform(-2.5, 2.5) if j % 5 else 0.0))
            thetas = []
            for k in range(3):
                th = (qmat * (ev * (1.0 + 0.3 * k))) @ qmat.T
                thetas.append((th + th.T) / 2)
            sd = 1.0 / np.sqrt(ev)
            mus = [(qmat @ (rng.normal(size=n) * sd)) for _ in range(3)]
            npts = 9
            labels = [0, 0, 0, 1, 1, 2, 2, 2, 0][:npts] if j % 3 else [0, 0, 0, 0, 1, 1, 1, 1, 1]
            data = np.array([mus[l] + qmat @ (rng.normal(size=n) * sd) for l in labels])
            ms = model_state.ModelState.empty_model(ua, data)
            ms.point_labels = list(labels)
            for k, c in enumerate(ms.clusters):
                c.train_inverse = thetas[k]
                c.inverse_covariance = thetas[k]
                c.computed_covariance = np.linalg.inv(thetas[k])
                c.empirical_covariance = c.computed_covariance
                c.stacked_data_mean = mus[k]
                c.log_determinant = float(np.linalg.slogdet(thetas[k])[1])
            case = {"NW": n, "eigenvalue_spread_decades": spread, "labels": labels, "seed": ctx.seed, "index": j}
            ctx.count("result-values")
            ctx.mark_nontrivial(("rv", j))
            with ctx.guard("_compute_log_likelihood_by_cluster", case):
                per = ml._compute_log_likelihood_by_cluster(data, ms)
                if len(per) != 3 or [len(x) for x in per] != [labels.count(k) for k in range(3)]:
                    ctx.violation("monitor", "per-cluster value lists have lengths %s for cluster sizes %s" % ([len(x) for x in per], [labels.count(k) for k in range(3)]), {"case": case})
                    continue
                for k in range(3):
                    pts = [i for i, l in enumerate(labels) if l == k]
                    for v, pidx in zip(per[k], pts):
                        ref = independent_logpdf(data[pidx], mus[k], thetas[k])
                        dd = data[pidx] - mus[k]
                        # forward error bound of the double-precision quadratic form: ~ n eps |Theta| |d|^2 (large when the
                        # MRF is ill-conditioned; it is the accuracy any binary64 evaluation of the formula can have)
                        qbound = 8.0 * n * 2.0 ** -52 * float(ev.max() * (1.0 + 0.3 * k)) * float(dd @ dd)
                        if not np.isfinite(v) or abs(float(v) - ref) > 1e-8 * max(1.0, abs(ref)) + qbound:
                            ctx.violation("monitor", "reported value %r of point %d is not its log-density %r under its own cluster %d (MRF eigenvalues over %g decades)"
                                          % (float(v), pidx, ref, k, spread), {"case": case})
                            break
        # execution modes
        res = {m: core.run_worker(ctx, "vcheck.props.c05:kernel_values", payload[:40], mode=m, tag="ll") for m in ("interp", "jit")}
        if all(r["ok"] for r in res.values()):
            for i, (a, b) in enumerate(zip(res["interp"]["result"], res["jit"]["result"])):
                ctx.count("modes")
                x, mu, theta, ld, W, N = payload[i]
                ref = independent_logpdf(x, mu, theta)
                tol = 1e-9 * max(1.0, abs(ref)) + 1e-7 * abs(float((x - mu) @ theta @ (x - mu)))
                if abs(a[0] - ref) > tol or abs(b[0] - ref) > tol:
                    ctx.violation("monitor", "kernel value differs from the log-density (interp %r, jit %r, ref %r)" % (a[0], b[0], ref), {"index": i, "seed": ctx.seed})
                if a[1].shape != (3, 2) or b[1].shape != (3, 2) or not np.allclose(a[1], b[1], rtol=1e-10, atol=1e-8):
                    ctx.violation("monitor", "table kernel differs between interpreted and JIT mode", {"index": i, "seed": ctx.seed})
                # plumbing: cell (p, c) = point p under cluster c
                step = float(np.max(np.abs(x - mu))) + 1e-300
                pts = [x, mu, x + 0.5 * step]
                for p in range(3):
                    for c in range(2):
                        refpc = independent_logpdf(pts[p], mu + c * step, theta * (1.0 + c))
                        if abs(a[1][p, c] - refpc) > 1e-8 * max(1.0, abs(refpc)) + 1e-6 * abs(ref):
                            ctx.violation("monitor", "table cell (%d,%d) is not point %d under cluster %d" % (p, c, p, c), {"index": i, "seed": ctx.seed})
        else:
            for m, r in res.items():
                if not r["ok"]:
                    ctx.violation("tie", "likelihood worker failed in mode %s: %s" % (m, r["error"][:300]), {"correspondence": "harness:C05/" + m}, no_input=True)
        # (d) traced runs
        runs = e2e.cached_runs(ctx, e2e.standard_grid(ctx.seed, ctx.thorough), "std")
        runs.append(e2e.traced_run({"N": 2, "W": 2, "K": 2, "beta": 1.0, "lengths": [30], "limit": 2, "m": 1, "data_seed": 1, "rng_seed": 1, "joint": False}))
        # sensor readings with a large constant offset (e.g. time stamps, absolute pressures)
        runs += e2e.cached_runs(ctx, [{"N": 2, "W": 2, "K": 2, "beta": 2.0, "lam": 0.11, "limit": 3, "m": 2, "biased": False, "eps": 0, "joint": False,
                                       "lengths": [60], "data_seed": 31 + j, "rng_seed": 31 + j, "regimes": 2, "offset": off} for j, off in enumerate([1e5, 1e7])] +
                               [{"N": 3, "W": [1, 2][j], "K": 2, "beta": 2.0, "lam": 0.11, "limit": 3, "m": 2, "biased": False, "eps": 0, "joint": False,
                                 "lengths": [80], "data_seed": 41 + j, "rng_seed": 41 + j, "regimes": 2, "col_scales": sc}
                                for j, sc in enumerate([[1e-2, 1.0, 1e5], [1e4, 1e-3, 1.0]])], "c05")
        from fast_ticc import data_preparation as dp
        for r in runs:
            ctx.count("run")
            if r["error"] is not None:
                continue
            cfg = r["cfg"]
            W = cfg["W"]
            stacked = np.vstack([dp.stack_training_data(s, W) for s in r["series"]])
            li = [e for e in r["events"] if e["event"] == "labelling_input"]
            for e in li[-2:]:
                st = e["model"]
                tab = -e["cost_table"]
                for k, c in enumerate(st["clusters"]):
                    for p in range(0, stacked.shape[0], max(1, stacked.shape[0] // 7)):
                        ref = independent_logpdf(stacked[p], c["stacked_data_mean"], c["train_inverse"])
                        if abs(tab[p, k] - ref) > 1e-8 * max(1.0, abs(ref)):
                            ctx.violation("monitor", "table entry (%d,%d) of a traced run is not the log-density under the cluster's mean and MRF" % (p, k), {"cfg": cfg})
                            break
            fin = [e for e in r["events"] if e["event"] == "final"][0]["state"]
            labels = fin["labels"]
            vals = []
            for k in range(cfg["K"]):
                for p in [i for i, l in enumerate(labels) if l == k]:
                    c = fin["clusters"][k]
                    vals.append(independent_logpdf(stacked[p], c["stacked_data_mean"], c["train_inverse"]))
            got = r["result"]["all_log_likelihood"]
            if len(got) != len(vals) or not np.allclose(got, vals, rtol=1e-8, atol=1e-8):
                ctx.violation("monitor", "reported per-point log-likelihoods are not the log-densities under each point's own cluster", {"cfg": cfg})
    core.anchored_check(ctx, ANCHORS, cov, ignore=("continue",))
    ctx.sample({"n": meta[0]["n"], "target_logdet": meta[0]["target_logdet"]})
    jobs = []
    for k in range(0, len(lits), 150):
        jobs.append(("ll_%d" % (k // 150), "From Coq Require Import List Arith PrimFloat.\nImport ListNotations.\nFrom Ticc Require Import Corr.RunAccounting.\nOpen Scope float_scope.\n"
                     "Definition cases : list (float * float * nat * float * float) := [\n%s].\nDefinition answers := Eval vm_compute in (bad (map chk_ll cases)).\nPrint answers.\n" % ";\n".join(lits[k:k + 150])))
    res = ctx.coq_eval_many(jobs)
    for j, ((name, _), (ok, out)) in enumerate(zip(jobs, res)):
        m = re.search(r"answers\s*=\s*\[(.*?)\]\s*:\s*list", out, re.S)
        if not ok or not m:
            ctx.violation("tie", "model evaluation failed for %s" % name, {"correspondence": "tie:Accounting.ll", "log": out[-1500:]}, no_input=True)
            continue
        for tok in [t for t in m.group(1).split(";") if t.strip()]:
            i = j * 150 + int(re.sub(r"%\w+", "", tok).strip())
            ctx.tie_mismatch("Accounting.ll", "binary64 model of the log-likelihood formula and point_log_likelihood_fast disagree", {"case": meta[i]})
            break
    return ctx.finish(RULE)


def replay(ctx, data):
    print("replay: re-running the check with the recorded seed")
    return run(ctx)
