"""C18 - equivalent parameter forms give identical results."""
import numpy as np

from .. import core, admm_tie, e2e
from ..core import c_float

ANCHORS = {"admm/solver.py": ["compute_lambda_sum", "admm_update_z"],
           "cluster_label_assignment.py": ["assign_point_cluster_labels"]}
RULE = ("(a) bit-exact correspondence of both lambda-sum branches and of the Z update (scalar / constant matrix / random matrix); "
        "(b) optimiser entry point: scalar vs filled-matrix sparsity weight, and the scalar passed as Python int / float / np.float64 / "
        "np.float32 / np.float16 / np.int32 / np.int64 holding the same numeric value - results compared bitwise; (c) labelling step: scalar "
        "vs filled-vector switching cost and the same scalar types, interpreted and JIT-compiled; (d) end to end through both front "
        "ends: equivalent forms of sparsity weight, switching cost and covariance floor under equal RNG states, bitwise; non-trivial = W >= 6 "
        "for lambda forms (where NumPy's sum order matters) or a non-float scalar type")

SCALAR_TYPES = {"int": int, "float": float, "np.float64": np.float64, "np.float32": np.float32, "np.float16": np.float16,
                "np.int32": np.int32, "np.int64": np.int64, "np.longdouble": np.longdouble, "np.uint16": np.uint16, "np.uint64": np.uint64}
# reduced-precision scalars whose value is NOT a short dyadic number: the reference is the Python float holding the SAME numeric value
NARROW = [("np.float32", np.float32, 0.11), ("np.float16", np.float16, 0.11), ("np.float32", np.float32, 0.7), ("np.float16", np.float16, 1.3),
          ("np.int8", np.int8, 50), ("np.uint8", np.uint8, 100), ("np.int16", np.int16, 3000), ("np.float32", np.float32, 1e-3)]


def kernel_forms(payload):
    """worker: run the kernel on each (table, beta-form) and return labels+cost hex"""
    from fast_ticc.cluster_label_assignment import assign_point_cluster_labels as kernel
    out = []
    for tab, forms in payload:
        row = []
        for name, b in forms:
            try:
                l, c = kernel(label_assignment_cost=tab, label_switching_cost=b)
                row.append((name, [int(x) for x in l], float(c).hex()))
            except Exception as e:  # noqa
                row.append((name, "ERR", "%s: %s" % (type(e).__name__, str(e)[:200])))
        out.append(row)
    return out


def e2e_forms(payload):
    """worker (any execution mode): run the single-series front end with each form of the switching cost / sparsity weight;
    returns a list of (name, digest or error)"""
    import hashlib
    import io
    import contextlib
    import random
    from fast_ticc import front_end
    data, W, K, forms = payload
    out = []
    for name, kw in forms:
        np.random.seed(5)
        random.seed(5)
        try:
            with contextlib.redirect_stdout(io.StringIO()):
                r = front_end.ticc_labels(data.copy(), window_size=W, num_clusters=K, iteration_limit=3, min_cluster_size=2, **kw)
            h = hashlib.sha256()
            h.update(repr(list(map(int, r.point_labels))).encode())
            h.update(float(r.label_assignment_cost).hex().encode())
            for m in r.markov_random_fields:
                h.update(np.ascontiguousarray(m).tobytes())
            out.append((name, h.hexdigest()))
        except Exception as e:  # noqa
            out.append((name, "ERR %s: %s" % (type(e).__name__, str(e)[:200])))
    return out


def same_result(a, b):
    ra, rb = a["result"], b["result"]
    if (ra is None) != (rb is None):
        return False
    if ra is None:
        return a["error"] == b["error"]
    return (ra["point_labels"] == rb["point_labels"] and float(ra["label_assignment_cost"]).hex() == float(rb["label_assignment_cost"]).hex()
            and all(x.tobytes() == y.tobytes() for x, y in zip(ra["markov_random_fields"], rb["markov_random_fields"]))
            and ra["all_log_likelihood"] == rb["all_log_likelihood"] and float(ra["bic"]).hex() == float(rb["bic"]).hex())


def run(ctx):
    from fast_ticc import admm
    rng = np.random.default_rng(ctx.seed)
    ctx.proof_layer(allowed_axioms=list(core.R_AX) + [core.FLOAT_SPEC], coq_deps=["Corr/RunAdmm", "Corr/RunViterbi", "Proofs/GenEquivLS"], gen=["solver", "unique_values"])
    core.note_drift(ctx, ANCHORS)
    cov = core.LineCoverage()
    with cov:
        cases = admm_tie.gen_unit_cases(rng, ctx.budget(120, 500))
        cases = {k: cases[k] for k in ("lam_scalar", "lam_matrix", "z", "sum")}
        for k, v in cases.items():
            ctx.count("unit:" + k, len(v))
        # (b) optimiser entry point
        for i in range(ctx.budget(24, 120)):
            N, W = [(1, 6), (2, 7), (1, 9), (2, 3), (3, 2), (1, 13), (2, 6), (1, 1)][i % 8]
            n = N * W
            S = admm_tie.random_cov(rng, n, ["full", "rankdef", "corr"][i % 3])
            lv = [0.7, 0.3, 0.11, 1.0, 0.5, 2.0, 5.0, 1e-3][i % 8]
            case = {"N": N, "W": W, "lam": lv, "S_hex": [[float(v).hex() for v in row] for row in S]}
            ctx.count("entry-point")
            if W >= 6:
                ctx.mark_nontrivial(repr((N, W, lv, i)))
            with ctx.guard("admm_optimize_theta", case):
                ref = admm.admm_optimize_theta(S, float(lv), W, N).theta
                mat = admm.admm_optimize_theta(S, np.full((n, n), lv), W, N).theta
                if ref.tobytes() != mat.tobytes():
                    ctx.violation("monitor", "scalar and filled-matrix sparsity weight give different results (max diff %.3g)" % np.max(np.abs(ref - mat)), {"case": case})
                # scalar types with the same numeric value
                dy = [1.0, 0.5, 2.0, 0.25, 3.0][i % 5]   # dyadic: exactly representable in every type used below
                refd = admm.admm_optimize_theta(S, float(dy), W, N).theta
                for tname, tp in SCALAR_TYPES.items():
                    if tname in ("int", "np.int32", "np.int64", "np.uint16", "np.uint64") and dy != int(dy):
                        continue
                    try:
                        got = admm.admm_optimize_theta(S, tp(dy), W, N).theta
                    except Exception as e:  # noqa
                        ctx.violation("monitor", "sparsity weight %r of type %s is rejected: %s: %s" % (dy, tname, type(e).__name__, e), {"case": case, "type": tname, "value": dy})
                        continue
                    if got.tobytes() != refd.tobytes():
                        ctx.violation("monitor", "sparsity weight %r as %s gives a different result than as float" % (dy, tname), {"case": case, "type": tname, "value": dy})
                tname, tp, raw = NARROW[i % len(NARROW)]
                val = tp(raw)
                same = float(val)                      # the same numeric value as a Python float
                try:
                    a = admm.admm_optimize_theta(S, same, W, N).theta
                    b = admm.admm_optimize_theta(S, val, W, N).theta
                    if a.tobytes() != b.tobytes():
                        ctx.violation("monitor", "sparsity weight %s(%r) gives a different result than the Python float of the same value %r (max diff %.3g)"
                                      % (tname, raw, same, float(np.max(np.abs(a - b)))), {"case": case, "type": tname, "value": same})
                except Exception as e:  # noqa
                    ctx.violation("monitor", "sparsity weight %s(%r) is rejected: %s: %s" % (tname, raw, type(e).__name__, e), {"case": case, "type": tname, "value": same})
        # (c) labelling step
        payload = []
        for i in range(ctx.budget(40, 200)):
            T = int(rng.integers(1, 12)); K = int(rng.integers(1, 5))
            tab = rng.standard_normal((T, K)) * 10.0 ** rng.integers(-2, 3)
            dy = [4.0, 0.5, 0.0, 16.0, 1.0][i % 5]
            forms = [("float", float(dy)), ("vector", np.full(T, dy))]
            for tname, tp in SCALAR_TYPES.items():
                if tname in ("int", "np.int32", "np.int64", "np.uint16", "np.uint64") and dy != int(dy):
                    continue
                if tname in ("np.float16", "np.longdouble"):
                    continue   # Numba cannot type float16 / extended-precision scalars; the front ends normalise scalars (checked end to end below)
                forms.append((tname, tp(dy)))
            payload.append((tab, forms))
        results = {m: core.run_worker(ctx, "vcheck.props.c18:kernel_forms", payload, mode=m, tag="forms") for m in ("interp", "jit")}
        for m, r in results.items():
            if not r["ok"]:
                ctx.violation("tie", "kernel worker failed in mode %s: %s" % (m, r["error"][:300]), {"correspondence": "harness:C18.kernel/" + m}, no_input=True)
                continue
            for (tab, forms), row in zip(payload, r["result"]):
                ctx.count("kernel:" + m)
                base = row[0]
                for name, labels, cost in row[1:]:
                    if labels == "ERR":
                        ctx.violation("monitor", "switching cost of type %s is rejected by the %s kernel: %s" % (name, m, cost),
                                      {"mode": m, "type": name, "table_hex": [[float(v).hex() for v in rr] for rr in tab], "beta": float(forms[0][1])})
                    elif (labels, cost) != (base[1], base[2]):
                        ctx.violation("monitor", "switching cost as %s gives a different labelling/cost than as float (%s kernel)" % (name, m),
                                      {"mode": m, "type": name, "table_hex": [[float(v).hex() for v in rr] for rr in tab], "beta": float(forms[0][1])})
                if len(forms) > 3:
                    ctx.mark_nontrivial(tab.tobytes())
        # (c') the labelling step as the main loop calls it (predict_cluster_labels on a model state): scalar vs filled vector,
        # incl. zero cost and data with exact ties
        from fast_ticc import cluster_label_assignment as cla2, cluster_maintenance as cm2, graphical_lasso as gl2
        from fast_ticc.containers import model_state as ms2, arguments as ar2
        from fast_ticc import matrix_compression as mc2
        for i in range(ctx.budget(12, 60)):
            K = 2 + i % 2; T = 14
            if i % 3 == 0:
                data = np.array([[-1.0], [1.0]] * (T // 2)) + 0.0          # points equidistant from symmetric clusters: exact ties
            else:
                data = rng.normal(size=(T, 1)) * 2
            outs = []
            for form in ("scalar", "vector"):
                bval = [0.0, 3.0, 0.0, 0.5][i % 4]
                ua = ar2.UserArguments(sparsity_weight=0.1, iteration_limit=1, label_switching_cost=(bval if form == "scalar" else np.full(T, bval)),
                                       min_cluster_size=1, min_meaningful_covariance=0, num_clusters=K, num_processors=1, biased_covariance=False, window_size=1)
                st = ms2.ModelState.empty_model(ua, data)
                st.point_labels = [j % K for j in range(T)]
                for k, c in enumerate(st.clusters):
                    c.stacked_data_mean = np.array([(-1.0) ** k * (1.0 + (k // 2))])
                    c.train_inverse = np.array([[1.0]])
                o = cla2.predict_cluster_labels(st, data)
                outs.append(([int(x) for x in o.point_labels], float(o.label_assignment_cost).hex()))
            ctx.count("labelling-step")
            ctx.mark_nontrivial(("step", i))
            if outs[0] != outs[1]:
                ctx.violation("monitor", "labelling step: scalar switching cost %r and the filled vector give different labels / cost (%s vs %s)" % (bval, outs[0], outs[1]),
                              {"beta": bval, "data": data.ravel().tolist(), "K": K})
        # (d') end to end in both execution modes: every scalar type for beta / lambda / eps
        series = e2e.make_data({"N": 1, "lengths": [50], "data_seed": 12, "regimes": 2})[0]
        forms = [("reference", dict(label_switching_cost=4.0, sparsity_weight=0.5, min_meaningful_covariance=0.0))]
        for tname, tp in SCALAR_TYPES.items():
            forms.append(("beta:" + tname, dict(label_switching_cost=tp(4), sparsity_weight=0.5, min_meaningful_covariance=0.0)))
            if tname not in ("int", "np.int32", "np.int64", "np.uint16", "np.uint64"):
                forms.append(("lambda:" + tname, dict(label_switching_cost=4.0, sparsity_weight=tp(0.5), min_meaningful_covariance=0.0)))
            forms.append(("eps:" + tname, dict(label_switching_cost=4.0, sparsity_weight=0.5, min_meaningful_covariance=tp(0))))
        for tname, tp, raw in NARROW[:4]:
            v = tp(raw)
            forms.append(("reference-for-lambda:%s(%r)" % (tname, raw), dict(label_switching_cost=4.0, sparsity_weight=float(v), min_meaningful_covariance=0.0)))
            forms.append(("lambda:%s(%r)" % (tname, raw), dict(label_switching_cost=4.0, sparsity_weight=v, min_meaningful_covariance=0.0)))
            forms.append(("reference-for-beta:%s(%r)" % (tname, raw), dict(label_switching_cost=float(v) * 10, sparsity_weight=0.5, min_meaningful_covariance=0.0)))
            forms.append(("beta:%s(%r)" % (tname, raw), dict(label_switching_cost=tp(float(v) * 10) if float(tp(float(v) * 10)) == float(v) * 10 else float(v) * 10, sparsity_weight=0.5, min_meaningful_covariance=0.0)))
        for m in ("interp", "jit"):
            r = core.run_worker(ctx, "vcheck.props.c18:e2e_forms", (series, 3, 2, forms), mode=m, tag="e2eforms")
            if not r["ok"]:
                ctx.violation("tie", "end-to-end worker failed in mode %s: %s" % (m, r["error"][:300]), {"correspondence": "harness:C18.e2e/" + m}, no_input=True)
                continue
            refd = r["result"][0][1]
            for name, dg in r["result"][1:]:
                ctx.count("e2e-type:" + m)
                ctx.mark_nontrivial((m, name))
                if name.startswith("reference-for-"):
                    refd = dg                      # the next form is compared with this one
                    continue
                if dg != refd:
                    ctx.violation("monitor", "end to end (%s): parameter form %s gives %s instead of the reference result" % (m, name, dg[:80]),
                                  {"mode": m, "form": name, "data_seed": 12, "W": 3, "K": 2})
        # (d) end to end
        base = {"N": 1, "W": 6, "K": 2, "beta": 4.0, "lam": 0.5, "limit": 3, "m": 2, "biased": False, "eps": 0, "joint": False,
                "lengths": [60], "data_seed": 8, "rng_seed": 8, "regimes": 2}
        for j in range(ctx.budget(2, 6)):
            b = dict(base, data_seed=8 + j, rng_seed=8 + j, W=[6, 7, 2][j % 3], N=[1, 1, 2][j % 3], joint=bool(j % 2), lengths=[60] if j % 2 == 0 else [45, 40])
            ref = e2e.traced_run(b)
            n = b["N"] * b["W"]
            T = sum(t - b["W"] + 1 for t in b["lengths"])
            variants = [("lam as filled matrix", dict(b, lam=np.full((n, n), b["lam"]))),
                        ("lam as np.float32", dict(b, lam=np.float32(b["lam"]))), ("beta as int", dict(b, beta=4)),
                        ("beta as np.float32", dict(b, beta=np.float32(4.0))), ("eps as int 0", dict(b, eps=0)), ("eps as np.float64", dict(b, eps=np.float64(0.0)))]
            # (also through the joint front end with its two series: one number and the vector filled with it are the same request)
            variants.append(("beta as filled vector", dict(b, beta=np.full(T, 4.0))))
            if not b["joint"]:
                # a zero switching cost in both forms (compared with each other)
                z0 = e2e.traced_run(dict(b, beta=0.0))
                z1 = e2e.traced_run(dict(b, beta=np.zeros(T)))
                z2 = e2e.traced_run(dict(b, beta=0))
                ctx.count("e2e-form", 2)
                if not same_result(z0, z1) or not same_result(z0, z2):
                    ctx.violation("monitor", "end to end: a zero switching cost gives different results as scalar 0.0 / int 0 / vector of zeros", {"cfg": {k: v for k, v in b.items()}, "form": "beta = 0"})
            # the same forms on a run that is cut off by the iteration limit (every exit of the main loop must treat the forms alike)
            ref1 = e2e.traced_run(dict(b, limit=1))
            for name, cfgv in [v_ for v_ in variants if "filled" in v_[0]]:
                ctx.count("e2e-form-cut-off")
                r1 = e2e.traced_run(dict(cfgv, limit=1))
                if not same_result(ref1, r1):
                    ctx.violation("monitor", "end to end, run cut off by iteration_limit=1: %s changes the result (%s vs %s)" % (name, ref1["error"], r1["error"]),
                                  {"cfg": {k: (v if not isinstance(v, np.ndarray) else "array") for k, v in dict(cfgv, limit=1).items()}, "form": name})
            for name, cfgv in variants:
                ctx.count("e2e-form")
                r = e2e.traced_run(cfgv)
                if not same_result(ref, r):
                    ctx.violation("monitor", "end to end: %s changes the result (%s vs %s)" % (name, ref["error"], r["error"]), {"cfg": {k: (v if not isinstance(v, np.ndarray) else "array") for k, v in cfgv.items()}, "form": name})
        # (e) joint runs whose regime changes exactly at the series boundaries (a short series of another regime between two long
        #     ones): whether the labels switch there is decided by what the pairs AT the boundaries cost, so a front end that
        #     treats those pairs differently for one number than for the vector filled with it gives two different answers
        for j, bval in enumerate([30.0, 400.0, 3.0][: ctx.budget(2, 3)]):
            b = dict(base, N=3, W=3, K=2, beta=bval, limit=6, m=5, joint=True, lengths=[80, 14, 80], series_regimes=[0, 1, 0],
                     data_seed=31 + j, rng_seed=31 + j, scale=0.6)
            T = sum(t - b["W"] + 1 for t in b["lengths"])
            ref = e2e.traced_run(b)
            for name, cfgv in [("beta as filled vector", dict(b, beta=np.full(T, bval))), ("beta as filled float32 vector", dict(b, beta=np.full(T, bval, dtype=np.float32))),
                               ("beta as np.float64 scalar", dict(b, beta=np.float64(bval)))]:
                ctx.count("e2e-boundary-form")
                ctx.mark_nontrivial(("boundary", j, name))
                r = e2e.traced_run(cfgv)
                if not same_result(ref, r):
                    ctx.violation("monitor", "end to end, joint run with regime changes at the series boundaries: %s changes the result (%s vs %s)" % (name, ref["error"], r["error"]),
                                  {"cfg": {k: (v if not isinstance(v, np.ndarray) else "array") for k, v in cfgv.items()}, "form": name})
    core.anchored_check(ctx, ANCHORS, cov, ignore=("raise ValueError", "Lambda parameter", "either a float"))
    ctx.sample({"kind": "lam_matrix", "case": cases["lam_matrix"][0][1]})
    ctx.sample({"kind": "entry-point", "N,W,lam": [1, 6, 0.7]})
    admm_tie.evaluate(ctx, cases, ["lam_scalar", "lam_matrix", "z", "sum"])
    return ctx.finish(RULE)


def replay(ctx, data):
    from fast_ticc import admm
    d = data.get("detail", {})
    c = d.get("case")
    if isinstance(c, dict) and "S_hex" in c:
        S = np.array([[float.fromhex(v) for v in row] for row in c["S_hex"]])
        n = c["N"] * c["W"]
        a = admm.admm_optimize_theta(S, float(c["lam"]), c["W"], c["N"]).theta
        b = admm.admm_optimize_theta(S, np.full((n, n), c["lam"]), c["W"], c["N"]).theta
        print("replay: scalar vs matrix identical =", a.tobytes() == b.tobytes())
        return 0 if a.tobytes() == b.tobytes() else 1
    return run(ctx)
