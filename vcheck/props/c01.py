"""C01 - label assignment returns a globally minimum-cost label sequence."""
import itertools
from fractions import Fraction

import numpy as np

from .. import core
from ..core import c_nat, c_list, c_float

ANCHORS = {"cluster_label_assignment.py": ["assign_point_cluster_labels"]}
R_AX = core.R_AX

RULE = ("cost tables from five streams (real values over 24 orders of magnitude; small integers with many ties; "
        "T=1 / K=1 / beta=0 boundaries; beta as scalar of several Python/NumPy types or as a vector with zeros; "
        "C/F-ordered and read-only tables) run through the kernel in three execution modes and through the binary64 "
        "instance of the Coq model (bit-exact cost; labels compared exactly when the optimum is unique). "
        "non-trivial = T>=2, K>=2 and the returned path or some competitor switches labels; distinct by input bytes")


# ---------------------------------------------------------------- independent oracle (exact rationals)
def exact_cost(rows, betas, labels):
    c = Fraction(0)
    for i, l in enumerate(labels):
        c += Fraction(float(rows[i][l]))
        if i + 1 < len(labels) and labels[i + 1] != l:
            c += Fraction(float(betas[i]))
    return c


def exact_dp(rows, betas):
    """forward DP over exact rationals: (min cost, number of optimal label sequences capped at 2)"""
    T = len(rows)
    K = len(rows[0])
    best = [Fraction(float(rows[0][k])) for k in range(K)]
    cnt = [1] * K
    for i in range(1, T):
        b = Fraction(float(betas[i - 1]))
        nb, nc = [], []
        for k in range(K):
            cands = [(best[j] + (0 if j == k else b), cnt[j]) for j in range(K)]
            m = min(c for c, _ in cands)
            n = sum(n for c, n in cands if c == m)
            nb.append(m + Fraction(float(rows[i][k])))
            nc.append(min(n, 2))
        best, cnt = nb, nc
    m = min(best)
    return m, min(2, sum(c for v, c in zip(best, cnt) if v == m))


def int_dp(tab, betas):
    """minimum cost for integer-valued tables / switching costs, exact in int64 (used where K is in the hundreds)"""
    t = np.asarray(tab).astype(np.int64)
    best = t[0].copy()
    K = t.shape[1]
    off = 1 - np.eye(K, dtype=np.int64)
    for i in range(1, t.shape[0]):
        best = (best[:, None] + int(betas[i - 1]) * off).min(axis=0) + t[i]
    return Fraction(int(best.min()))


def brute_force(rows, betas):
    T = len(rows)
    K = len(rows[0])
    return min(exact_cost(rows, betas, p) for p in itertools.product(range(K), repeat=T))


# ---------------------------------------------------------------- generators
def gen_cases(rng, n, tmax, kmax):
    cases = []
    for idx in range(n):
        stream = ["real", "ints", "edge", "betaforms", "layout", "dtype"][idx % 6]
        T = int(rng.integers(1, tmax + 1))
        K = int(rng.integers(1, kmax + 1))
        if stream == "edge":
            T, K = [(1, K), (T, 1), (1, 1), (2, K), (T, 2)][int(rng.integers(0, 5))]
        dtype = "float64"
        if stream == "dtype":
            # the same numbers held in another array dtype (exactly representable there) must give the same result
            dtype = ["int64", "float32", "int32"][idx // 6 % 3]   # float16 arrays cannot be typed by Numba
            tab = rng.integers(-40, 41, size=(T, K)).astype(np.float64) * (2.0 ** int(rng.integers(0, 18)) if dtype in ("int64", "float32") else 1.0)
            if dtype == "float32":
                tab = tab + rng.integers(0, 2, size=(T, K)) * 0.5
        elif stream == "ints":
            tab = rng.integers(-2, 3, size=(T, K)).astype(np.float64)
        else:
            mag = 10.0 ** rng.uniform(-12, 12, size=(T, K)) if rng.random() < 0.5 else 10.0 ** rng.uniform(-2, 3)
            tab = rng.standard_normal((T, K)) * mag
        form = "scalar"
        r = rng.random()
        if stream == "dtype":
            beta = float(rng.integers(0, 9)) * 0.5 if r < 0.5 else rng.integers(0, 9, size=T).astype(np.float64) * 0.25
        elif stream == "ints":
            beta = float(rng.integers(0, 3)) if r < 0.5 else rng.integers(0, 3, size=T).astype(np.float64)
        elif stream == "edge" and r < 0.3:
            beta = 0.0
        elif r < 0.5:
            beta = float(abs(rng.standard_normal()) * 10.0 ** rng.uniform(-3, 3))
        else:
            beta = np.abs(rng.standard_normal(T)) * 10.0 ** rng.uniform(-3, 3)
            beta[rng.random(T) < 0.3] = 0.0
        btype = "float"
        if stream == "betaforms" and not isinstance(beta, np.ndarray):
            btype = ["int", "float", "np.float64", "np.float32", "np.int32"][int(rng.integers(0, 5))]
            if btype in ("int", "np.int32"):
                beta = float(int(rng.integers(0, 50)))
            elif btype == "np.float32":
                beta = float(np.float16(abs(rng.standard_normal()) * 8))
        layout = "C"
        if stream == "layout":
            layout = ["F", "readonly", "view"][int(rng.integers(0, 3))]
        cases.append({"stream": stream, "table": tab, "beta": beta, "btype": btype, "layout": layout, "dtype": dtype})
    return cases


def gen_many_clusters(rng, n):
    """hundreds of clusters (the property allows any K; the successor table is uint16, so up to 65536): integer-valued
    tables whose optimal path runs through cluster ids above 255 / 256"""
    cases = []
    for i in range(n):
        K = [255, 256, 257, 300, 700][i % 5]
        T = int(rng.integers(3, 7))
        tab = rng.integers(20, 60, size=(T, K)).astype(np.float64)
        cheap = rng.integers(max(0, K - 60), K, size=T)        # the cheapest cluster of every point has a high id
        if i % 2:
            cheap[:] = cheap[0]                                # ... the same one throughout (no switch) every second case
        tab[np.arange(T), cheap] = rng.integers(0, 5, size=T)
        beta = float(rng.integers(0, 12)) if i % 3 else rng.integers(0, 12, size=T).astype(np.float64)
        cases.append({"stream": "manyK", "table": tab, "beta": beta, "btype": "float", "layout": "C", "dtype": "float64"})
    return cases


def beta_vector(case):
    T = case["table"].shape[0]
    b = case["beta"]
    return [float(b)] * T if not isinstance(b, np.ndarray) else [float(x) for x in b]


def kernel_batch(cases):
    """worker side: run the kernel on every case; returns list of (labels, cost) or ('ERR', msg)"""
    from fast_ticc.cluster_label_assignment import assign_point_cluster_labels as kernel
    out = []
    for c in cases:
        tab = c["table"]
        if c.get("dtype", "float64") != "float64":
            tab = tab.astype(c["dtype"])
            assert np.array_equal(tab.astype(np.float64), c["table"])
        if c["layout"] == "F":
            tab = np.asfortranarray(tab)
        elif c["layout"] == "readonly":
            tab = tab.copy()
            tab.setflags(write=False)
        elif c["layout"] == "view":
            big = np.zeros((tab.shape[0] * 2, tab.shape[1] * 2))
            big[::2, ::2] = tab
            tab = big[::2, ::2]
        b = c["beta"]
        if not isinstance(b, np.ndarray):
            b = {"int": int, "float": float, "np.float64": np.float64, "np.float32": np.float32,
                 "np.int32": np.int32, "np.float16": np.float16}[c["btype"]](b)
        keep = np.array(tab, copy=True)
        try:
            labels, cost = kernel(label_assignment_cost=tab, label_switching_cost=b)
            out.append(([int(x) for x in labels], float(cost), bool(np.array_equal(keep, tab))))
        except Exception as e:  # noqa
            out.append(("ERR", "%s: %s" % (type(e).__name__, str(e)[:300]), True))
    return out


def case_to_coq(case, labels, cost):
    tab = case["table"]
    K = tab.shape[1]
    rows = c_list([c_list([c_float(x) for x in r]) for r in tab])
    return "(%s, %s, %s, %s, %s)" % (c_nat(K), rows, c_list([c_float(x) for x in beta_vector(case)]),
                                      c_list(labels, c_nat), c_float(cost))


def describe(case):
    return {"stream": case["stream"], "table_hex": [[float(x).hex() for x in r] for r in case["table"]],
            "beta_hex": [float(x).hex() for x in beta_vector(case)], "btype": case["btype"], "layout": case["layout"],
            "dtype": case.get("dtype", "float64")}


def monitor_case(ctx, case, labels, cost, do_brute):
    """the property itself on the implementation's answer; returns (ok, unique)"""
    tab = case["table"]
    T, K = tab.shape
    betas = beta_vector(case)
    rows = tab.tolist()
    if len(labels) != T or any((not isinstance(l, int)) or l < 0 or l >= K for l in labels):
        ctx.violation("monitor", "labels are not T integers in [0,K)", {"case": describe(case), "labels": labels})
        return False, False
    if case["stream"] == "manyK":
        mn, nopt = int_dp(tab, betas), 2
    else:
        mn, nopt = exact_dp(rows, betas)
    got = exact_cost(rows, betas, labels)
    M = float(np.sum(np.abs(tab)) + sum(betas))
    slack = Fraction(16 * T * M * 2.0 ** -52)
    exact_regime = case["stream"].split("@")[0] in ("ints", "dtype", "manyK")
    if exact_regime:
        slack = Fraction(0)
    ok = True
    if got - mn > slack:
        ctx.violation("monitor", "returned labelling is not minimum-cost: cost(labels)=%s > optimum=%s" % (float(got), float(mn)),
                      {"case": describe(case), "labels": labels, "optimum": str(mn), "cost_of_labels": str(got)})
        ok = False
    if abs(Fraction(cost) - got) > slack:
        ctx.violation("monitor", "reported cost %r is not the cost of the returned labels %s" % (cost, float(got)),
                      {"case": describe(case), "labels": labels, "reported": cost, "cost_of_labels": str(got)})
        ok = False
    if do_brute and K ** T <= 20000:
        bf = brute_force(rows, betas)
        if bf != mn:
            raise AssertionError("oracle disagreement DP vs brute force")
    return ok, nopt == 1


def run(ctx):
    rng = np.random.default_rng(ctx.seed)
    ctx.proof_layer(allowed_axioms=R_AX, coq_deps=["Corr/RunViterbi"], gen=["cluster_label_assignment"])
    core.note_drift(ctx, ANCHORS)
    n = ctx.budget(1500, 6000)
    tmax, kmax = (11, 4) if not ctx.thorough else (40, 10)
    cases = gen_cases(rng, n, tmax, kmax)
    if ctx.thorough:
        cases += gen_cases(rng, 1500, 11, 4)
    # hand-written boundary corpus runs first
    corpus = [
        {"stream": "ints", "table": np.array([[1., 1.], [0., 2.], [3., 0.]]), "beta": 1.0, "btype": "float", "layout": "C"},
        {"stream": "ints", "table": np.array([[0., 0.], [0., 0.]]), "beta": 0.0, "btype": "float", "layout": "C"},
        {"stream": "ints", "table": np.array([[5., 0.], [0., 5.], [5., 0.]]), "beta": np.array([1., 9., 0.]), "btype": "float", "layout": "C"},
        {"stream": "ints", "table": np.array([[0., 1.], [1., 0.], [1., 0.], [0., 1.]]), "beta": np.array([0., 3., 0., 7.]), "btype": "float", "layout": "C"},
        {"stream": "real", "table": np.array([[-1e12, 1e-12], [3.5, -2.25]]), "beta": 400.0, "btype": "int", "layout": "C"},
    ]
    cases = corpus + cases + gen_many_clusters(rng, ctx.budget(10, 40))
    handles = {m: core.start_worker(ctx, "vcheck.props.c01:kernel_batch", cases, mode=m, tag="kern") for m in ("interp", "jit", "nonumba")}
    # interpreted mode additionally in-process under the line tracer (anchored-line coverage)
    cov = core.LineCoverage()
    with cov:
        inproc = kernel_batch(cases[:60])
    core.anchored_check(ctx, ANCHORS, cov)
    results = {m: core.wait_worker(h) for m, h in handles.items()}
    for m, r in results.items():
        if not r["ok"]:
            ctx.violation("tie", "kernel worker failed in mode %s: %s" % (m, r["error"][:500]),
                          {"correspondence": "tie:Viterbi.binary64/" + m, "error": r["error"], "traceback": r.get("traceback", "")}, no_input=True)
            return ctx.finish(RULE)
    ref = results["interp"]["result"]
    if ref[:60] != inproc:
        ctx.violation("tie", "in-process and subprocess interpreted runs differ", {"correspondence": "tie:Viterbi.determinism"}, no_input=True)
    hist = {"T": {}, "K": {}, "stream": {}, "unique_optimum": 0, "beta_vector": 0, "ties": 0}
    coq_cases = []
    coq_index = []
    uniq = []
    for i, (case, r) in enumerate(zip(cases, ref)):
        T, K = case["table"].shape
        hist["T"][T] = hist["T"].get(T, 0) + 1
        hist["K"][K] = hist["K"].get(K, 0) + 1
        hist["stream"][case["stream"]] = hist["stream"].get(case["stream"], 0) + 1
        hist["beta_vector"] += isinstance(case["beta"], np.ndarray)
        ctx.count(case["stream"])
        if r[0] == "ERR":
            ctx.violation("exception", "kernel raised on a valid input: %s" % r[1], {"case": describe(case)})
            uniq.append(False)
            continue
        labels, cost, untouched = r
        if not untouched:
            ctx.violation("monitor", "kernel modified its cost table", {"case": describe(case)})
        for m in ("jit", "nonumba"):
            o = results[m]["result"][i]
            if o[0] == "ERR" or o[0] != labels or float(o[1]).hex() != float(cost).hex():
                ctx.violation("tie", "execution mode %s disagrees with the interpreted kernel: %s vs %s" % (m, o[:2], (labels, cost)),
                              {"case": describe(case), "mode": m, "interp": [labels, float(cost).hex()], "other": [o[0], str(o[1])]})
        ok, unique = monitor_case(ctx, case, labels, cost, do_brute=(i % 7 == 0))
        uniq.append(unique)
        hist["unique_optimum"] += unique
        if T >= 2 and K >= 2:
            ctx.mark_nontrivial(case["table"].tobytes() + np.asarray(beta_vector(case)).tobytes())
        coq_cases.append(case_to_coq(case, labels, cost))
        coq_index.append(i)
        if i < 3:
            ctx.sample({"stream": case["stream"], "table": case["table"].tolist(), "beta": beta_vector(case), "labels": labels, "cost": cost})
    # ---- the labelling STEP (predict_cluster_labels: scoring table -> kernel -> new state), with the scoring table dictated:
    # whatever the step does around the kernel, the labels and cost it stores must be a minimum-cost labelling of the table
    from fast_ticc import cluster_label_assignment as cla
    from fast_ticc.containers import arguments as _arg, model_state as _ms
    step_cases = [c for c in cases if c["layout"] == "C" and c.get("dtype", "float64") == "float64" and c["stream"] in ("ints", "real", "edge")][:ctx.budget(250, 1200)]
    # tables whose optimum stays in a cluster that is never the cheapest one of any single point ("compromise" cluster)
    for j in range(ctx.budget(40, 200)):
        T = int(rng.integers(3, 10)); K = int(rng.integers(3, 6))
        tab = np.full((T, K), 9.0)
        comp = int(rng.integers(0, K))
        others = [k for k in range(K) if k != comp]
        for i in range(T):
            tab[i, others[int(rng.integers(0, len(others)))]] = float(rng.integers(0, 3))
        tab[:, comp] = 3.0
        beta = float(rng.integers(2, 9)) if j % 2 else rng.integers(2, 9, size=T).astype(np.float64)
        step_cases.append({"stream": "ints", "table": tab, "beta": beta, "btype": "float", "layout": "C", "dtype": "float64"})
    orig_table_fn = cla.likelihood.all_points_all_clusters_log_likelihood
    carried, carried_log = {}, {}
    try:
        for c in step_cases:
            tab = c["table"]
            T, K = tab.shape
            ua = _arg.UserArguments(sparsity_weight=0.1, iteration_limit=1, label_switching_cost=c["beta"], min_cluster_size=1,
                                    min_meaningful_covariance=0, num_clusters=K, num_processors=1, biased_covariance=False, window_size=1)
            data = np.zeros((T, 1))
            st = _ms.ModelState.empty_model(ua, data)
            cla.likelihood.all_points_all_clusters_log_likelihood = lambda model, test_data, _t=tab: -_t
            ctx.count("labelling-step")
            with ctx.guard("predict_cluster_labels", {"case": describe(c)}):
                out = cla.predict_cluster_labels(st, data)
                labels = [int(x) for x in out.point_labels]
                monitor_case(ctx, dict(c, stream=c["stream"] + "@step"), labels, float(out.label_assignment_cost), do_brute=False)
            # the same step on a state that an EARLIER step returned (tables of other lengths went through it before):
            # whatever a state carries from call to call must not leak into the next labelling
            prev = carried.get(K)
            if prev is not None:
                ctx.count("labelling-step-chained")
                with ctx.guard("predict_cluster_labels (state returned by an earlier step)", {"case": describe(c)}):
                    st2 = prev.shallow_copy() if (len(carried_log.get(K, [])) % 2) else prev
                    st2.arguments = ua
                    out2 = cla.predict_cluster_labels(st2, data)
                    labels2 = [int(x) for x in out2.point_labels]
                    monitor_case(ctx, dict(c, stream=c["stream"] + "@step-chained", history=carried_log.get(K, [])[-3:]), labels2,
                                 float(out2.label_assignment_cost), do_brute=False)
                    out = out2
            carried[K] = out
            carried_log.setdefault(K, []).append(int(T))
    finally:
        cla.likelihood.all_points_all_clusters_log_likelihood = orig_table_fn
    ctx.coverage["distribution"] = hist
    # ---- model side: binary64 instance evaluated inside Coq
    CH = 400
    jobs = []
    for k in range(0, len(coq_cases), CH):
        txt = ("From Coq Require Import List Arith NArith PrimFloat.\nImport ListNotations.\n"
               "From Ticc Require Import Corr.RunViterbi.\nOpen Scope float_scope.\n"
               "Definition cases : list (nat * list (list float) * list float * list nat * float) := [\n%s].\n"
               "Definition answers := Eval vm_compute in (mismatches cases).\nPrint answers.\n" % ";\n".join(coq_cases[k:k + CH]))
        jobs.append(("vit_%d" % (k // CH), txt))
    strict = 0
    res = ctx.coq_eval_many(jobs)
    import re
    for j, ((name, _), (ok, out)) in enumerate(zip(jobs, res)):
        m = re.search(r"answers\s*=\s*\[(.*?)\]\s*:\s*list", out, re.S)
        if not ok or not m:
            ctx.violation("tie", "model evaluation failed for %s" % name, {"correspondence": "tie:Viterbi.binary64", "log": out[-1500:]}, no_input=True)
            continue
        pairs = re.findall(r"\((\d+),\s*(\d+)\)", m.group(1))
        for a, code in pairs:
            gi = coq_index[j * CH + int(a)]
            case = cases[gi]
            if int(code) == 2:
                ctx.tie_mismatch("Viterbi.binary64", "model (binary64) and kernel disagree on the cost",
                              {"case": describe(case), "impl": [ref[gi][0], float(ref[gi][1]).hex()]})
            elif uniq[gi]:
                ctx.tie_mismatch("Viterbi.binary64", "model (binary64) and kernel return different labels although the optimum is unique",
                              {"case": describe(case), "impl": [ref[gi][0], float(ref[gi][1]).hex()]})
            else:
                strict += 1
    ctx.notes["label_disagreements_on_non_unique_optima"] = strict
    return ctx.finish(RULE)


def replay(ctx, data):
    d = data.get("detail", {})
    c = d.get("case")
    if not c or "table_hex" not in c:
        print("replay: no concrete case in this file (%s); re-running the check" % data.get("what"))
        return run(ctx)
    tab = np.array([[float.fromhex(x) for x in r] for r in c["table_hex"]])
    beta = np.array([float.fromhex(x) for x in c["beta_hex"]])
    case = {"stream": c["stream"], "table": tab, "beta": beta, "btype": "float", "layout": c.get("layout", "C"), "dtype": c.get("dtype", "float64")}
    r = kernel_batch([case])[0]
    print("replay: kernel returned", r[:2])
    if r[0] == "ERR":
        return 1
    ok, _ = monitor_case(ctx, case, r[0], r[1], do_brute=True)
    for v in ctx.violations:
        print("replay:", v["what"])
    return 0 if ok else 1
