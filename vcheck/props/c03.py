"""C03 - every MRF is a finite, symmetric, positive-definite precision matrix (partial)."""
import numpy as np

from .. import core, admm_tie, e2e
from ..core import c_float

ANCHORS = {"admm/solver.py": ["x_update_prox"], "graphical_lasso.py": ["_zero_small_elements", "_reconstruct_optimized_matrix", "_update_cluster_covariances"],
           "matrix_compression.py": ["reinflate_matrix", "_upper_to_full", "_uncompress_upper_triangle"],
           "cluster_maintenance.py": ["update_cluster_member_data_statistics"]}
R_AX = core.R_AX
RULE = ("(a) bit-exact correspondence of the eigenvalue map (diagonal covariances with variances 1e-12..1e12 incl. the witnesses of the "
        "repaired cancellation defect) and of the small-element filter (entries at eps +- 1 ulp); (b) optimiser entry point on covariances "
        "of every rank across 24 orders of magnitude incl. mixed scales, constant sensors, duplicated points, fewer points than "
        "dimensions, single points: exact symmetry, Cholesky + eigvalsh > 0, finite entries and log-det; floor predicate for eps in "
        "{1e-6,1e-3,0.1}; (c) every MRF of every phase of the traced runs and every float field of every result; non-trivial = rank < NW "
        "or scale ratio >= 1e6 or eps > 0")


def spd_report(M):
    if not np.all(np.isfinite(M)):
        return "non-finite entries"
    if not np.array_equal(M, M.T):
        return "not exactly symmetric"
    ev = np.linalg.eigvalsh(M)
    if ev.min() <= 0:
        return "not positive definite (min eigenvalue %.3g)" % ev.min()
    try:
        np.linalg.cholesky(M)
    except np.linalg.LinAlgError:
        return "Cholesky fails"
    s, ld = np.linalg.slogdet(M)
    if s <= 0 or not np.isfinite(ld):
        return "log-determinant not finite (sign %s, %s)" % (s, ld)
    return None


def make_cov(rng, n, kind, scale):
    """empirical covariances as the library would compute them from degenerate data"""
    if kind == "diagvar":
        return np.diag(scale if np.ndim(scale) else np.full(n, float(scale)))
    if kind == "points":
        npts = int(rng.integers(1, n + 3))
        X = rng.normal(size=(npts, n)) * scale
        if npts == 1:
            return np.zeros((n, n))
        return np.atleast_2d(np.cov(X.T))
    if kind == "dup":
        X = np.repeat(rng.normal(size=(2, n)) * scale, 3, axis=0)
        return np.atleast_2d(np.cov(X.T))
    if kind == "const":
        X = rng.normal(size=(n + 4, n)) * scale
        X[:, 0] = 3.0
        return np.atleast_2d(np.cov(X.T))
    X = rng.normal(size=(3 * n + 2, n)) * scale
    return np.atleast_2d(np.cov(X.T))


def run(ctx):
    from fast_ticc import admm, matrix_compression as mc, graphical_lasso as gl
    rng = np.random.default_rng(ctx.seed)
    ctx.proof_layer(allowed_axioms=list(R_AX) + [core.FLOAT_SPEC], coq_deps=["Corr/RunAdmm"], gen=["solver", "graphical_lasso", "admm_x"])
    core.note_drift(ctx, ANCHORS)
    cov = core.LineCoverage()
    with cov:
        cases = admm_tie.gen_unit_cases(rng, ctx.budget(150, 600))
        cases = {k: cases[k] for k in ("theta", "zero_small")}
        # corpus: witnesses of the repaired defect D1 (large variances on the diagonal)
        for v in (1e8, 1e9, 1e12, 1e15, 3.3e10):
            d = float(np.float64(0.0) * 1 - v)   # rho*(z-u) - S with z = u = 0
            comp = admm.admm_optimize_theta(np.diag([v, 1.0]), 0.11, 1, 2, max_iterations=1).theta
            th = mc.reinflate_matrix(comp)
            cases["theta"].insert(0, ("(%s, %s, %s)" % (c_float(1.0), c_float(d), c_float(th[0, 0])), {"rho": 1.0, "d": d, "theta": float(th[0, 0]), "corpus": "D1"}))
        for k, v in cases.items():
            ctx.count("unit:" + k, len(v))
        # the floor predicate itself on the unit inputs (entries at eps +- 1 ulp)
        for lit, d in cases["zero_small"]:
            eps = d["eps"]
            for xh, yh in zip(d["xs_hex"], d["out_hex"]):
                x, y = float.fromhex(xh), float.fromhex(yh)
                if (eps > 0 and 0 < abs(y) < eps) or (abs(x) >= eps and (y != x)) or (y != 0 and y != x):
                    ctx.violation("monitor", "covariance floor: entry %r became %r with eps=%r" % (x, y, eps), {"eps": eps, "x_hex": xh, "y_hex": yh})
                    break
        # (b) optimiser entry point
        grid = []
        for (N, W) in [(1, 1), (2, 1), (1, 3), (2, 2), (3, 2), (2, 4)] + ([(4, 3), (3, 6), (10, 6)] if ctx.thorough else [(4, 3)]):
            n = N * W
            for kind in ("diagvar", "points", "dup", "const", "full"):
                for s in ([1e-6, 1e-3, 1.0, 1e3, 1e6] if kind != "diagvar" else [None]):   # standard deviations: variances 1e-12 .. 1e12
                    for rep in range(1 if not ctx.thorough else 3):
                        if kind == "diagvar":
                            sc = 10.0 ** rng.integers(-12, 13, size=n).astype(float)
                            if rep == 0:
                                sc[0], sc[-1] = 1e12, 1e-12
                        else:
                            sc = s
                        grid.append((N, W, kind, sc, [0.11, 0.0, 1.0][(len(grid)) % 3]))
        for (N, W, kind, sc, lam) in grid:
            n = N * W
            S = make_cov(rng, n, kind, sc)
            case = {"N": N, "W": W, "kind": kind, "scale": (sc if np.ndim(sc) == 0 else [float(x) for x in sc]), "lam": lam,
                    "S_hex": [[float(v).hex() for v in row] for row in np.atleast_2d(S)]}
            ctx.count("entry-point")
            ctx.mark_nontrivial(repr(case)[:200])
            with ctx.guard("admm_optimize_theta", case):
                keep = np.array(S, copy=True)
                comp = admm.admm_optimize_theta(S, lam, W, N).theta
                Th = mc.reinflate_matrix(comp)
                why = spd_report(Th)
                if why:
                    ctx.violation("monitor", "optimiser output is %s" % why, {"case": case})
                if not np.array_equal(keep, S):
                    ctx.violation("monitor", "covariance argument modified", {"case": case})
                # the same covariance in other containers: single precision (the values rounded to float32 ARE the input
                # then), Fortran order, a read-only array - the output must be a proper MRF whatever the container
                for form in ("float32", "fortran", "readonly"):
                    if form == "float32":
                        Sf = np.asarray(S, dtype=np.float32)
                        if not np.all(np.isfinite(Sf)):
                            continue
                        # rounding the entries to single precision can push a (nearly) singular covariance out of the
                        # property's domain: an indefinite matrix is not a covariance, and the problem has no optimum then
                        evf = np.linalg.eigvalsh(np.atleast_2d(Sf).astype(np.float64))
                        if evf.min() < -1e-13 * max(evf.max(), 1e-300):
                            ctx.count("entry-point:float32-skipped-not-psd")
                            continue
                    elif form == "fortran":
                        Sf = np.asfortranarray(S)
                    else:
                        Sf = np.array(S, copy=True)
                        Sf.setflags(write=False)
                    ctx.count("entry-point:" + form)
                    compf = admm.admm_optimize_theta(Sf, lam, W, N).theta
                    whyf = spd_report(mc.reinflate_matrix(compf))
                    if whyf:
                        ctx.violation("monitor", "optimiser output for the covariance passed as %s is %s" % (form, whyf), {"case": dict(case, S_form=form)})
                # floor predicate
                for eps in (1e-6, 1e-3, 0.1):
                    F = gl._zero_small_elements(Th, eps)
                    a = np.abs(F)
                    if np.any((a > 0) & (a < eps)):
                        ctx.violation("monitor", "filtered matrix has an entry of magnitude in (0, eps)", {"case": case, "eps": eps})
                    big = np.abs(Th) >= eps
                    if not np.array_equal(F[big], Th[big]) or not np.array_equal(F, F.T):
                        ctx.violation("monitor", "filter altered an entry of magnitude >= eps or broke symmetry", {"case": case, "eps": eps})
                if not np.array_equal(gl._zero_small_elements(Th, 0), Th):
                    ctx.violation("monitor", "eps = 0 is not the identity", {"case": case})
                # ... and at the place where the library applies the floor to an optimiser result
                from fast_ticc.containers import model_state as _ms2, arguments as _args2
                for eps in (1e-6, 1e-3, 0.1):
                    ua2 = _args2.UserArguments(sparsity_weight=lam, iteration_limit=1, label_switching_cost=1.0, min_cluster_size=1,
                                               min_meaningful_covariance=eps, num_clusters=1, num_processors=1, biased_covariance=False, window_size=W)
                    R = gl._reconstruct_optimized_matrix(_ms2.ModelState.empty_model(ua2, None), np.array(comp, copy=True))
                    a = np.abs(R)
                    if np.any((a > 0) & (a < eps)):
                        ctx.violation("monitor", "MRF reconstructed with floor eps=%g keeps an entry of magnitude in (0, eps) (e.g. %.3g)" % (eps, float(a[(a > 0) & (a < eps)][0])), {"case": case, "eps": eps})
                    big = np.abs(Th) >= eps
                    if not np.array_equal(R[big], Th[big]):
                        ctx.violation("monitor", "reconstruction with floor altered an entry of magnitude >= eps", {"case": case, "eps": eps})
        # the library's own log-determinant of an MRF whose determinant leaves the double range
        from fast_ticc.containers import model_state as _ms, arguments as _args
        from fast_ticc import likelihood as _lk
        for (N, W, var) in ((6, 5, 1e12), (6, 5, 1e-12), (10, 4, 1e11)):
            n = N * W
            X = rng.normal(size=(3 * n, n)) * np.sqrt(var)
            S = np.atleast_2d(np.cov(X.T))
            case = {"N": N, "W": W, "variance": var, "what": "library log-determinant"}
            ctx.count("library-logdet")
            ctx.mark_nontrivial(repr(case))
            with ctx.guard("_update_cluster_covariances", case):
                comp = admm.admm_optimize_theta(S, 0.11, W, N).theta
                ua = _args.UserArguments(sparsity_weight=0.11, iteration_limit=1, label_switching_cost=1.0, min_cluster_size=1,
                                         min_meaningful_covariance=0, num_clusters=1, num_processors=1, biased_covariance=False, window_size=W)
                ms = _ms.ModelState.empty_model(ua, X)
                c = gl._update_cluster_covariances(ms, ms.clusters[0], comp)
                ref = np.linalg.slogdet(c.train_inverse)[1]
                if not np.isfinite(c.log_determinant) or abs(c.log_determinant - ref) > 1e-9 * max(1.0, abs(ref)):
                    ctx.violation("monitor", "log-determinant stored with the MRF is %r, the MRF's log-determinant is %r" % (float(c.log_determinant), float(ref)), {"case": case})
                c.stacked_data_mean = X.mean(axis=0)
                ms.clusters = [c]
                tab = _lk.all_points_all_clusters_log_likelihood(ms, X[:5])
                if not np.all(np.isfinite(tab)) or not np.isfinite(ms.clusters[0].log_determinant):
                    ctx.violation("monitor", "likelihoods scored against a positive-definite MRF are not finite (log-det %r)" % float(ms.clusters[0].log_determinant), {"case": case})
        # (c) traced runs: every MRF scored against, every float of every result
        runs = e2e.cached_runs(ctx, e2e.standard_grid(ctx.seed, ctx.thorough), "std")
        sweep = []
        for i, sc in enumerate([1e-4, 1e-2, 1.0, 1e2, 1e4, 1e6]):
            sweep.append({"N": 2, "W": 2, "K": 3, "beta": 5.0, "lam": [0.11, 0.0, 1.0][i % 3], "limit": 4, "m": 2, "biased": bool(i % 2), "eps": 0,
                          "joint": False, "lengths": [60], "data_seed": 20 + i, "rng_seed": 20 + i, "regimes": 3, "scale": sc})
        # singleton initial cluster with the unbiased estimator and iteration_limit 1 (witness of the repaired defect 94bb091)
        sweep.append({"N": 2, "W": 1, "K": 4, "beta": 5.0, "lam": 0.0, "limit": 1, "m": 5, "biased": False, "eps": 0, "joint": False,
                      "lengths": [40], "data_seed": 357598, "rng_seed": 390154, "regimes": 4})
        runs = runs + e2e.cached_runs(ctx, sweep, "c03")
        runs.append(e2e.traced_run({"N": 1, "W": 2, "K": 2, "beta": 1.0, "lengths": [30], "limit": 2, "m": 1, "data_seed": 1, "rng_seed": 1, "joint": False, "eps": 1e-3}))
        nm = 0
        for r in runs:
            ctx.count("run")
            cfg = r["cfg"]
            if r["error"] is not None:
                continue
            for e in r["events"]:
                if e["event"] == "phase" and e["phase"] in ("optimise", "relabel"):
                    for k, c in enumerate(e["state"]["clusters"]):
                        M = c["train_inverse"]
                        if M is None or M.dtype == object:
                            continue
                        nm += 1
                        why = spd_report(M)
                        if why and cfg.get("eps", 0) == 0:
                            ctx.violation("monitor", "MRF of cluster %d after %s (round %d) is %s" % (k, e["phase"], e["round"], why), {"cfg": cfg})
                        if cfg.get("eps", 0) > 0:
                            a = np.abs(M)
                            if np.any((a > 0) & (a < cfg["eps"])):
                                ctx.violation("monitor", "covariance floor violated in a traced run", {"cfg": cfg})
                        if e["phase"] == "relabel" and (c["log_determinant"] is None or not np.isfinite(c["log_determinant"])):
                            ctx.violation("monitor", "log-determinant of cluster %d not finite" % k, {"cfg": cfg})
            res = r["result"]
            floats = [res["label_assignment_cost"], res["bic"], res["overall"], res["overall_mean"], res["overall_median"]] + \
                res["all_log_likelihood"] + res["cluster_mean"] + res["cluster_median"]
            if cfg.get("eps", 0) == 0 and not np.all(np.isfinite(floats)):
                ctx.violation("monitor", "non-finite likelihood / cost / BIC in a returned result", {"cfg": cfg})
        ctx.notes["mrfs_checked"] = nm
    core.anchored_check(ctx, ANCHORS, cov, ignore=("filtered = array",))
    ctx.sample({"kind": "theta", "case": cases["theta"][0][1]})
    ctx.sample({"kind": "entry-point", "N,W,kind": grid[3][:3]})
    admm_tie.evaluate(ctx, cases, ["theta", "zero_small"])
    return ctx.finish(RULE)


def replay(ctx, data):
    from fast_ticc import admm, matrix_compression as mc
    c = data.get("detail", {}).get("case")
    if isinstance(c, dict) and "S_hex" in c:
        S = np.array([[float.fromhex(v) for v in row] for row in c["S_hex"]])
        Th = mc.reinflate_matrix(admm.admm_optimize_theta(S, c["lam"], c["W"], c["N"]).theta)
        why = spd_report(Th)
        print("replay:", why or "matrix is finite, symmetric, positive definite")
        return 1 if why else 0
    return run(ctx)
