"""Run `module:function(payload)` in a fresh interpreter (execution modes are
selected through the environment by the parent) and pickle the result."""
import importlib
import os
import pickle
import sys
import traceback


def main():
    target, inp, outp = sys.argv[1:4]
    if os.environ.get("VCHECK_BLOCK_NUMBA") == "1":
        sys.modules["numba"] = None
    modname, fn = target.split(":")
    try:
        payload = pickle.load(open(inp, "rb"))
        res = getattr(importlib.import_module(modname), fn)(payload)
        pickle.dump({"ok": True, "result": res}, open(outp, "wb"))
    except BaseException as e:  # noqa
        pickle.dump({"ok": False, "error": "%s: %s" % (type(e).__name__, e), "traceback": traceback.format_exc()}, open(outp, "wb"))


if __name__ == "__main__":
    main()
