"""Extract the round structure of a traced run (hooks H1/H3) and render it for Corr/RunMainLoop.v."""
from .core import c_nat, c_list, c_opt


def rounds_of(run):
    """returns dict(init, rounds=[(lin, lfit, lout)], order_ok, why, stop_event, final_labels, phases)"""
    ev = run["events"]
    init = None
    rounds = {}
    order_problem = None
    stop_event = None
    final_labels = None
    prev_out = None
    for e in ev:
        if e["event"] == "init":
            init = e["state"]["labels"]
        elif e["event"] == "phase":
            r = e["round"]
            d = rounds.setdefault(r, {"phases": []})
            d["phases"].append(e["phase"])
            d[e["phase"]] = e["state"]["labels"]
            d[e["phase"] + "_cost"] = e["state"]["cost"]
        elif e["event"] == "stop":
            stop_event = e
        elif e["event"] == "final":
            final_labels = e["state"]["labels"]
    out = []
    for r in sorted(rounds):
        d = rounds[r]
        want = (["repopulate"] if r > 0 else []) + ["statistics", "optimise", "relabel"]
        if d["phases"] != want and order_problem is None:
            order_problem = "round %d ran phases %s, expected %s" % (r, d["phases"], want)
        lin = init if r == 0 else rounds.get(r - 1, {}).get("relabel")
        lfit = d.get("statistics")
        lout = d.get("relabel")
        if d.get("optimise") is not None and d.get("optimise") != lfit and order_problem is None:
            order_problem = "round %d: labels changed between statistics and optimise" % r
        out.append((lin, lfit, lout, d.get("repopulate")))
    if sorted(rounds) != list(range(len(rounds))) and order_problem is None:
        order_problem = "round indices %s are not 0..n-1" % sorted(rounds)
    return {"init": init, "rounds": out, "order_problem": order_problem, "stop_event": stop_event, "final_labels": final_labels}


def ll(l):
    return c_list(l, c_nat)


def accept_literal(K, limit, tr, result_labels):
    t = c_list(["(%s, %s, %s)" % (ll(a), ll(b), ll(c)) for (a, b, c, _) in tr["rounds"]])
    return "(%s, %s, %s, %s, %s)" % (c_nat(K), c_nat(limit), ll(tr["init"]), t, ll(result_labels))


def replay_literal(limit, tr, fail_repop=None, fail_fit=None):
    """None if the recorded phase outputs are not functions of their inputs (same input, different output)"""
    rep, fit = {}, {}
    for (lin, lfit, lout, _) in tr["rounds"]:
        if lin is None or lfit is None:
            continue
        k = tuple(lin)
        if k in rep and rep[k] != lfit:
            return None
        rep[k] = lfit
        if lout is not None:
            k2 = tuple(lfit)
            if k2 in fit and fit[k2] != lout:
                return None
            fit[k2] = lout
    # round 0 never repopulates: its (lin -> lfit) pair must not leak into the repopulation table
    rep = {}
    for i, (lin, lfit, lout, _) in enumerate(tr["rounds"]):
        if i > 0 and lin is not None and lfit is not None:
            k = tuple(lin)
            if k in rep and rep[k] != lfit:
                return None
            rep[k] = lfit
    tbl = lambda d: c_list(["(%s, %s)" % (ll(list(k)), ll(v)) for k, v in d.items()])
    return "(%s, %s, %s, %s, %s, %s)" % (c_nat(limit), ll(tr["init"]), tbl(rep), tbl(fit), c_opt(fail_repop, ll), c_opt(fail_fit, ll))


ACCEPT_TYPE = "nat * nat * list nat * list rec3 * list nat"
REPLAY_TYPE = "nat * list nat * list (list nat * list nat) * list (list nat * list nat) * option (list nat) * option (list nat)"
