"""Entry point:  python -m vcheck <ID> [--tier quick|thorough] [--replay FILE]

The supervisor runs the actual check in a child interpreter with a fixed
environment and a time limit; a crash or time-out of the child is itself
reported as a violation (fail closed)."""
import argparse
import importlib
import json
import os
import subprocess
import sys
import time

from . import core


def child_env():
    env = dict(os.environ)
    env["PYTHONPATH"] = os.path.join(core.REPO, "src") + os.pathsep + core.VERIF
    env["PYTHONHASHSEED"] = "0"
    env["FAST_TICC_VERIF"] = "1"
    env.setdefault("NUMBA_DISABLE_JIT", "1")
    env.setdefault("OPENBLAS_NUM_THREADS", "1")
    env.setdefault("OMP_NUM_THREADS", "1")
    env["PYTHONDONTWRITEBYTECODE"] = "1"
    env.pop("CUPCAKE_ENABLE_MULTIPROCESSING", None)
    return env


def main():
    ap = argparse.ArgumentParser()
    ap.add_argument("prop")
    ap.add_argument("--tier", default=os.environ.get("VERIF_TIER", "quick"), choices=["quick", "thorough"])
    ap.add_argument("--replay")
    ap.add_argument("--child", action="store_true")
    a = ap.parse_args()
    seed = int(os.environ.get("VERIF_SEED", "0") or 0)
    prop = a.prop.upper()
    if a.child:
        try:
            import warnings
            warnings.filterwarnings("ignore")
            mod = importlib.import_module("vcheck.props." + prop.lower())
            ctx = core.Ctx(prop, a.tier, seed, a.replay)
            if a.replay:
                data = json.load(open(a.replay))
                rc = mod.replay(ctx, data)
            else:
                rc = mod.run(ctx)
        except BaseException:  # crash of the check itself: distinct exit status, fail closed above
            import traceback
            traceback.print_exc()
            sys.exit(3)
        sys.exit(1 if rc else 0)
    limit = 1500 if a.tier == "quick" else 7200
    cmd = [core.PY, "-m", "vcheck", prop, "--tier", a.tier, "--child"] + (["--replay", a.replay] if a.replay else [])
    t0 = time.time()
    try:
        p = subprocess.run(cmd, env=child_env(), cwd=core.VERIF, timeout=limit)
        rc = p.returncode
        why = "exit status %d" % rc
    except subprocess.TimeoutExpired:
        rc = 124
        why = "time limit of %ds exceeded" % limit
    if rc in (0, 1):
        sys.exit(rc)
    # fail closed
    d = os.path.join(core.VERIF, "replays", prop)
    os.makedirs(d, exist_ok=True)
    path = os.path.join(d, "check-crash-%s.json" % a.tier)
    body = {"property": prop, "tier": a.tier, "seed": seed, "kind": "check-crash",
            "what": "the check itself did not complete (%s); the correspondence harness:%s could not be evaluated" % (why, prop),
            "correspondence": "harness:" + prop}
    json.dump(body, open(path, "w"), indent=1)
    ev = {"property_id": prop, "tier": a.tier, "seed": seed, "level": "proof",
          "coverage": {"evaluations": 1, "distinct_nontrivial": 0, "obligations": 1, "discharged": 0,
                       "checker_cmd": "n/a (check crashed)", "trusted_base": [], "explanation": why},
          "wall_s": round(time.time() - t0, 2), "violations": 1}
    os.makedirs(os.path.join(core.VERIF, "evidence"), exist_ok=True)
    json.dump(ev, open(os.path.join(core.VERIF, "evidence", prop + ".json"), "w"), indent=1)
    print("VIOLATION property=%s replay=%s no-failing-input-found" % (prop, path), flush=True)
    sys.exit(1)


if __name__ == "__main__":
    main()
