"""Traced end-to-end runs of the front ends, shared by several property checks.

A run is executed in this process with the hook listener registered (guard
FAST_TICC_VERIF=1) and with main_loop._init_task_pool wrapped so that the
arguments of every optimisation task are recorded in the parent.  Everything
recorded is deep-copied at the moment of the event."""
import hashlib
import os
import pickle
import random
import time

import numpy as np

from . import core


def src_hash():
    h = hashlib.sha256()
    for root, _, files in sorted(os.walk(core.SRC)):
        for fn in sorted(files):
            if fn.endswith(".py"):
                p = os.path.join(root, fn)
                h.update(p.encode())
                h.update(open(p, "rb").read())
    return h.hexdigest()[:16]


def arr(x):
    if x is None:
        return None
    a = np.array(x, copy=True)
    return a


def snap_cluster(c):
    return {
        "id": id(c),
        "members": [int(i) for i in c.member_points],
        "members_id": id(c.member_points),
        "empirical_covariance": arr(c.empirical_covariance), "ec_id": id(c.empirical_covariance),
        "stacked_data_mean": arr(c.stacked_data_mean), "mean_id": id(c.stacked_data_mean),
        "train_inverse": arr(c.train_inverse), "ti_id": id(c.train_inverse),
        "computed_covariance": arr(c.computed_covariance), "cc_id": id(c.computed_covariance),
        "inverse_covariance": arr(c.inverse_covariance), "ic_id": id(c.inverse_covariance),
        "log_determinant": None if c.log_determinant is None else float(c.log_determinant),
    }


def snap_state(s):
    labels = s.point_labels
    return {
        "id": id(s),
        "labels": None if labels is None else [int(x) for x in labels],
        "labels_id": id(labels),
        "clusters": [snap_cluster(c) for c in s.clusters],
        "clusters_list_id": id(s.clusters),
        "cost": None if s.label_assignment_cost is None else float(s.label_assignment_cost),
        "args_id": id(s.arguments),
        "K": s.arguments.num_clusters,
    }


def snap_value(v):
    if isinstance(v, np.ndarray):
        return {"kind": "ndarray", "dtype": str(v.dtype), "value": arr(v), "id": id(v)}
    return {"kind": type(v).__name__, "value": v, "id": id(v)}


def _delayed_apply(delay, func, args, kwds):
    time.sleep(delay)
    return func(*args, **kwds)


def _delayed_item(func, pair):
    time.sleep(pair[0])
    return func(pair[1])


class DelayPool:
    """a worker pool in which the n-th task submitted (through whatever submission call) starts delays[n % len(delays)] seconds
    late, so that with several worker processes later-submitted tasks FINISH FIRST - a legal schedule of the real pool, forced"""

    def __init__(self, real, delays):
        self._real, self._delays, self._n = real, list(delays), 0

    def _next(self):
        d = self._delays[self._n % len(self._delays)]
        self._n += 1
        return d

    def apply_async(self, func, args=(), kwds=None, *a, **k):
        return self._real.apply_async(_delayed_apply, (self._next(), func, tuple(args), dict(kwds or {})), {}, *a, **k)

    def _items(self, func, iterable):
        import functools
        return functools.partial(_delayed_item, func), [(self._next(), x) for x in iterable]

    def imap_unordered(self, func, iterable, *a, **k):
        f, items = self._items(func, iterable)
        return self._real.imap_unordered(f, items, *a, **k)

    def imap(self, func, iterable, *a, **k):
        f, items = self._items(func, iterable)
        return self._real.imap(f, items, *a, **k)

    def map(self, func, iterable, *a, **k):
        f, items = self._items(func, iterable)
        return self._real.map(f, items, *a, **k)

    def map_async(self, func, iterable, *a, **k):
        f, items = self._items(func, iterable)
        return self._real.map_async(f, items, *a, **k)

    def __getattr__(self, name):
        return getattr(self._real, name)


class StalledResult:
    """the handle of a task that is still running when the parent first looks: the first `polls` inquiries are answered the way a
    real handle answers while its task has not finished - ready() is False, wait(t) returns when t has 'passed', get(t) raises
    TimeoutError - and after that (and for a get() without timeout) it is the real handle.  A legal behaviour of a slow worker,
    without the waiting."""

    def __init__(self, real, polls):
        self._real, self._polls = real, polls

    def _stalled(self):
        if self._polls > 0:
            self._polls -= 1
            return True
        return False

    def ready(self):
        return False if self._stalled() else self._real.ready()

    def wait(self, timeout=None):
        if timeout is not None and self._stalled():
            return None
        return self._real.wait(timeout)

    def get(self, timeout=None):
        if timeout is not None and self._stalled():
            import multiprocessing
            raise multiprocessing.TimeoutError()
        return self._real.get(timeout)

    def successful(self):
        if self._stalled():
            raise ValueError("%r not ready" % (self,))
        return self._real.successful()

    def __getattr__(self, name):
        return getattr(self._real, name)


class StallPool:
    """every `period`-th task submitted with apply_async gets a StalledResult"""

    def __init__(self, real, period, polls):
        self._real, self._period, self._polls, self._n = real, period, polls, 0

    def apply_async(self, func, args=(), kwds=None, *a, **k):
        r = self._real.apply_async(func, args, {} if kwds is None else kwds, *a, **k)
        self._n += 1
        return StalledResult(r, self._polls) if (self._n - 1) % self._period == 0 else r

    def __getattr__(self, name):
        return getattr(self._real, name)


class RecordingPool:
    """stands in for the multiprocessing pool; records what each task receives"""

    def __init__(self, real, log):
        self._real = real
        self._log = log

    def apply_async(self, func, args=(), kwds=None, *a, **k):
        kwds = {} if kwds is None else kwds
        self._log.append({"func": getattr(func, "__module__", "?") + "." + getattr(func, "__name__", "?"),
                          "args": [snap_value(x) for x in args], "kwargs": dict(kwds)})
        return self._real.apply_async(func, args, kwds, *a, **k)

    def __getattr__(self, name):
        return getattr(self._real, name)


def make_data(cfg):
    """synthetic regime-switching series; cfg: N, lengths (list), regimes, seed, scale"""
    rng = np.random.default_rng(cfg["data_seed"])
    N = cfg["N"]
    R = cfg.get("regimes", 3)
    means = rng.normal(0, 3.0, size=(R, N)) * cfg.get("scale", 1.0)
    mix = [rng.normal(0, 1, size=(N, N)) * 0.5 + np.eye(N) for _ in range(R)]
    if cfg.get("staircase"):
        # one short plateau per regime, each on its own level: as many well-separated groups as there are regimes
        out = []
        for T in cfg["lengths"]:
            lvl = (np.arange(T) // max(1, T // R)) * 10.0
            out.append(lvl[:, None] + rng.normal(size=(T, N)) * 0.5)
        return out
    series = []
    if cfg.get("series_regimes"):
        # every series lies entirely in one regime: the regime changes exactly at the series boundaries
        for T, r in zip(cfg["lengths"], cfg["series_regimes"]):
            series.append(means[r] + (rng.normal(size=(T, N)) @ mix[r].T) * cfg.get("scale", 1.0))
        return series
    for T in cfg["lengths"]:
        seg = max(4, T // (R + 1))
        x = np.zeros((T, N))
        t = 0
        r = int(rng.integers(0, R))
        while t < T:
            n = min(T - t, int(seg + rng.integers(0, seg)))
            x[t:t + n] = means[r] + (rng.normal(size=(n, N)) @ mix[r].T) * cfg.get("scale", 1.0)
            t += n
            r = (r + 1 + int(rng.integers(0, max(1, R - 1)))) % R
        if cfg.get("col_scales"):
            # sensors recorded in very different units
            x = x * np.asarray(cfg["col_scales"], dtype=float)[None, :N]
        x = x + cfg.get("offset", 0.0)
        if cfg.get("dead_sensor") is not None:
            # a sensor that reads exactly the same value throughout (disconnected, saturated)
            x[:, cfg["dead_sensor"]] = cfg.get("dead_value", 0.0)
        if cfg.get("data_dtype"):
            # count-like data: the same kind of series stored in an integer (or narrower float) array
            x = np.round(x * 4.0).astype(cfg["data_dtype"])
        series.append(x)
    return series


def lam_of(cfg):
    """the sparsity weight of a configuration: cfg["lam"] (scalar) or, with cfg["lam_matrix"] in {"sym", "upper", "asym"},
    a deterministic NW x NW matrix (symmetric / upper triangle only / different lower triangle)"""
    kind = cfg.get("lam_matrix")
    if not kind:
        return cfg.get("lam", 0.11)
    n = cfg["N"] * cfg["W"]
    i, j = np.indices((n, n))
    up = 0.05 + 0.02 * ((np.minimum(i, j) * 7 + np.maximum(i, j) * 3) % 5)
    if kind == "sym":
        return up
    if kind == "upper":
        return np.triu(up)
    low = 0.3 + 0.01 * ((i * 5 + j) % 7)
    return np.where(i <= j, up, low)


def beta_of(cfg):
    """the switching cost of a configuration: cfg["beta"] (scalar) or, with cfg["beta_vec"] in {"ramp", "random", "const"},
    a deterministic per-pair vector with one entry per stacked point (entry i prices the pair (i, i+1))"""
    kind = cfg.get("beta_vec")
    if not kind:
        return cfg.get("beta", 5.0)
    n = sum(T - cfg["W"] + 1 for T in cfg["lengths"])
    base = float(cfg.get("beta", 5.0))
    if kind == "const":
        return np.full(n, base)
    if kind == "ramp":
        return base * (0.25 + np.arange(n) / max(1, n - 1) * 3.0)
    r = np.random.default_rng(cfg.get("data_seed", 0) + 17)
    return base * r.uniform(0.1, 4.0, size=n)


def traced_run(cfg, extra_patches=None):
    """cfg keys: N, lengths, W, K, beta, lam, limit, m, biased, eps, joint(bool), data_seed, rng_seed, regimes.
    returns a dict (picklable)"""
    from fast_ticc import _verif, front_end, main_loop
    series = make_data(cfg)
    events = []
    tasks = []

    live = {"state": None}

    def listener(event, payload):
        rec = {"event": event}
        if event == "phase" and live["state"] is not None:
            # the state object that was handed to this phase, re-read after the phase returned
            rec["given_after"] = snap_state(live["state"])
        if "state" in payload:
            live["state"] = payload["state"]
        for k, v in payload.items():
            if k in ("state", "model", "new_model"):
                rec[k] = snap_state(v)
            elif k == "pool":
                rec["pool_state"] = getattr(v, "_state", None) if not isinstance(v, RecordingPool) else getattr(v._real, "_state", None)
            elif k == "switching_cost":
                rec[k] = snap_value(v)
            elif isinstance(v, np.ndarray):
                rec[k] = arr(v)
                rec[k + "_id"] = id(v)
            elif k == "labels":
                rec[k] = [int(x) for x in v]
            elif k == "args":
                continue
            else:
                rec[k] = v
        rec["n_tasks_so_far"] = len(tasks)
        events.append(rec)
    orig_init = main_loop._init_task_pool

    def init_pool(n):
        real = orig_init(n)
        if cfg.get("delays"):
            real = DelayPool(real, cfg["delays"])       # adverse completion order (needs mp=True and procs >= 2 to matter)
        if cfg.get("stall"):
            real = StallPool(real, *cfg["stall"])       # (period, polls): some tasks look unfinished for the first few inquiries
        return RecordingPool(real, tasks)
    _verif.clear_listeners()
    _verif.add_listener(listener)
    main_loop._init_task_pool = init_pool
    np.random.seed(cfg["rng_seed"])
    random.seed(cfg["rng_seed"])
    kw = dict(window_size=cfg["W"], num_clusters=cfg["K"], sparsity_weight=lam_of(cfg),
              label_switching_cost=beta_of(cfg), iteration_limit=cfg.get("limit", 20),
              min_meaningful_covariance=cfg.get("eps", 0), num_processors=cfg.get("procs", 1),
              min_cluster_size=cfg.get("m", 2), biased_covariance=cfg.get("biased", False))
    out = {"cfg": cfg, "series": [s.copy() for s in series], "events": events, "tasks": tasks, "error": None, "result": None}
    undo = []
    import io, contextlib
    t0 = time.time()
    env_before = os.environ.get("CUPCAKE_ENABLE_MULTIPROCESSING")
    if cfg.get("mp"):
        os.environ["CUPCAKE_ENABLE_MULTIPROCESSING"] = "1"      # real worker processes (cfg["procs"] of them)
    try:
        if extra_patches:
            undo = extra_patches()
        if cfg.get("relabel_script"):
            # the relabelling phase answers with a scripted sequence of labellings (K = 2) instead of its own: a legal behaviour of
            # that phase as far as the main loop can tell (the loop is specified for arbitrary phase functions; the real phase does
            # cycle on rare inputs).  "cycle2": A, B, A, B, ...   "cycle3": A, B, C, A, ...   "settle": A, B, B, ...
            from fast_ticc import cluster_label_assignment as _cla
            _orig_predict = _cla.predict_cluster_labels
            _count = {"n": 0}

            def _scripted(model, data, *a_, **k_):
                new = _orig_predict(model, data, *a_, **k_)
                T_ = len(new.point_labels)
                cuts = {"cycle2": [T_ // 2, T_ // 2 + 3], "cycle3": [T_ // 2, T_ // 2 + 3, T_ // 2 - 4],
                        "settle": [T_ // 2] + [T_ // 2 + 3] * 50}[cfg["relabel_script"]]
                h = cuts[_count["n"] % len(cuts)]
                _count["n"] += 1
                new.point_labels = [0] * h + [1] * (T_ - h)
                return new
            _cla.predict_cluster_labels = _scripted
            undo = list(undo) + [lambda: setattr(_cla, "predict_cluster_labels", _orig_predict)]
        with contextlib.redirect_stdout(io.StringIO()):
            if cfg.get("joint"):
                res = front_end.ticc_joint_labels([s for s in series], **kw)
            else:
                res = front_end.ticc_labels(series[0], **kw)
        out["returned"] = type(res).__name__
        out["result"] = {
            "point_labels": [[int(x) for x in l] for l in res.point_labels] if cfg.get("joint") else [int(x) for x in res.point_labels],
            "label_assignment_cost": float(res.label_assignment_cost),
            "markov_random_fields": [arr(m) for m in res.markov_random_fields],
            "num_clusters": res.num_clusters, "window_size": res.window_size,
            "bic": float(res.bayesian_information_criterion), "chi": float(res.calinski_harabasz_index),
            "all_log_likelihood": [float(x) for x in res.all_log_likelihood],
            "overall": float(res.overall_log_likelihood), "overall_mean": float(res.overall_log_likelihood_mean),
            "overall_median": float(res.overall_log_likelihood_median),
            "cluster_mean": [float(x) for x in res.cluster_log_likelihood_mean],
            "cluster_median": [float(x) for x in res.cluster_log_likelihood_median],
            "type": type(res).__name__,
        }
    except Exception as e:  # noqa
        # what a caller's own except clause would see: worker processes alive while the exception is still in flight
        import multiprocessing as _mp
        out["children_at_raise"] = len(_mp.active_children())
        out["error"] = "%s%s: %s" % ("the call returned a %s whose fields could not be read - " % out["returned"] if out.get("returned") else "",
                                    type(e).__name__, str(e)[:300])
    finally:
        if cfg.get("mp"):
            if env_before is None:
                os.environ.pop("CUPCAKE_ENABLE_MULTIPROCESSING", None)
            else:
                os.environ["CUPCAKE_ENABLE_MULTIPROCESSING"] = env_before
        main_loop._init_task_pool = orig_init
        _verif.clear_listeners()
        for u in undo:
            u()
    out["wall_s"] = time.time() - t0
    out["inputs_untouched"] = all(np.array_equal(a, b) for a, b in zip(series, out["series"]))
    return out


def report_errors(ctx, runs):
    """Every configuration of the shared grids completes on the tree the checks were validated on.  A run that raises is
    reported with its configuration as the concrete input - except the library's own ways of giving up, which a different
    random initialisation can bring about (donor shortage: RuntimeError; singular fit: LinAlgError; the mixture model
    failing or leaving a component empty), which only make the run one that 'does not complete'."""
    seen = ctx.notes.setdefault("_reported_run_errors", [])
    for r in runs:
        e = r.get("error")
        if not e:
            continue
        key = repr(r["cfg"])
        if key in seen:
            continue
        seen.append(key)
        legit = ((e.startswith("RuntimeError") and "donor" in e.lower()) or e.startswith("LinAlgError")
                 or "Fitting the mixture model failed" in e               # scikit-learn's initialisation gives up (degenerate scales)
                 or "Cluster needs at least one point" in e)              # the initialisation left a mixture component empty
        if legit:
            ctx.notes.setdefault("runs_not_completed", []).append(e[:80])
            continue
        ctx.violation("monitor", "an end-to-end run raised instead of returning a result: %s" % e[:200], {"case": {"cfg": r["cfg"]}, "error": e})


def cached_runs(ctx, cfgs, tag):
    """run (or fetch from the run cache keyed by the hash of /repo/src/fast_ticc) a list of configurations"""
    runs = _cached_runs(ctx, cfgs, tag)
    report_errors(ctx, runs)
    return runs


def _cached_runs(ctx, cfgs, tag):
    d = os.path.join(core.WORK, "runcache")
    os.makedirs(d, exist_ok=True)
    harness = hashlib.sha256(open(__file__, "rb").read()).hexdigest()[:12]
    key = hashlib.sha256((src_hash() + harness + repr(cfgs) + tag).encode()).hexdigest()[:20]
    p = os.path.join(d, key + ".pkl")
    if os.path.exists(p):
        try:
            runs = pickle.load(open(p, "rb"))
            ctx.notes.setdefault("runcache_hits", 0)
            ctx.notes["runcache_hits"] += 1
            return runs
        except Exception:
            pass
    runs = [traced_run(c) for c in cfgs]
    tmp = p + ".%d.tmp" % os.getpid()
    pickle.dump(runs, open(tmp, "wb"))
    os.replace(tmp, p)
    # keep the cache small
    files = sorted((os.path.getmtime(os.path.join(d, f)), f) for f in os.listdir(d) if f.endswith(".pkl"))
    for _, f in files[:-12]:
        os.remove(os.path.join(d, f))
    return runs


def standard_grid(seed, thorough=False):
    """the end-to-end grid shared by C04, C05, C06, C09, C12, C13, C16, C17"""
    rng = np.random.default_rng(seed + 77)
    cfgs = []
    combos = [(1, 1), (1, 3), (2, 1), (2, 2), (2, 3), (3, 2), (2, 4), (3, 3), (1, 5), (3, 1), (2, 5), (3, 4)]
    reps = 3 if thorough else 1
    for rep in range(reps):
        for i, (N, W) in enumerate(combos):
            K = [2, 3, 4][(i + rep) % 3]
            joint = (i + rep) % 3 == 1
            ns = int(rng.integers(1, 5)) if joint else 1
            lengths = [int(rng.integers(W + 25, W + 70)) for _ in range(ns)]
            cfgs.append({"N": N, "W": W, "K": K, "beta": [0.0, 1.0, 5.0, 50.0][(i + rep) % 4], "lam": [0.11, 0.0, 1.0][(i // 2) % 3],
                         "limit": [1, 2, 3, 30][(i + 2 * rep) % 4], "m": [1, 2, 5][i % 3], "biased": bool(i % 2),
                         "eps": 0 if i % 4 else 1e-3, "joint": joint, "lengths": lengths,
                         "data_seed": int(rng.integers(0, 10 ** 6)), "rng_seed": int(rng.integers(0, 10 ** 6)), "regimes": 2 + (i % 3)})
    # runs engineered to end with empty clusters / repopulation: more clusters than regimes
    for j in range(4 if not thorough else 10):
        cfgs.append({"N": 2, "W": 2, "K": 5 + (j % 2), "beta": [20.0, 100.0][j % 2], "lam": 0.11, "limit": [4, 30][j % 2], "m": [1, 2][j % 2],
                     "biased": False, "eps": 0, "joint": j % 2 == 1, "lengths": [70, 50][: 1 + (j % 2)], "data_seed": 1000 + j + seed,
                     "rng_seed": 5 + j, "regimes": 2})
    # runs stopped by the iteration limit whose last relabelling leaves clusters with < 2 points
    # (a large switching cost collapses the labelling after the first rounds)
    for j in range(3 if not thorough else 8):
        cfgs.append({"N": 2, "W": [2, 1, 3][j % 3], "K": [3, 4, 5][j % 3], "beta": [1e6, 5e3, 1e5][j % 3], "lam": 0.11, "limit": 1,
                     "m": [10, 3, 5][j % 3], "biased": bool(j % 2), "eps": 0, "joint": j % 3 == 1, "lengths": [[120], [70, 60], [90]][j % 3],
                     "data_seed": 2000 + j + seed, "rng_seed": 50 + j, "regimes": 2})
    for j in range(2 if not thorough else 6):
        cfgs.append({"N": 2, "W": 1 + j % 2, "K": 6, "beta": [3.0, 8.0][j % 2], "lam": 0.11, "limit": 2, "m": 2, "biased": False, "eps": 0,
                     "joint": False, "lengths": [80], "data_seed": 3000 + j + seed, "rng_seed": 60 + j, "regimes": 2})
    # unusual but legal forms of every input, combined: per-pair switching costs that are not all equal, matrix-valued sparsity
    # weights that are not symmetric, series stored as integers / single precision, sensors in very different units, more
    # clusters than regimes (clusters that end unused, not only the last one), window sizes divisible by 4, worker processes,
    # covariance floors below the BIC threshold
    div = [
        dict(N=2, W=4, K=3, beta=3.0, beta_vec="ramp", lam=0.11, limit=4, m=2, biased=False, eps=0, joint=False, lengths=[90], regimes=3),
        dict(N=1, W=8, K=2, beta=2.0, beta_vec="random", lam=0.05, limit=3, m=2, biased=True, eps=0, joint=False, lengths=[100], regimes=2),
        dict(N=2, W=2, K=2, beta=4.0, lam_matrix="asym", limit=3, m=2, biased=False, eps=0, joint=False, lengths=[70], regimes=2),
        dict(N=3, W=1, K=3, beta=1.0, lam_matrix="upper", limit=30, m=1, biased=True, eps=1e-9, joint=False, lengths=[80], regimes=3),
        dict(N=2, W=2, K=3, beta=2.0, lam=0.11, limit=30, m=2, biased=False, eps=0, joint=False, lengths=[90], regimes=3, data_dtype="int64"),
        dict(N=2, W=3, K=2, beta=5.0, lam=0.11, limit=3, m=2, biased=False, eps=0, joint=True, lengths=[40, 31], regimes=2, data_dtype="float32"),
        dict(N=3, W=1, K=2, beta=2.0, lam=0.11, limit=4, m=2, biased=False, eps=0, joint=False, lengths=[90], regimes=2, col_scales=[1e-2, 1.0, 1e4]),
        dict(N=1, W=2, K=4, beta=6.0, lam=0.11, limit=30, m=1, biased=False, eps=0, joint=False, lengths=[120], regimes=2),
        dict(N=2, W=1, K=5, beta=15.0, lam=0.11, limit=30, m=2, biased=False, eps=1e-5, joint=False, lengths=[110], regimes=2),
        dict(N=1, W=4, K=2, beta=2.0, lam=0.11, limit=3, m=2, biased=False, eps=0, joint=True, lengths=[30, 50, 40], regimes=2, mp=True, procs=2),
        dict(N=2, W=12, K=2, beta=1.0, beta_vec="const", lam=0.3, limit=2, m=2, biased=False, eps=0, joint=False, lengths=[64], regimes=2),
        dict(N=1, W=1, K=3, beta=0.0, lam=0.0, limit=30, m=1, biased=True, eps=0, joint=False, lengths=[75], regimes=3, offset=1e4),
        # real worker processes under an adverse schedule: the first task of every batch finishes last / the tasks finish in reverse
        dict(N=2, W=2, K=3, beta=4.0, lam=0.11, limit=3, m=2, biased=False, eps=0, joint=False, lengths=[120], regimes=3, mp=True, procs=3,
             delays=[0.35, 0.0, 0.0]),
        dict(N=1, W=3, K=4, beta=2.0, lam=0.11, limit=2, m=2, biased=True, eps=0, joint=True, lengths=[70, 60], regimes=3, mp=True, procs=4,
             delays=[0.45, 0.3, 0.15, 0.0]),
        # a worker that is slow to answer: the first task of every round still looks unfinished the first three times the parent asks
        dict(N=2, W=2, K=3, beta=4.0, lam=0.11, limit=3, m=2, biased=False, eps=0, joint=False, lengths=[110], regimes=3, stall=(3, 3)),
    ]
    # as many regimes as clusters and a large refill size: a cluster is starved in mid-run, refilled, and the run converges with
    # every cluster populated (data seeds fixed: the event sequence was observed on the validated tree)
    for jj in ((11, 59) if not thorough else (11, 59, 23, 131)):
        cfgs.append({"N": 3, "W": 1, "K": 5, "beta": 10.0, "lam": 0.11, "limit": 30, "m": 10, "biased": False, "eps": 0, "joint": False,
                     "lengths": [300], "data_seed": 1700 + jj, "rng_seed": 1700 + jj, "regimes": 5})
    for j, c in enumerate(div if thorough else div[:: 1]):
        c = dict(c)
        c["data_seed"] = 5000 + j + seed
        c["rng_seed"] = 70 + j
        cfgs.append(c)
    return cfgs
