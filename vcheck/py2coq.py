"""py2coq: a small, FAIL-CLOSED translator from the pure integer / list code of fast_ticc to Gallina.

It is the second tie between model and code (DESIGN.md section 0b): on every run the functions listed
in TARGETS are read from /repo's working tree with Python's `ast`, translated into Gallina text
(coq/Gen/G_*.v, definitions over coq/Gen/PyRt.v) and the equivalence theorems of coq/Proofs/GenEquiv*.v -
generated definition = hand-written model, for all arguments in the stated domain - are re-checked by
coqc against what the code says now.  Any construct outside the supported subset raises Unsupported: the
function is then NOT emitted, the equivalence proof that mentions it no longer compiles, and the check
reports the broken tie.

Supported subset (everything else is an error):
  statements   assignment to a name; x.append(e); x.pop(); a[[..]] = c; a[i, s:e] = row; if / else;
               for .. in range(e) / in <list>; assert; raise; return; docstrings
  expressions  int literals, names, + - * on ints, int/float mixing, true division by a non-zero literal,
               comparisons, and / or / not, int(), len(), sum(), list(itertools.accumulate()), [x] * n,
               list + list, list / tuple literals, list comprehensions (one generator, no condition),
               l[i], l[a:b], t[0] / t[1] on pairs, a.shape[0] / a.shape[1], a[i, :], np.zeros([r, c]),
               np.ones(shape=(n,)), np.vstack(list), calls of other translated functions
The semantic table (what each primitive means) is coq/Gen/PyRt.v.
"""
import ast
import hashlib
import os
import re

KEYWORDS = {"end", "in", "at", "as", "fix", "fun", "if", "let", "match", "return", "then", "with", "else", "forall",
            "exists", "Type", "Set", "Prop", "cofix", "for", "where", "using", "struct", "mod", "left", "right", "fst", "snd",
            "map", "length", "seq", "nth", "rev", "app", "concat", "repeat", "bind", "Ret", "Raise", "res", "id", "sum", "F", "f0", "f1"}


class Unsupported(Exception):
    pass


INERT_CALLS = ("_verif.emit", "LOGGER.info", "LOGGER.debug", "LOGGER.warning")


def cname(n):
    return n + "_" if n in KEYWORDS else n


def fname(n):
    # methods are named  Class.method  or  Class.method@setter
    base = n.split(".")[-1]
    if base.endswith("@setter"):
        base = base[:-7].lstrip("_") + "_setter"
    return "g_" + base.lstrip("_")


def ty_coq(t):
    if t == "int":
        return "Z"
    if t == "float":
        return "Q"
    if t == "bool":
        return "bool"
    if t == "F":
        return "F"
    if t == "arr2":
        return "(arr2 F)"
    if t == "arr2u16":
        return "(arr2 Z)"
    if t == "mask2":
        return "(arr2 bool)"
    if t in ("col", "rowT"):
        return "(list F)"
    if t == "MATacc":
        return "M"
    if t == "nd":
        return "(nd F)"
    if t == "LAM":
        return "L"
    if t == "lamv":
        return "(lamv F)"
    if t == "MAT":
        return "M"
    if t == "CL":
        return "CL"
    if isinstance(t, tuple) and t[0] == "record":
        return t[4] if len(t) > 4 else "(%s F L)" % t[1]
    if isinstance(t, tuple) and t[0] in ("dict", "ddict"):
        return "(list (Z * %s))" % ty_coq(t[1])
    if t == "unit":
        return "unit"
    if isinstance(t, tuple) and t[0] == "list":
        return "(list %s)" % ty_coq(t[1])
    if isinstance(t, tuple) and t[0] == "tuple":
        return "(" + " * ".join(ty_coq(x) for x in t[1]) + ")"
    raise Unsupported("type %r" % (t,))


def ann_type(node, overrides, key):
    if key in overrides:
        return overrides[key]
    if node is None:
        raise Unsupported("missing annotation for %s" % (key,))
    s = ast.unparse(node)
    table = {
        "int": "int", "bool": "bool", "List[int]": ("list", "int"), "IndexList": ("list", "int"),
        "List[Tuple[int, int]]": ("list", ("tuple", ["int", "int"])),
        "ArrayPositionList": ("list", ("tuple", ["int", "int"])),
        "Tuple[IndexList, IndexList]": ("tuple", [("list", "int"), ("list", "int")]),
        "Tuple[List[int], List[int]]": ("tuple", [("list", "int"), ("list", "int")]),
        "List[List[int]]": ("list", ("list", "int")),
    }
    if s in table:
        return table[s]
    raise Unsupported("annotation %s for %s" % (s, key))


class Fn:
    """translation of one function"""

    def __init__(self, mod, node, sigs, overrides, externs=None, key=None):
        self.key = key or node.name    # Class.method[@setter] for methods
        self.loop_k = []               # continuations that end the current iteration of the enclosing loops
        self.while_depth = 0
        self.uses_fuel = False
        self.externs = externs or {}   # source name -> (arg types, return type, Coq name, monadic?)
        self.mod = mod
        self.node = node
        self.sigs = sigs            # name -> (arg types, return type) of translated functions
        self.overrides = overrides
        self.tmp = 0

    def fresh(self, base="t"):
        self.tmp += 1
        return "%s%d_" % (base, self.tmp)

    # ------------------------------------------------------------ expressions
    # returns (binds, code, type); binds = [(pattern, monadic code)]
    def lit_F(self, e):
        if isinstance(e, ast.Constant) and e.value in (0, 1) and not isinstance(e.value, bool):
            return "f1" if e.value == 1 else "f0"
        raise Unsupported("array element value %s" % ast.unparse(e))

    def toQ(self, code, t):
        if t == "float":
            return code
        if t == "int":
            return "(inject_Z %s)" % code
        raise Unsupported("numeric coercion of %s" % (t,))

    def expr(self, e, env):
        if isinstance(e, ast.Constant):
            if isinstance(e.value, bool):
                return [], ("true" if e.value else "false"), "bool"
            if isinstance(e.value, int):
                return [], "(%d)" % e.value, "int"
            if isinstance(e.value, float) and "flit" in self.externs:
                # a float literal: named by its shortest round-trip decimal form (interpreted by the instance)
                return [], '(flit "%s")' % repr(e.value), "F"
            raise Unsupported("constant %r" % (e.value,))
        if isinstance(e, ast.Name):
            if e.id not in env:
                raise Unsupported("unknown name %s" % e.id)
            if isinstance(env[e.id], tuple) and env[e.id][0] == "alias":
                raise Unsupported("function alias %s used as a value" % e.id)
            return [], cname(e.id), env[e.id]
        if isinstance(e, ast.Dict) and not e.keys:
            return [], "[]", ("dict", None)
        if isinstance(e, ast.Attribute) and ast.unparse(e) == "math.pi" and "math_pi" in self.externs:
            return [], "math_pi", "F"
        if isinstance(e, ast.BinOp) and isinstance(e.op, ast.MatMult) and "np_quad_form" in self.externs \
                and isinstance(e.left, ast.BinOp) and isinstance(e.left.op, ast.MatMult) \
                and isinstance(e.left.left, ast.Attribute) and e.left.left.attr == "T":
            # v.T @ m @ w  with v, w 1-D and m 2-D: one uninterpreted BLAS expression
            b1, c1, t1 = self.expr(e.left.left.value, env)
            b2, c2, t2 = self.expr(e.left.right, env)
            b3, c3, t3 = self.expr(e.right, env)
            if (t1, t2, t3) == (("list", "F"), "MAT", ("list", "F")):
                return b1 + b2 + b3, "(np_quad_form %s %s %s)" % (c1, c2, c3), "F"
            raise Unsupported("matrix product %s" % ast.unparse(e))
        if isinstance(e, ast.Attribute):
            b, c, t = self.expr(e.value, env)
            if isinstance(t, tuple) and t[0] == "record" and e.attr in t[2]:
                ft = t[2][e.attr]
                if isinstance(ft, tuple) and ft[0] == "alias":
                    # a read-only property that returns another field
                    return b, "(%s %s)" % (t[3] + ft[1], c), t[2][ft[1]]
                return b, "(%s %s)" % (t[3] + e.attr, c), ft
            if t == ("list", "F") and e.attr == "size":
                return b, "(py_len %s)" % c, "int"
            if t == "MAT" and e.attr == "T" and "np_matmul" in self.externs:
                return b, "(np_transpose %s)" % c, "MAT"
            if t == "arr2" and e.attr == "T":
                return b, "(arr2_transpose f0 %s)" % c, "arr2"
            if t == "col" and e.attr == "T":
                return b, c, "rowT"
            raise Unsupported("attribute %s" % ast.unparse(e))
        if isinstance(e, ast.IfExp):
            bc, cc, tc = self.expr(e.test, env)
            b1, c1, t1 = self.expr(e.body, env)
            b2, c2, t2 = self.expr(e.orelse, env)
            if b1 or b2 or tc != "bool" or repr(t1) != repr(t2):
                raise Unsupported("conditional expression %s" % ast.unparse(e))
            return bc, "(if %s then %s else %s)" % (cc, c1, c2), t1
        if isinstance(e, ast.UnaryOp):
            if isinstance(e.op, ast.USub):
                b, c, t = self.expr(e.operand, env)
                if t == "int":
                    return b, "(- %s)" % c, "int"
                if t == "F":
                    # -x is rendered as 0 - x (differs from the exact negation only in the sign of a zero, which no
                    # comparison observes)
                    return b, "(fsub (of_int (0)) %s)" % c, "F"
            if isinstance(e.op, ast.Not):
                b, c, t = self.expr(e.operand, env)
                if t == "bool":
                    return b, "(negb %s)" % c, "bool"
            raise Unsupported("unary %s" % ast.unparse(e))
        if isinstance(e, ast.BinOp):
            return self.binop(e, env)
        if isinstance(e, ast.Compare) and len(e.ops) == 1 and isinstance(e.ops[0], (ast.Is, ast.IsNot)) \
                and ast.unparse(e.comparators[0]) == "None":
            b1, c1, t1 = self.expr(e.left, env)
            if isinstance(t1, tuple) and t1[0] == "list":
                # a value typed as a list is not None (the typing of the field is part of the rendering)
                return b1, ("false" if isinstance(e.ops[0], ast.Is) else "true"), "bool"
            raise Unsupported("None test on %s" % (t1,))
        if isinstance(e, ast.Compare):
            if len(e.ops) != 1:
                raise Unsupported("chained comparison")
            b1, c1, t1 = self.expr(e.left, env)
            b2, c2, t2 = self.expr(e.comparators[0], env)
            op = type(e.ops[0])
            if op in (ast.NotEq, ast.Eq) and t1 == ("list", "int") and t2 == ("list", "int"):
                return b1 + b2, ("(negb (py_list_eqb %s %s))" if op is ast.NotEq else "(py_list_eqb %s %s)") % (c1, c2), "bool"
            if t1 == "arr2" and t2 == "F" and op in (ast.Lt, ast.Gt):
                return b1 + b2, ("(arr2_map (fun a_ => fltb %s %s) %s)" % (("a_", c2, c1) if op is ast.Lt else (c2, "a_", c1))), "mask2"
            if t1 == ("list", "F") and t2 in ("F", "int") and op is ast.Lt:
                c2f = c2 if t2 == "F" else "(of_int %s)" % c2
                return b1 + b2, "(map (fun a_ => fltb a_ %s) %s)" % (c2f, c1), ("list", "bool")
            if t1 == "F" and t2 == "F" and op in (ast.Lt, ast.Gt):
                # float comparison: a > b is b < a
                return b1 + b2, ("(fltb %s %s)" % ((c1, c2) if op is ast.Lt else (c2, c1))), "bool"
            if t1 == "F" and t2 == "F" and op in (ast.LtE, ast.GtE) and "fleb" in self.externs:
                return b1 + b2, ("(fleb %s %s)" % ((c1, c2) if op is ast.LtE else (c2, c1))), "bool"
            if t1 != "int" or t2 != "int":
                raise Unsupported("comparison of %s and %s" % (t1, t2))
            tbl = {ast.Lt: "(%s <? %s)", ast.LtE: "(%s <=? %s)", ast.Gt: "(%s >? %s)", ast.GtE: "(%s >=? %s)",
                   ast.Eq: "(%s =? %s)", ast.NotEq: "(negb (%s =? %s))"}
            if op not in tbl:
                raise Unsupported("comparison operator")
            return b1 + b2, tbl[op] % (c1, c2), "bool"
        if isinstance(e, ast.BoolOp):
            parts = [self.expr(v, env) for v in e.values]
            if any(p[0] for p in parts[1:]):
                raise Unsupported("short-circuit operand with effects")
            if any(p[2] != "bool" for p in parts):
                raise Unsupported("non-boolean operand of and/or")
            op = " || " if isinstance(e.op, ast.Or) else " && "
            return parts[0][0], "(" + op.join(p[1] for p in parts) + ")", "bool"
        if isinstance(e, ast.Tuple):
            parts = [self.expr(v, env) for v in e.elts]
            return sum((p[0] for p in parts), []), "(" + ", ".join(p[1] for p in parts) + ")", ("tuple", [p[2] for p in parts])
        if isinstance(e, ast.List):
            parts = [self.expr(v, env) for v in e.elts]
            ts = {repr(p[2]) for p in parts}
            if len(ts) > 1:
                raise Unsupported("heterogeneous list")
            return sum((p[0] for p in parts), []), "[" + "; ".join(p[1] for p in parts) + "]", ("list", parts[0][2] if parts else None)
        if isinstance(e, ast.ListComp):
            return self.listcomp(e, env)
        if isinstance(e, ast.Subscript):
            return self.subscript(e, env)
        if isinstance(e, ast.Call):
            return self.call(e, env)
        raise Unsupported("expression %s" % ast.unparse(e))

    def binop(self, e, env):
        b1, c1, t1 = self.expr(e.left, env)
        b2, c2, t2 = self.expr(e.right, env)
        b = b1 + b2
        op = type(e.op)
        if op in (ast.Add, ast.Sub) and (t1, t2) == ("arr2", "arr2"):
            v = self.fresh()
            return b + [(v, "arr2_bin %s %s %s" % ("fadd" if op is ast.Add else "fsub", c1, c2))], v, "arr2"
        if op is ast.BitAnd and (t1, t2) == ("mask2", "mask2"):
            v = self.fresh()
            return b + [(v, "np_mask_and %s %s" % (c1, c2))], v, "mask2"
        VEC = ("list", "F")
        if "np_outer" in self.externs and op is ast.MatMult and (t1, t2) == ("col", "rowT"):
            return b, "(np_outer %s %s)" % (c1, c2), "MAT"
        if "np_outer" in self.externs and op is ast.Add and t2 == "MAT" and t1 in ("MAT", "int"):
            # an int accumulator that meets matrices (0 + M): the int converts to the constant matrix
            return b, "(np_mat_add %s %s)" % (c1 if t1 == "MAT" else "(np_mat_of_int %s)" % c1, c2), "MAT"
        if "np_outer" in self.externs and op is ast.Mult and t1 == "int" and t2 == "MAT":
            return b, "(np_mat_scale (of_int %s) %s)" % (c1, c2), "MAT"
        if "np_outer" in self.externs and op is ast.Mult and t1 == "F" and t2 == "float":
            return b, "(fmul %s (of_q %s))" % (c1, c2), "F"
        if "np_matmul" in self.externs and "MAT" in (t1, t2):
            # dense matrices are opaque: their arithmetic is a named BLAS / NumPy oracle
            if op is ast.MatMult and (t1, t2) == ("MAT", "MAT"):
                return b, "(np_matmul %s %s)" % (c1, c2), "MAT"
            if op is ast.Sub and (t1, t2) == ("MAT", "MAT"):
                return b, "(np_mat_sub %s %s)" % (c1, c2), "MAT"
            if op is ast.Mult and t1 in ("F", "int") and t2 == "MAT":
                return b, "(np_mat_scale %s %s)" % (c1 if t1 == "F" else "(of_int %s)" % c1, c2), "MAT"
            raise Unsupported("matrix arithmetic %s" % ast.unparse(e))
        if op in (ast.Add, ast.Sub, ast.Mult, ast.Div) and (t1 in ("F", VEC, "nd") or t2 in ("F", VEC, "nd")):
            # floating-point kernels: elementwise NumPy arithmetic over the abstract carrier F
            f = {ast.Add: "fadd", ast.Sub: "fsub", ast.Mult: "fmul", ast.Div: "fdiv"}[op]
            if t1 == "int":
                c1, t1 = "(of_int %s)" % c1, "F"
            if t2 == "int":
                c2, t2 = "(of_int %s)" % c2, "F"
            if t1 == "F" and t2 == "F":
                return b, "(%s %s %s)" % (f, c1, c2), "F"
            if t1 == VEC and t2 == "F":
                return b, "(map (fun a_ => %s a_ %s) %s)" % (f, c2, c1), VEC
            if t1 == "F" and t2 == VEC:
                return b, "(map (fun a_ => %s %s a_) %s)" % (f, c1, c2), VEC
            if t1 == VEC and t2 == VEC:
                v = self.fresh()
                return b + [(v, "np_bin_vv %s %s %s" % (f, c1, c2))], v, VEC
            if t1 == VEC and t2 == "nd":
                v = self.fresh()
                return b + [(v, "np_bin_vnd %s %s %s" % (f, c1, c2))], v, VEC
            raise Unsupported("float arithmetic on %s, %s" % (t1, t2))
        if op in (ast.Add, ast.Sub, ast.Mult):
            if isinstance(t1, tuple) and t1[0] == "list":
                if op is ast.Add and isinstance(t2, tuple) and t2[0] == "list":
                    return b, "(%s ++ %s)" % (c1, c2), ("list", t1[1] if t1[1] is not None else t2[1])
                if op is ast.Mult and t2 == "int" and isinstance(e.left, ast.List) and len(e.left.elts) == 1:
                    _, x, tx = self.expr(e.left.elts[0], env)
                    return b, "(py_list_repeat %s %s)" % (x, c2), ("list", tx)
                raise Unsupported("list operation %s" % ast.unparse(e))
            sym = {ast.Add: "+", ast.Sub: "-", ast.Mult: "*"}[op]
            if t1 == "int" and t2 == "int":
                return b, "(%s %s %s)" % (c1, sym, c2), "int"
            if {t1, t2} <= {"int", "float"}:
                return b, "(%s %s %s)%%Q" % (self.toQ(c1, t1), sym, self.toQ(c2, t2)), "float"
            raise Unsupported("arithmetic on %s, %s" % (t1, t2))
        if op is ast.Div:
            if t1 == "int" and t2 == "int" and not isinstance(e.right, ast.Constant):
                v = self.fresh()
                return b + [(v, "py_truediv_int %s %s" % (c1, c2))], v, "float"
            if not (isinstance(e.right, ast.Constant) and isinstance(e.right.value, int) and e.right.value != 0):
                raise Unsupported("division by a non-literal")
            return b, "(py_truediv %s %s)" % (self.toQ(c1, t1), self.toQ(c2, t2)), "float"
        raise Unsupported("operator in %s" % ast.unparse(e))

    def pattern(self, tgt, ty, env):
        """bind the target of a for / comprehension; returns (coq pattern, new env)"""
        env = dict(env)
        if isinstance(tgt, ast.Name):
            env[tgt.id] = ty
            return ("_" if tgt.id == "_" else cname(tgt.id)), env
        if isinstance(tgt, ast.Tuple) and isinstance(ty, tuple) and ty[0] == "tuple" and len(ty[1]) == len(tgt.elts):
            names = []
            for el, t in zip(tgt.elts, ty[1]):
                if not isinstance(el, ast.Name):
                    raise Unsupported("nested pattern")
                env[el.id] = t
                names.append("_" if el.id == "_" else cname(el.id))
            return "'(" + ", ".join(names) + ")", env
        raise Unsupported("loop target %s" % ast.unparse(tgt))

    def listcomp(self, e, env):
        if len(e.generators) != 1 or e.generators[0].ifs or e.generators[0].is_async:
            raise Unsupported("comprehension shape")
        g = e.generators[0]
        if isinstance(g.iter, ast.Call) and ast.unparse(g.iter.func) == "range" and len(g.iter.args) == 1 and not g.iter.keywords:
            bi, cr, tr = self.expr(g.iter.args[0], env)
            if tr != "int":
                raise Unsupported("range of %s" % (tr,))
            ci, ti = "(zrange %s)" % cr, ("list", "int")
        else:
            bi, ci, ti = self.expr(g.iter, env)
        if not (isinstance(ti, tuple) and ti[0] == "list"):
            raise Unsupported("comprehension over %s" % (ti,))
        pat, env2 = self.pattern(g.target, ti[1], env)
        be, ce, te = self.expr(e.elt, env2)
        if not be:
            return bi, "(map (fun %s => %s) %s)" % (pat, ce, ci), ("list", te)
        v = self.fresh()
        body = self.wrap(be, "Ret %s" % ce)
        return bi + [(v, "mapM (fun %s => %s) %s" % (pat, body, ci))], v, ("list", te)

    def subscript(self, e, env):
        # a.shape[k]
        if isinstance(e.value, ast.Attribute) and e.value.attr == "shape":
            b, c, t = self.expr(e.value.value, env)
            if t == "arr2" and isinstance(e.slice, ast.Constant) and e.slice.value in (0, 1):
                return b, "(%s %s)" % ("a_rows" if e.slice.value == 0 else "a_cols", c), "int"
            if t == ("list", "F") and isinstance(e.slice, ast.Constant) and e.slice.value == 0:
                return b, "(py_len %s)" % c, "int"
            raise Unsupported("shape of %s" % (t,))
        if isinstance(e.value, ast.Call) and ast.unparse(e.value.func) == "np.linalg.slogdet" and "slogdet_logabs" in self.externs \
                and isinstance(e.slice, ast.Constant) and e.slice.value == 1 and len(e.value.args) == 1 and not e.value.keywords:
            b, c, t = self.expr(e.value.args[0], env)
            if t == "MAT":
                return b, "(np_slogdet_logabs %s)" % c, "F"
        b, c, t = self.expr(e.value, env)
        sl = e.slice
        if t == "lamv" and isinstance(sl, ast.Tuple) and len(sl.elts) == 2:
            b1, c1, t1 = self.expr(sl.elts[0], env)
            b2, c2, t2 = self.expr(sl.elts[1], env)
            if t1 == ("list", "int") and t2 == ("list", "int"):
                v = self.fresh()
                return b + b1 + b2 + [(v, "lam_take2 %s %s %s" % (c, c1, c2))], v, ("list", "F")
        if isinstance(t, tuple) and t[0] == "ddict" and not isinstance(sl, (ast.Slice, ast.Tuple)):
            bi, ci, ti = self.expr(sl, env)
            if ti != "int":
                raise Unsupported("defaultdict lookup %s" % ast.unparse(e))
            return b + bi, "(py_ddict_get %s %s)" % (c, ci), t[1]
        if isinstance(t, tuple) and t[0] == "dict" and not isinstance(sl, (ast.Slice, ast.Tuple)):
            bi, ci, ti = self.expr(sl, env)
            if ti != "int" or t[1] is None:
                raise Unsupported("dictionary lookup %s" % ast.unparse(e))
            v = self.fresh()
            return b + bi + [(v, "py_dict_get %s %s" % (c, ci))], v, t[1]
        if t in ("arr2", "arr2u16") and isinstance(sl, ast.Tuple) and len(sl.elts) == 2 \
                and not isinstance(sl.elts[0], ast.Slice) and not isinstance(sl.elts[1], ast.Slice):
            # a[i, j]
            bi, ci, ti = self.expr(sl.elts[0], env)
            bj, cj, tj = self.expr(sl.elts[1], env)
            if ti != "int" or tj != "int":
                raise Unsupported("element index types")
            v = self.fresh()
            return b + bi + bj + [(v, "np_get2 %s %s %s" % (c, ci, cj))], v, ("F" if t == "arr2" else "int")
        if t == "arr2" and not isinstance(sl, (ast.Tuple, ast.Slice)):
            bi0, ci0, ti0 = self.expr(sl, env)
            if ti0 == ("tuple", [("list", "int"), ("list", "int")]):
                # a[(rows, cols)]: NumPy fancy indexing with a pair of equally long index lists
                v = self.fresh()
                return b + bi0 + [(v, "np_take2 %s (fst %s) (snd %s)" % (c, ci0, ci0))], v, ("list", "F")
        if t == "arr2" and isinstance(sl, ast.Tuple) and len(sl.elts) == 2 and isinstance(sl.elts[1], ast.Slice) \
                and sl.elts[1].lower is None and sl.elts[1].upper is None and sl.elts[1].step is None \
                and not isinstance(sl.elts[0], ast.Slice):
            bi, ci, ti = self.expr(sl.elts[0], env)
            if ti == ("list", "int"):
                # a[rows, :] with a list of row indices: the selected rows, in the order of the list
                v = self.fresh()
                return b + bi + [(v, "np_take_rows %s %s" % (c, ci))], v, "arr2"
        if t == "arr2" and not isinstance(sl, (ast.Tuple, ast.Slice)):
            # a[i]: row i of a 2-D array
            bi, ci, ti = self.expr(sl, env)
            if ti != "int":
                raise Unsupported("row index type")
            v = self.fresh()
            return b + bi + [(v, "np_row %s %s" % (c, ci))], v, ("list", "F")
        if t == "arr2":
            if isinstance(sl, ast.Tuple) and len(sl.elts) == 2 and isinstance(sl.elts[1], ast.Slice) \
                    and sl.elts[1].lower is None and sl.elts[1].upper is None and sl.elts[1].step is None:
                bi, ci, ti = self.expr(sl.elts[0], env)
                if ti != "int":
                    raise Unsupported("row index type")
                v = self.fresh()
                return b + bi + [(v, "np_row %s %s" % (c, ci))], v, ("list", "F")
            raise Unsupported("array subscript %s" % ast.unparse(e))
        if isinstance(t, tuple) and t[0] == "tuple":
            if isinstance(sl, ast.Constant) and sl.value in (0, 1) and len(t[1]) == 2:
                return b, "(%s %s)" % ("fst" if sl.value == 0 else "snd", c), t[1][sl.value]
            raise Unsupported("tuple subscript")
        if t == ("list", "F") and not isinstance(sl, (ast.Slice, ast.Tuple)):
            bi, ci, ti = self.expr(sl, env)
            if ti == ("list", "int"):
                # a[indices]: NumPy fancy indexing with a list of integers
                v = self.fresh()
                return b + bi + [(v, "mapM (py_getitem %s) %s" % (c, ci))], v, ("list", "F")
        if isinstance(t, tuple) and t[0] == "list":
            if isinstance(sl, ast.Slice):
                if sl.step is not None or sl.lower is None or sl.upper is None:
                    raise Unsupported("slice form %s" % ast.unparse(e))
                b1, c1, t1 = self.expr(sl.lower, env)
                b2, c2, t2 = self.expr(sl.upper, env)
                if t1 != "int" or t2 != "int":
                    raise Unsupported("slice bound type")
                return b + b1 + b2, "(py_slice %s %s %s)" % (c, c1, c2), t
            bi, ci, ti = self.expr(sl, env)
            if ti != "int":
                raise Unsupported("index type")
            v = self.fresh()
            return b + bi + [(v, "py_getitem %s %s" % (c, ci))], v, t[1]
        raise Unsupported("subscript of %s" % (t,))

    def call(self, e, env):
        fn = ast.unparse(e.func)
        if isinstance(e.func, ast.Name) and isinstance(env.get(e.func.id), tuple) and env[e.func.id][0] == "alias":
            fn = env[e.func.id][1]      # a local name bound to a library function (norm = np.linalg.norm)
        if fn == "np.linalg.norm" and "np_norm" in self.externs and len(e.args) == 1 and not e.keywords:
            b, c, t = self.expr(e.args[0], env)
            if t == ("list", "F"):
                return b, "(np_norm %s)" % c, "F"
        if fn == "math.sqrt" and "math_sqrt" in self.externs and len(e.args) == 1 and not e.keywords:
            b, c, t = self.expr(e.args[0], env)
            if t == "int":
                return b, "(math_sqrt (of_int %s))" % c, "F"
            if t == "F":
                return b, "(math_sqrt %s)" % c, "F"
        if fn in self.sigs:
            names = self.sigs[fn][2] if len(self.sigs[fn]) > 2 else None
            argn = list(e.args)
            if e.keywords:
                # keyword arguments are matched with the callee's parameter names
                if names is None or any(k.arg is None for k in e.keywords):
                    raise Unsupported("keyword arguments in call of %s" % fn)
                rest = names[len(argn):]
                kw = {k.arg: k.value for k in e.keywords}
                if sorted(kw) != sorted(rest):
                    raise Unsupported("keyword arguments %s of %s do not complete its parameters %s" % (sorted(kw), fn, rest))
                argn += [kw[n] for n in rest]
            args = [self.expr(a, env) for a in argn]
            at, rt = self.sigs[fn][0], self.sigs[fn][1]
            if [a[2] for a in args] != list(at):
                raise Unsupported("argument types in call of %s: %s vs %s" % (fn, [a[2] for a in args], at))
            v = self.fresh()
            return sum((a[0] for a in args), []) + [(v, "%s %s" % (fname(fn), " ".join(a[1] for a in args)))], v, rt
        if fn in self.externs:
            if e.keywords:
                raise Unsupported("keyword arguments in call of %s" % fn)
            args = [self.expr(a, env) for a in e.args]
            at, rt, coq, monadic = self.externs[fn]
            if [repr(a[2]) for a in args] != [repr(x) for x in at]:
                raise Unsupported("argument types in call of %s: %s vs %s" % (fn, [a[2] for a in args], at))
            pre = sum((a[0] for a in args), [])
            app = "%s %s" % (coq, " ".join(a[1] for a in args))
            if monadic:
                v = self.fresh()
                return pre + [(v, app)], v, rt
            return pre, "(%s)" % app, rt
        if fn == "np.trace" and "trace_dot" in self.externs and len(e.args) == 1 and not e.keywords and isinstance(e.args[0], ast.Call) \
                and ast.unparse(e.args[0].func) == "np.dot" and len(e.args[0].args) == 2 and not e.args[0].keywords:
            b1, c1, t1 = self.expr(e.args[0].args[0], env)
            b2, c2, t2 = self.expr(e.args[0].args[1], env)
            if t1 == "MAT" and t2 == "MAT":
                return b1 + b2, "(np_trace_dot %s %s)" % (c1, c2), "F"
        if fn == "np.sum" and "count_above" in self.externs and len(e.args) == 1 and not e.keywords and isinstance(e.args[0], ast.Compare) \
                and len(e.args[0].ops) == 1 and isinstance(e.args[0].ops[0], ast.Gt) and isinstance(e.args[0].left, ast.Call) \
                and ast.unparse(e.args[0].left.func) == "np.abs" and len(e.args[0].left.args) == 1:
            b1, c1, t1 = self.expr(e.args[0].left.args[0], env)
            b2, c2, t2 = self.expr(e.args[0].comparators[0], env)
            if t1 == "MAT" and t2 == "F":
                return b1 + b2, "(np_count_above %s %s)" % (c1, c2), "int"
        if fn == "np.log" and "flog" in self.externs and len(e.args) == 1 and not e.keywords:
            b, c, t = self.expr(e.args[0], env)
            if t == "int":
                return b, "(np_log (of_int %s))" % c, "F"
            if t == "F":
                return b, "(np_log %s)" % c, "F"
        if fn == "np.sqrt" and "np_sqrt_int" in self.externs and len(e.args) == 1 and not e.keywords:
            b, c, t = self.expr(e.args[0], env)
            if t == "int":
                return b, "(np_sqrt_int %s)" % c, "float"
        if fn == "np.triu_indices" and len(e.args) == 1 and not e.keywords and "np_sqrt_int" in self.externs:
            b, c, t = self.expr(e.args[0], env)
            if t == "int":
                return b, "(np_triu_indices %s)" % c, ("tuple", [("list", "int"), ("list", "int")])
        if isinstance(e.func, ast.Attribute) and e.func.attr == "reshape" and not e.keywords and [ast.unparse(a) for a in e.args] == ["-1", "1"]:
            b, c, t = self.expr(e.func.value, env)
            if t == ("list", "F"):
                return b, c, "col"      # a 1-D array seen as a column; only  c @ c.T  is rendered for columns
        if fn == "np.mean" and "np_mean_all" in self.externs and len(e.args) == 1 and not e.keywords:
            b, c, t = self.expr(e.args[0], env)
            if t == "arr2":
                return b, "(np_mean_all %s)" % c, "F"
        if fn == "np.trace" and "np_trace" in self.externs and len(e.args) == 1 and not e.keywords:
            b, c, t = self.expr(e.args[0], env)
            if t == "MAT":
                return b, "(np_trace %s)" % c, "F"
        if isinstance(e.func, ast.Attribute) and e.func.attr == "diagonal" and not e.args and not e.keywords:
            b, c, t = self.expr(e.func.value, env)
            if t == "arr2":
                return b, "(arr2_diagonal f0 %s)" % c, ("list", "F")
        if fn == "np.diag" and "np_sqrt_int" in self.externs and len(e.args) == 1 and not e.keywords:
            b, c, t = self.expr(e.args[0], env)
            if t == ("list", "F"):
                return b, "(arr2_of_diag f0 %s)" % c, "arr2"
        if fn in ("np.square", "np.sqrt") and len(e.args) == 1 and not e.keywords:
            b, c, t = self.expr(e.args[0], env)
            if t == ("list", "F"):
                if fn == "np.square":
                    return b, "(map (fun a_ => fmul a_ a_) %s)" % c, t
                if "fsqrt" in self.externs:
                    return b, "(map fsqrt %s)" % c, t
        if fn == "np.ones" and len(e.args) == 1 and not e.keywords and isinstance(e.args[0], ast.Attribute) and e.args[0].attr == "shape":
            b, c, t = self.expr(e.args[0].value, env)
            if t == ("list", "F"):
                return b, "(repeat f1 (length %s))" % c, t
        if fn == "np.where" and len(e.args) == 3 and not e.keywords:
            bc, cc, tc = self.expr(e.args[0], env)
            ops = [self.expr(a, env) for a in e.args[1:]]
            if tc == ("list", "bool") and all(o[2] in ("F", ("list", "F"), "int") for o in ops):
                nds = ["(NdVec %s)" % o[1] if o[2] == ("list", "F") else "(NdScalar %s)" % (o[1] if o[2] == "F" else "(of_int %s)" % o[1]) for o in ops]
                v = self.fresh()
                return bc + ops[0][0] + ops[1][0] + [(v, "np_where %s %s %s" % (cc, nds[0], nds[1]))], v, ("list", "F")
        if fn == "np.diag" and "np_diag" in self.externs and len(e.args) == 1 and not e.keywords:
            b, c, t = self.expr(e.args[0], env)
            if t == ("list", "F"):
                return b, "(np_diag %s)" % c, "MAT"
        if fn == "np.linalg.eigh" and "np_eigh" in self.externs and len(e.args) == 1 and not e.keywords:
            b, c, t = self.expr(e.args[0], env)
            if t == "MAT":
                return b, "(np_eigh %s)" % c, ("tuple", [("list", "F"), "MAT"])
        if fn == "np.sum" and len(e.args) == 1 and not e.keywords:
            b, c, t = self.expr(e.args[0], env)
            if t == ("list", "F"):
                return b, "(np_sum %s)" % c, "F"
        if fn in ("max", "min") and len(e.args) == 2 and not e.keywords:
            # Python's max(a, b) is b if b > a else a; min(a, b) is b if b < a else a (an int operand converts exactly)
            b1, c1, t1 = self.expr(e.args[0], env)
            b2, c2, t2 = self.expr(e.args[1], env)
            if {t1, t2} <= {"F", "int"} and "F" in (t1, t2):
                if t1 == "int":
                    c1 = "(of_int %s)" % c1
                if t2 == "int":
                    c2 = "(of_int %s)" % c2
                cond = "fltb %s %s" % ((c1, c2) if fn == "max" else (c2, c1))
                return b1 + b2, "(if %s then %s else %s)" % (cond, c2, c1), "F"
        if fn == "np.zeros" and len(e.args) == 1 and not e.keywords and not isinstance(e.args[0], (ast.Tuple, ast.List, ast.Attribute)) \
                or (fn == "np.zeros" and len(e.args) == 1 and not e.keywords and isinstance(e.args[0], ast.Attribute) and e.args[0].attr == "size"):
            b, c, t = self.expr(e.args[0], env)
            if t == "int":
                v = self.fresh()
                return b + [(v, "np_full1 f0 %s" % c)], v, ("list", "F")
        if isinstance(e.func, ast.Attribute) and e.func.attr == "shallow_copy" and not e.args and not e.keywords:
            b, c, t = self.expr(e.func.value, env)
            if isinstance(t, tuple) and t[0] == "record":
                return b, c, t      # a (shallow) copy of an immutable record value is the value; field stores below are functional updates
        if fn == "np.cov" and "np_cov_of_rows" in self.externs and len(e.args) == 1 and len(e.keywords) == 1 and e.keywords[0].arg == "bias" \
                and isinstance(e.args[0], ast.Call) and ast.unparse(e.args[0].func) == "np.transpose" and len(e.args[0].args) == 1:
            b1, c1, t1 = self.expr(e.args[0].args[0], env)
            b2, c2, t2 = self.expr(e.keywords[0].value, env)
            if t1 == "arr2" and t2 == "bool":
                return b1 + b2, "(np_cov_of_rows %s %s)" % (c1, c2), "MAT"
        if fn == "np.mean" and "np_mean_rows" in self.externs and len(e.args) == 1 and len(e.keywords) == 1 and e.keywords[0].arg == "axis" \
                and ast.unparse(e.keywords[0].value) == "0":
            b1, c1, t1 = self.expr(e.args[0], env)
            if t1 == "arr2":
                return b1, "(np_mean_rows %s)" % c1, ("list", "F")
        if fn == "sorted" and len(e.args) == 1 and not e.keywords:
            b, c, t = self.expr(e.args[0], env)
            if t == ("list", "int"):
                return b, "(py_sorted %s)" % c, t
        if fn == "collections.defaultdict" and len(e.args) == 1 and not e.keywords and ast.unparse(e.args[0]) == "list":
            return [], "[]", ("ddict", ("list", "int"))
        if fn == "isinstance" and len(e.args) == 2 and not e.keywords:
            b, c, t = self.expr(e.args[0], env)
            cls = ast.unparse(e.args[1])
            if t == "lamv" and cls in ("numbers.Real", "np.ndarray"):
                return b, "(%s %s)" % ("lam_is_real" if cls == "numbers.Real" else "lam_is_array", c), "bool"
        if fn == "float" and len(e.args) == 1 and not e.keywords:
            b, c, t = self.expr(e.args[0], env)
            if t == "lamv":
                v = self.fresh()
                return b + [(v, "lam_float %s" % c)], v, "F"
        if fn == "math.fsum" and "math_fsum" in self.externs and len(e.args) == 1 and not e.keywords:
            b, c, t = self.expr(e.args[0], env)
            if t == ("list", "F"):
                return b, "(math_fsum %s)" % c, "F"
        if fn == "np.copy" and len(e.args) == 1 and not e.keywords:
            b, c, t = self.expr(e.args[0], env)
            if t in ("arr2", ("list", "F")):
                return b, c, t          # a copy of an immutable value is the value (aliasing is C19's subject, not rendered)
        if fn == "list" and len(e.args) == 1 and not e.keywords and not isinstance(e.args[0], ast.Call):
            b, c, t = self.expr(e.args[0], env)
            if isinstance(t, tuple) and t[0] == "list":
                return b, c, t          # a copy of an immutable value is the value
        if fn == "random.sample" and "random_sample_range" in self.externs and len(e.args) == 2 and not e.keywords \
                and isinstance(e.args[0], ast.Call) and ast.unparse(e.args[0].func) == "range" and len(e.args[0].args) == 1:
            b1, c1, t1 = self.expr(e.args[0].args[0], env)
            b2, c2, t2 = self.expr(e.args[1], env)
            if t1 == "int" and t2 == "int":
                return b1 + b2, "(random_sample_range %s %s)" % (c1, c2), ("list", "int")
        if fn == "int" and len(e.args) == 1 and not e.keywords:
            b, c, t = self.expr(e.args[0], env)
            if t == "float":
                return b, "(py_int_of_float %s)" % c, "int"
            if t == "int":
                return b, c, "int"
        if fn == "len" and len(e.args) == 1 and not e.keywords:
            b, c, t = self.expr(e.args[0], env)
            if isinstance(t, tuple) and t[0] == "list":
                return b, "(py_len %s)" % c, "int"
            if t == "arr2":
                return b, "(a_rows %s)" % c, "int"
        if fn == "sum" and len(e.args) == 1 and not e.keywords:
            b, c, t = self.expr(e.args[0], env)
            if t == ("list", "int"):
                return b, "(py_sum %s)" % c, "int"
        if fn == "list" and len(e.args) == 1 and not e.keywords and isinstance(e.args[0], ast.Call) \
                and ast.unparse(e.args[0].func) == "itertools.accumulate" and len(e.args[0].args) == 1 and not e.args[0].keywords:
            b, c, t = self.expr(e.args[0].args[0], env)
            if t == ("list", "int"):
                return b, "(py_accumulate %s)" % c, ("list", "int")
        if fn == "np.zeros" and len(e.args) == 1 and isinstance(e.args[0], ast.Attribute) and e.args[0].attr == "shape":
            b, c, t = self.expr(e.args[0].value, env)
            kw = {k.arg: ast.unparse(k.value) for k in e.keywords}
            if t == "arr2" and kw in ({}, {"dtype": "np.uint16"}):
                v = self.fresh()
                if kw:
                    return b + [(v, "np_zeros2 0 (a_rows %s) (a_cols %s)" % (c, c))], v, "arr2u16"
                return b + [(v, "np_zeros2 f0 (a_rows %s) (a_cols %s)" % (c, c))], v, "arr2"
        if fn == "np.argmin" and len(e.args) == 1 and not e.keywords:
            b, c, t = self.expr(e.args[0], env)
            if t == ("list", "F"):
                v = self.fresh()
                return b + [(v, "np_argmin fltb %s" % c)], v, "int"
        if fn in ("np.ones", "np.zeros"):
            shape = None
            if len(e.args) == 1 and not e.keywords:
                shape = e.args[0]
            elif not e.args and len(e.keywords) == 1 and e.keywords[0].arg == "shape":
                shape = e.keywords[0].value
            elif not e.args and sorted(k.arg for k in e.keywords) == ["dtype", "shape"] \
                    and {k.arg: ast.unparse(k.value) for k in e.keywords}["dtype"] == "np.float64":
                shape = [k.value for k in e.keywords if k.arg == "shape"][0]
            if isinstance(shape, (ast.Tuple, ast.List)):
                dims = [self.expr(d, env) for d in shape.elts]
                if all(d[2] == "int" for d in dims):
                    fill = "f1" if fn == "np.ones" else "f0"
                    v = self.fresh()
                    pre = sum((d[0] for d in dims), [])
                    if len(dims) == 1:
                        return pre + [(v, "np_full1 %s %s" % (fill, dims[0][1]))], v, ("list", "F")
                    if len(dims) == 2 and fn == "np.zeros":
                        return pre + [(v, "np_zeros2 f0 %s %s" % (dims[0][1], dims[1][1]))], v, "arr2"
        if fn == "np.vstack" and len(e.args) == 1 and not e.keywords:
            b, c, t = self.expr(e.args[0], env)
            if t == ("list", "arr2"):
                v = self.fresh()
                return b + [(v, "np_vstack %s" % c)], v, "arr2"
        raise Unsupported("call %s" % ast.unparse(e))

    @staticmethod
    def wrap(binds, code):
        for pat, m in reversed(binds):
            code = "%s <- %s ;;\n  %s" % (pat, m, code)
        return code

    @staticmethod
    def setters_of(rt_):
        return rt_[5] if isinstance(rt_, tuple) and len(rt_) > 5 else {}

    @staticmethod
    def methods_of(rt_):
        return rt_[6] if isinstance(rt_, tuple) and len(rt_) > 6 else {}

    # ------------------------------------------------------------ statements
    def assigned(self, stmts):
        """names (re)bound by a block"""
        out = []

        def add(n):
            if n not in out:
                out.append(n)
        for s in stmts:
            if isinstance(s, ast.Assign):
                for t in s.targets:
                    if isinstance(t, ast.Name):
                        add(t.id)
                    elif isinstance(t, ast.Subscript) and isinstance(t.value, ast.Name):
                        add(t.value.id)
                    elif isinstance(t, ast.Tuple) and all(isinstance(x, ast.Name) for x in t.elts):
                        for x in t.elts:
                            add(x.id)
                    elif isinstance(t, ast.Attribute) and isinstance(t.value, ast.Name):
                        add(t.value.id)
                    elif isinstance(t, ast.Attribute) and isinstance(t.value, ast.Subscript) and isinstance(t.value.value, ast.Attribute) \
                            and isinstance(t.value.value.value, ast.Name):
                        add(t.value.value.value.id)
                    else:
                        raise Unsupported("assignment target %s" % ast.unparse(t))
            elif isinstance(s, ast.AugAssign) and isinstance(s.target, ast.Name):
                add(s.target.id)
            elif isinstance(s, ast.Expr) and isinstance(s.value, ast.Call) and isinstance(s.value.func, ast.Attribute) \
                    and s.value.func.attr == "append" and isinstance(s.value.func.value, ast.Subscript) \
                    and isinstance(s.value.func.value.value, ast.Name):
                add(s.value.func.value.value.id)
            elif isinstance(s, ast.Expr) and isinstance(s.value, ast.Call) and isinstance(s.value.func, ast.Attribute) \
                    and isinstance(s.value.func.value, ast.Name) and s.value.func.attr in ("append", "pop"):
                add(s.value.func.value.id)
            elif isinstance(s, ast.If):
                for n in self.assigned(s.body) + self.assigned(s.orelse):
                    add(n)
            elif isinstance(s, ast.For):
                for n in self.assigned(s.body):
                    add(n)
                if s.orelse:
                    raise Unsupported("for-else")
            elif isinstance(s, ast.While):
                for n in self.assigned(s.body):
                    add(n)
            elif isinstance(s, (ast.Assert, ast.Raise, ast.Return, ast.Expr, ast.Pass, ast.Continue)):
                pass
            else:
                raise Unsupported("statement %s" % type(s).__name__)
        return out

    @staticmethod
    def terminates(stmts):
        return bool(stmts) and isinstance(stmts[-1], (ast.Raise, ast.Return))

    def state_pat(self, names):
        if not names:
            return "tt", "_"
        if len(names) == 1:
            return cname(names[0]), cname(names[0])
        tup = "(" + ", ".join(cname(n) for n in names) + ")"
        return tup, "'" + tup

    def block(self, stmts, env, k):
        """translate a statement list; k(env) gives the code of what follows a fall-through"""
        if not stmts:
            return k(env)
        s, rest = stmts[0], stmts[1:]
        nxt = lambda env2: self.block(rest, env2, k)   # noqa: E731
        if isinstance(s, ast.Expr) and isinstance(s.value, ast.Constant) and isinstance(s.value.value, str):
            return nxt(env)
        if isinstance(s, ast.Pass):
            return nxt(env)
        if isinstance(s, ast.Return):
            if s.value is None:
                raise Unsupported("bare return")
            b, c, t = self.expr(s.value, env)
            self.check_ret(t)
            if self.while_depth:
                return self.wrap(b, "Ret (inr %s)" % c)     # leaves the function from inside a while loop
            return self.wrap(b, "Ret %s" % c)
        if isinstance(s, ast.While):
            # while cond: body  - recursion on explicit fuel (the function's extra first parameter `fuel`); running out of fuel
            # is the error OutOfFuel, excluded by the statements.  A `return` inside the body leaves the function.
            if s.orelse or self.while_depth or self.loop_k:
                raise Unsupported("while form")
            for n in ast.walk(s):
                if isinstance(n, (ast.Break, ast.Continue, ast.For, ast.While)) and n is not s:
                    raise Unsupported("break / continue / nested loop inside while")
            self.uses_fuel = True
            state = [n for n in self.assigned(s.body) if n in env]
            spat = self.state_pat(state)
            bc, cc, tc = self.expr(s.test, env)
            if tc != "bool":
                raise Unsupported("while condition type")
            self.while_depth += 1
            body = self.block(s.body, env, lambda e2: "Ret (inl %s)" % spat[0])
            self.while_depth -= 1
            cond = self.wrap(bc, "Ret %s" % cc)
            v = self.fresh()
            return "%s <- py_while fuel (fun %s =>\n  %s) (fun %s =>\n  %s) %s ;;\n  match %s with\n  | inr r_ => Ret r_\n  | inl %s =>\n  %s\n  end" % (
                v, spat[1], cond, spat[1], body, spat[0], v, spat[1], nxt(env))
        if isinstance(s, ast.Raise):
            exc = s.exc
            name = ast.unparse(exc.func) if isinstance(exc, ast.Call) else (ast.unparse(exc) if exc is not None else None)
            if not name or not name.isidentifier():
                raise Unsupported("raise form")
            return 'Raise "%s"%%string' % name
        if isinstance(s, ast.Assert):
            b, c, t = self.expr(s.test, env)
            if t != "bool":
                raise Unsupported("assert on %s" % (t,))
            return self.wrap(b, 'if %s then\n  %s\n  else Raise "AssertionError"%%string' % (c, nxt(env)))
        if isinstance(s, ast.AugAssign) and isinstance(s.target, ast.Name) and isinstance(s.op, (ast.Add, ast.Sub, ast.Mult)):
            # x op= e  is  x = x op e  for the immutable values (int, float) this applies to
            # (for a matrix accumulator `m += x` updates in place an array that only this name references - it was created by
            # the first `0 + x` - so it is the rebinding m = m + x as well)
            if env.get(s.target.id) not in ("int", "F", "MAT"):
                raise Unsupported("augmented assignment to a %s" % (env.get(s.target.id),))
            s2 = ast.Assign(targets=[ast.Name(id=s.target.id, ctx=ast.Store())],
                            value=ast.BinOp(left=ast.Name(id=s.target.id, ctx=ast.Load()), op=s.op, right=s.value))
            return self.block([s2] + rest, env, k)
        if isinstance(s, ast.Assign):
            if len(s.targets) != 1:
                raise Unsupported("multiple assignment")
            tgt = s.targets[0]
            if isinstance(tgt, ast.Tuple) and len(tgt.elts) == 2 and all(isinstance(x, ast.Name) for x in tgt.elts) \
                    and not (isinstance(s.value, ast.Attribute) and s.value.attr == "shape"):
                b, c, t = self.expr(s.value, env)
                if not (isinstance(t, tuple) and t[0] == "tuple" and len(t[1]) == 2):
                    raise Unsupported("unpacking of %s" % (t,))
                env2 = dict(env)
                env2[tgt.elts[0].id], env2[tgt.elts[1].id] = t[1][0], t[1][1]
                return self.wrap(b, "let %s := (fst %s) in\n  let %s := (snd %s) in\n  %s" % (
                    cname(tgt.elts[0].id), c, cname(tgt.elts[1].id), c, nxt(env2)))
            if isinstance(tgt, ast.Subscript) and isinstance(tgt.value, ast.Name) and isinstance(env.get(tgt.value.id), tuple) \
                    and env[tgt.value.id][0] == "dict" and not isinstance(tgt.slice, (ast.Slice, ast.Tuple)):
                a = tgt.value.id
                bi, ci, ti = self.expr(tgt.slice, env)
                bv, cv, tv = self.expr(s.value, env)
                if ti != "int" or (env[a][1] is not None and repr(env[a][1]) != repr(tv)):
                    raise Unsupported("dictionary store %s" % ast.unparse(s))
                env2 = dict(env)
                env2[a] = ("dict", tv)
                return self.wrap(bi + bv, "let %s := (py_dict_set %s %s %s) in\n  %s" % (cname(a), cname(a), ci, cv, nxt(env2)))
            if isinstance(tgt, ast.Name) and ast.unparse(s.value) in ("np.linalg.norm",):
                env2 = dict(env)
                env2[tgt.id] = ("alias", ast.unparse(s.value))
                return nxt(env2)
            if isinstance(tgt, ast.Name):
                b, c, t = self.expr(s.value, env)
                env2 = dict(env)
                env2[tgt.id] = t
                return self.wrap(b, "let %s := %s in\n  %s" % (cname(tgt.id), c, nxt(env2)))
            if isinstance(tgt, ast.Tuple) and len(tgt.elts) == 2 and all(isinstance(x, ast.Name) for x in tgt.elts) \
                    and isinstance(s.value, ast.Attribute) and s.value.attr == "shape":
                # (r, c) = a.shape
                b, c, t = self.expr(s.value.value, env)
                if t not in ("arr2", "arr2u16"):
                    raise Unsupported("shape of %s" % (t,))
                env2 = dict(env)
                env2[tgt.elts[0].id] = "int"
                env2[tgt.elts[1].id] = "int"
                return self.wrap(b, "let %s := (a_rows %s) in\n  let %s := (a_cols %s) in\n  %s" % (
                    cname(tgt.elts[0].id), c, cname(tgt.elts[1].id), c, nxt(env2)))
            if isinstance(tgt, ast.Attribute) and isinstance(tgt.value, ast.Name) and isinstance(env.get(tgt.value.id), tuple) \
                    and env[tgt.value.id][0] == "record" and tgt.attr in self.setters_of(env[tgt.value.id]):
                # x.prop = v  where prop has a translated setter: the setter is called
                a = tgt.value.id
                bv, cv, tv = self.expr(s.value, env)
                return self.wrap(bv, "%s <- %s %s %s ;;\n  %s" % (cname(a), fname(self.setters_of(env[a])[tgt.attr]), cname(a), cv, nxt(env)))
            if isinstance(tgt, ast.Attribute) and isinstance(tgt.value, ast.Subscript) and isinstance(tgt.value.value, ast.Attribute) \
                    and isinstance(tgt.value.value.value, ast.Name) and isinstance(env.get(tgt.value.value.value.id), tuple) \
                    and env[tgt.value.value.value.id][0] == "record":
                # x.items[i].prop = v : fetch element i, call its setter, store it back (functional update of x)
                a = tgt.value.value.value.id
                rt_ = env[a]
                fld = tgt.value.value.attr
                ft = rt_[2].get(fld)
                if not (isinstance(ft, tuple) and ft[0] == "list" and isinstance(ft[1], tuple) and ft[1][0] == "record"
                        and tgt.attr in self.setters_of(ft[1])):
                    raise Unsupported("store %s" % ast.unparse(tgt))
                bi, ci, ti = self.expr(tgt.value.slice, env)
                bv, cv, tv = self.expr(s.value, env)
                if ti != "int":
                    raise Unsupported("index type")
                e1, e2, e3 = self.fresh(), self.fresh(), self.fresh()
                return self.wrap(bi + bv, "%s <- py_getitem (%s%s %s) %s ;;\n  %s <- %s %s %s ;;\n  %s <- py_set_index (%s%s %s) %s %s ;;\n  let %s := (set_%s%s %s %s) in\n  %s" % (
                    e1, rt_[3], fld, cname(a), ci, e2, fname(self.setters_of(ft[1])[tgt.attr]), e1, cv,
                    e3, rt_[3], fld, cname(a), ci, e2, cname(a), rt_[3], fld, cname(a), e3, nxt(env)))
            if isinstance(tgt, ast.Attribute) and isinstance(tgt.value, ast.Name) and isinstance(env.get(tgt.value.id), tuple) \
                    and env[tgt.value.id][0] == "record" and tgt.attr in env[tgt.value.id][2]:
                # x.f = v on a local record value: functional update (the record is referenced through this name only)
                a = tgt.value.id
                rt_ = env[a]
                bv, cv, tv = self.expr(s.value, env)
                if repr(tv) != repr(rt_[2][tgt.attr]) and not (tv == ("list", None) and isinstance(rt_[2][tgt.attr], tuple) and rt_[2][tgt.attr][0] == "list"):
                    raise Unsupported("field store type %s into %s" % (tv, rt_[2][tgt.attr]))
                return self.wrap(bv, "let %s := (set_%s%s %s %s) in\n  %s" % (cname(a), rt_[3], tgt.attr, cname(a), cv, nxt(env)))
            if isinstance(tgt, ast.Subscript) and isinstance(tgt.value, ast.Name) and tgt.value.id in env:
                a = tgt.value.id
                ta = env[a]
                if ta == "arr2" and not isinstance(tgt.slice, (ast.Tuple, ast.Slice)):
                    bi, ci, ti = self.expr(tgt.slice, env)
                    if ti == ("tuple", [("list", "int"), ("list", "int")]):
                        # a[(rows, cols)] = values : one value per index pair
                        bv, cv, tv = self.expr(s.value, env)
                        if tv != ("list", "F"):
                            raise Unsupported("fancy store of a %s" % (tv,))
                        return self.wrap(bi + bv, "%s <- np_put2 %s (fst %s) (snd %s) %s ;;\n  %s" % (cname(a), cname(a), ci, ci, cv, nxt(env)))
                    if ti == "mask2":
                        # a[mask] = scalar
                        bv, cv, tv = self.expr(s.value, env)
                        if tv == "int":
                            cv, tv = "(of_int %s)" % cv, "F"
                        if tv != "F":
                            raise Unsupported("masked store of a %s" % (tv,))
                        return self.wrap(bi + bv, "%s <- np_mask_set %s %s %s ;;\n  %s" % (cname(a), cname(a), ci, cv, nxt(env)))
                if ta in ("arr2", "arr2u16") and isinstance(tgt.slice, ast.Tuple) and len(tgt.slice.elts) == 2 \
                        and not any(isinstance(x, ast.Slice) for x in tgt.slice.elts):
                    # a[i, j] = v   (uint16 arrays wrap the stored integer modulo 2^16)
                    bi, ci, ti = self.expr(tgt.slice.elts[0], env)
                    bj, cj, tj = self.expr(tgt.slice.elts[1], env)
                    bv, cv, tv = self.expr(s.value, env)
                    if (ti, tj) != ("int", "int") or tv != ("F" if ta == "arr2" else "int"):
                        raise Unsupported("element store types %s" % ((ti, tj, tv),))
                    val = cv if ta == "arr2" else "(wrap_u16 %s)" % cv
                    return self.wrap(bi + bj + bv, "%s <- np_set2 %s %s %s %s ;;\n  %s" % (cname(a), cname(a), ci, cj, val, nxt(env)))
                if ta == ("list", "int") and not isinstance(tgt.slice, (ast.Slice, ast.Tuple)):
                    # l[i] = v on a Python list of ints
                    bi, ci, ti = self.expr(tgt.slice, env)
                    bv, cv, tv = self.expr(s.value, env)
                    if ti != "int" or tv != "int":
                        raise Unsupported("list store types %s" % ((ti, tv),))
                    return self.wrap(bi + bv, "%s <- py_set_index %s %s %s ;;\n  %s" % (cname(a), cname(a), ci, cv, nxt(env)))
                if ta == ("list", "F"):
                    bi, ci, ti = self.expr(tgt.slice, env)
                    if ti != ("list", "int"):
                        raise Unsupported("1-D store with index %s" % (ti,))
                    try:
                        v, bv = self.lit_F(s.value), []
                    except Unsupported:
                        bv, v, tv = self.expr(s.value, env)
                        if tv != "F":
                            raise Unsupported("1-D store of a %s" % (tv,))
                    return self.wrap(bi + bv, "%s <- py_set_indices %s %s %s ;;\n  %s" % (cname(a), cname(a), ci, v, nxt(env)))
                if ta == "arr2" and isinstance(tgt.slice, ast.Tuple) and len(tgt.slice.elts) == 2 \
                        and isinstance(tgt.slice.elts[1], ast.Slice) and tgt.slice.elts[1].step is None \
                        and tgt.slice.elts[1].lower is not None and tgt.slice.elts[1].upper is not None:
                    bi, ci, ti = self.expr(tgt.slice.elts[0], env)
                    b1, c1, t1 = self.expr(tgt.slice.elts[1].lower, env)
                    b2, c2, t2 = self.expr(tgt.slice.elts[1].upper, env)
                    bv, cv, tv = self.expr(s.value, env)
                    if (ti, t1, t2) != ("int", "int", "int") or tv != ("list", "F"):
                        raise Unsupported("2-D store types")
                    return self.wrap(bi + b1 + b2 + bv, "%s <- np_set_row_slice %s %s %s %s %s ;;\n  %s" % (
                        cname(a), cname(a), ci, c1, c2, cv, nxt(env)))
            raise Unsupported("assignment %s" % ast.unparse(s))
        if isinstance(s, ast.Expr) and isinstance(s.value, ast.Call) and ast.unparse(s.value.func) in INERT_CALLS:
            return nxt(env)      # logging / guarded hooks: trusted white list (as in skeleton mode)
        if isinstance(s, ast.Expr) and isinstance(s.value, ast.Call) and isinstance(s.value.func, ast.Attribute) \
                and s.value.func.attr == "append" and isinstance(s.value.func.value, ast.Subscript) \
                and isinstance(s.value.func.value.value, ast.Name) and s.value.func.value.value.id in env \
                and len(s.value.args) == 1 and not s.value.keywords:
            # l[i].append(v) on a list of lists
            a = s.value.func.value.value.id
            ta = env[a]
            if isinstance(ta, tuple) and ta[0] == "ddict":
                bi, ci, ti = self.expr(s.value.func.value.slice, env)
                bv, cv, tv = self.expr(s.value.args[0], env)
                if ti != "int" or repr(("list", tv)) != repr(ta[1]):
                    raise Unsupported("defaultdict append types")
                return self.wrap(bi + bv, "let %s := (py_ddict_append %s %s %s) in\n  %s" % (cname(a), cname(a), ci, cv, nxt(env)))
            if not (isinstance(ta, tuple) and ta[0] == "list" and isinstance(ta[1], tuple) and ta[1][0] == "list"):
                raise Unsupported("nested append on %s" % (ta,))
            bi, ci, ti = self.expr(s.value.func.value.slice, env)
            bv, cv, tv = self.expr(s.value.args[0], env)
            if ti != "int" or (ta[1][1] is not None and repr(ta[1][1]) != repr(tv)):
                raise Unsupported("nested append types")
            env2 = dict(env)
            env2[a] = ("list", ("list", tv))
            return self.wrap(bi + bv, "%s <- py_append_at %s %s %s ;;\n  %s" % (cname(a), cname(a), ci, cv, nxt(env2)))
        if isinstance(s, ast.Expr) and isinstance(s.value, ast.Call) and isinstance(s.value.func, ast.Attribute) \
                and isinstance(s.value.func.value, ast.Name) and isinstance(env.get(s.value.func.value.id), tuple) \
                and env[s.value.func.value.id][0] == "record" and s.value.func.attr in self.methods_of(env[s.value.func.value.id]) \
                and not s.value.args and not s.value.keywords:
            # x.method()  where method is a translated mutating method: it returns the updated x
            a = s.value.func.value.id
            return "%s <- %s %s ;;\n  %s" % (cname(a), fname(self.methods_of(env[a])[s.value.func.attr]), cname(a), nxt(env))
        if isinstance(s, ast.Expr) and isinstance(s.value, ast.Call) and isinstance(s.value.func, ast.Attribute) \
                and isinstance(s.value.func.value, ast.Name) and s.value.func.value.id in env:
            a = s.value.func.value.id
            ta = env[a]
            if s.value.func.attr == "append" and len(s.value.args) == 1 and not s.value.keywords and isinstance(ta, tuple) and ta[0] == "list":
                b, c, t = self.expr(s.value.args[0], env)
                if ta[1] is not None and repr(ta[1]) != repr(t):
                    raise Unsupported("append of %s to list of %s" % (t, ta[1]))
                env2 = dict(env)
                env2[a] = ("list", t)
                return self.wrap(b, "let %s := (%s ++ [%s]) in\n  %s" % (cname(a), cname(a), c, nxt(env2)))
            if s.value.func.attr == "pop" and not s.value.args and not s.value.keywords and isinstance(ta, tuple) and ta[0] == "list":
                return "%s <- py_pop_last %s ;;\n  %s" % (cname(a), cname(a), nxt(env))
            if s.value.func.attr == "pop" and len(s.value.args) == 1 and not s.value.keywords and isinstance(ta, tuple) and ta[0] == "list" \
                    and isinstance(s.value.args[0], ast.Constant) and s.value.args[0].value == 0:
                return "%s <- py_pop_first %s ;;\n  %s" % (cname(a), cname(a), nxt(env))
            raise Unsupported("method call %s" % ast.unparse(s))
        if isinstance(s, ast.If) and not s.orelse and s.body and isinstance(s.body[-1], ast.Continue) and self.loop_k:
            # if c: ...; continue   (directly in a loop body): the iteration ends here with the state as it is
            b, c, t = self.expr(s.test, env)
            if t != "bool":
                raise Unsupported("condition type %s" % (t,))
            return self.wrap(b, "if %s then\n  %s\n  else\n  %s" % (c, self.block(s.body[:-1], env, self.loop_k[-1]), nxt(env)))
        if isinstance(s, ast.If):
            b, c, t = self.expr(s.test, env)
            if t != "bool":
                raise Unsupported("condition type %s" % (t,))
            t_body, t_else = self.terminates(s.body), self.terminates(s.orelse)
            if t_body and not t_else:
                return self.wrap(b, "if %s then\n  %s\n  else\n  %s" % (
                    c, self.block(s.body, env, self.no_fall), self.block(s.orelse, env, lambda e2: nxt(e2))))
            if t_else and not t_body:
                return self.wrap(b, "if %s then\n  %s\n  else\n  %s" % (
                    c, self.block(s.body, env, lambda e2: nxt(e2)), self.block(s.orelse, env, self.no_fall)))
            if t_body and t_else:
                return self.wrap(b, "if %s then\n  %s\n  else\n  %s" % (
                    c, self.block(s.body, env, self.no_fall), self.block(s.orelse, env, self.no_fall)))
            names = [n for n in self.assigned(s.body + s.orelse)]
            envs = []
            joined = {}

            def kk(e2):
                envs.append(e2)
                if not joined:
                    return "Ret tt"      # first pass: only the environments at the join are collected
                # second pass: an int that meets a float at the join converts exactly
                parts = [("(of_int %s)" % cname(n)) if (joined[n] == "F" and e2[n] == "int") else cname(n) for n in names]
                if not parts:
                    return "Ret tt"
                return "Ret %s" % (parts[0] if len(parts) == 1 else "(" + ", ".join(parts) + ")")
            saved_tmp = self.tmp
            saved_fuel = self.uses_fuel
            self.block(s.body, env, kk)
            self.block(s.orelse, env, kk)
            # names bound on some paths only stay local to their branch (a later use is then an unknown name: fail closed)
            names = [n for n in names if all(n in e2 for e2 in envs)]
            env2 = dict(env)
            for n in names:
                ts = {repr(e2[n]) for e2 in envs}
                if ts == {repr("F"), repr("int")}:
                    joined[n] = "F"
                elif len(ts) != 1:
                    raise Unsupported("%s has different types on the two paths" % n)
                else:
                    joined[n] = envs[0][n]
                env2[n] = joined[n]
            if not names:
                joined["_"] = None
            self.tmp = saved_tmp
            self.uses_fuel = saved_fuel
            envs.clear()
            cb = self.block(s.body, env, kk)
            ce = self.block(s.orelse, env, kk)
            return self.wrap(b, "%s <- (if %s then\n  %s\n  else\n  %s) ;;\n  %s" % (self.state_pat(names)[1], c, cb, ce, nxt(env2)))
        if isinstance(s, ast.For) and not s.orelse and isinstance(s.target, ast.Name) and isinstance(s.iter, ast.Attribute) \
                and isinstance(s.iter.value, ast.Name) and isinstance(env.get(s.iter.value.id), tuple) and env[s.iter.value.id][0] == "record" \
                and len(s.body) == 1 and isinstance(s.body[0], ast.Assign) and len(s.body[0].targets) == 1 \
                and isinstance(s.body[0].targets[0], ast.Attribute) and isinstance(s.body[0].targets[0].value, ast.Name) \
                and s.body[0].targets[0].value.id == s.target.id:
            # for item in x.items: item.prop = v   - every element of the list field is updated through its setter
            a = s.iter.value.id
            rt_ = env[a]
            fld = s.iter.attr
            ft = rt_[2].get(fld)
            prop = s.body[0].targets[0].attr
            if not (isinstance(ft, tuple) and ft[0] == "list" and isinstance(ft[1], tuple) and ft[1][0] == "record" and prop in self.setters_of(ft[1])):
                raise Unsupported("loop that mutates its items: %s" % ast.unparse(s.body[0]))
            bv, cv, tv = self.expr(s.body[0].value, env)
            if bv:
                raise Unsupported("effects in the stored value")
            v = self.fresh()
            return "%s <- mapM (fun %s => %s %s %s) (%s%s %s) ;;\n  let %s := (set_%s%s %s %s) in\n  %s" % (
                v, cname(s.target.id), fname(self.setters_of(ft[1])[prop]), cname(s.target.id), cv, rt_[3], fld, cname(a),
                cname(a), rt_[3], fld, cname(a), v, nxt(env))
        if isinstance(s, ast.For):
            if s.orelse:
                raise Unsupported("for-else")
            for n in ast.walk(s):
                if isinstance(n, (ast.Break, ast.Return)):
                    raise Unsupported("break / return inside a loop")
            n_cont = sum(isinstance(n, ast.Continue) for n in ast.walk(s))
            n_ok = sum(isinstance(x, ast.If) and not x.orelse and x.body and isinstance(x.body[-1], ast.Continue)
                       and not any(isinstance(n, ast.Continue) for y in x.body[:-1] for n in ast.walk(y)) for x in s.body)
            if n_cont != n_ok:
                raise Unsupported("continue in this position")
            if isinstance(s.iter, ast.Call) and ast.unparse(s.iter.func) in ("range", "numba_guard.prange") \
                    and len(s.iter.args) == 1 and not s.iter.keywords:
                # numba_guard.prange is range when interpreted and a parallel loop when compiled; the sequential reading
                # is rendered (that the iterations are independent is what C15 checks)
                b, c, t = self.expr(s.iter.args[0], env)
                if t != "int":
                    raise Unsupported("range of %s" % (t,))
                it, el = "(zrange %s)" % c, "int"
            elif isinstance(s.iter, ast.Call) and ast.unparse(s.iter.func) == "range" and len(s.iter.args) in (2, 3) and not s.iter.keywords:
                parts = [self.expr(x, env) for x in s.iter.args]
                if any(p[2] != "int" for p in parts):
                    raise Unsupported("range arguments")
                b = sum((p[0] for p in parts), [])
                if len(parts) == 3:
                    if ast.unparse(s.iter.args[2]) != "-1":
                        raise Unsupported("range step other than -1")
                    it, el = "(zrange_down %s %s)" % (parts[0][1], parts[1][1]), "int"
                else:
                    it, el = "(zrange2 %s %s)" % (parts[0][1], parts[1][1]), "int"
            elif isinstance(s.iter, ast.Call) and ast.unparse(s.iter.func) == "enumerate" and len(s.iter.args) == 1 and not s.iter.keywords:
                b, c, t = self.expr(s.iter.args[0], env)
                if not (isinstance(t, tuple) and t[0] == "list"):
                    raise Unsupported("enumerate of %s" % (t,))
                it, el = "(py_enumerate %s)" % c, ("tuple", ["int", t[1]])
            else:
                b, it, t = self.expr(s.iter, env)
                if not (isinstance(t, tuple) and t[0] == "list"):
                    raise Unsupported("iteration over %s" % (t,))
                el = t[1]
            state = [n for n in self.assigned(s.body) if n in env]
            pat, env_body = self.pattern(s.target, el, env)
            spat = self.state_pat(state)
            out_envs = []

            def kend(e2):
                out_envs.append(e2)
                return "Ret %s" % spat[0]
            self.loop_k.append(kend)
            body = self.block(s.body, env_body, kend)
            env2 = dict(env)
            init = {n: cname(n) for n in state}
            for n in state:
                for e2 in out_envs:
                    if env[n] in (("list", None), ("dict", None), ("list", ("list", None))):
                        env2[n] = e2[n]
                    elif env[n] == "int" and e2[n] == "F":
                        # an int accumulator that meets floats in the loop: the initial value converts exactly
                        env2[n] = "F"
                        init[n] = "(of_int %s)" % cname(n)
                    elif env[n] == "int" and e2[n] == "MAT":
                        env2[n] = "MAT"
                        init[n] = "(np_mat_of_int %s)" % cname(n)
                    elif repr(e2[n]) != repr(env[n]):
                        raise Unsupported("loop changes the type of %s" % n)
            if any(repr(env[n]) != repr(env2[n]) for n in state):
                # translate the body again with the types known (types only steer operator choice)
                out_envs.clear()
                env_body2 = dict(env_body)
                for n in state:
                    env_body2[n] = env2[n]
                body = self.block(s.body, env_body2, kend)
                for n in state:
                    for e2 in out_envs:
                        if repr(e2[n]) != repr(env2[n]):
                            raise Unsupported("loop changes the type of %s" % n)
            self.loop_k.pop()
            init_code = spat[0] if all(init[n] == cname(n) for n in state) else \
                (init[state[0]] if len(state) == 1 else "(" + ", ".join(init[n] for n in state) + ")")
            return self.wrap(b, "%s <- foldM (fun %s %s =>\n  %s) %s %s ;;\n  %s" % (
                spat[1], spat[1] if spat[1] != "_" else "_", pat, body, it, init_code, nxt(env2)))
        raise Unsupported("statement %s" % type(s).__name__)

    @staticmethod
    def no_fall(env):
        raise Unsupported("internal: fall-through after a terminating block")

    def check_ret(self, t):
        want = self.ret
        if repr(t) == repr(want):
            return
        if isinstance(t, tuple) and t[0] == "list" and t[1] is None and isinstance(want, tuple) and want[0] == "list":
            return
        if t == ("list", ("list", None)) and isinstance(want, tuple) and want[0] == "list" and isinstance(want[1], tuple) and want[1][0] == "list":
            return
        raise Unsupported("return type %s, declared %s" % (t, want))

    def translate(self):
        f = self.node
        a = f.args
        if a.vararg or a.kwarg or a.kwonlyargs or a.posonlyargs or a.kw_defaults:
            raise Unsupported("argument form")
        if a.defaults and not all(isinstance(d, ast.Constant) for d in a.defaults):
            raise Unsupported("non-literal default value")
        # (literal defaults only matter to callers that omit the argument; the translated function takes every parameter)
        deco = [ast.unparse(d) for d in f.decorator_list]
        if any(d != "functools.cache" and not d.startswith("numba_guard.njit(") and not d.endswith(".setter") for d in deco):
            raise Unsupported("decorator %s" % deco)
        env = {}
        params = []
        for arg in a.args:
            t = ann_type(arg.annotation, self.overrides, (self.key, arg.arg))
            env[arg.arg] = t
            params.append("(%s : %s)" % (cname(arg.arg), ty_coq(t)))
        self.ret_self = self.overrides.get((self.key, "return")) == "SELF"
        if self.ret_self:
            self.ret = env[a.args[0].arg]
        else:
            self.ret = ann_type(f.returns, self.overrides, (self.key, "return"))

        def kend(env2):
            if self.ret_self:
                return "Ret %s" % cname(a.args[0].arg)     # a mutating method: the updated object is the result
            raise Unsupported("function may end without return")
        body = self.block(f.body, env, kend)
        if self.uses_fuel:
            params = ["(fuel : nat)"] + params
        return "Definition %s %s : res %s :=\n  %s." % (fname(self.key), " ".join(params), ty_coq(self.ret), body)


# module -> (source file, ordered function list, type overrides)
TARGETS = {
    "unique_values": ("admm/unique_values.py",
                      ["_size_including_this_row", "_elements_in_row_after_target", "_compressed_index",
                       "_block_start_coordinates", "_unique_variable_locations", "locations_compressed",
                       "locations_index_slices"],
                      {("_size_including_this_row", "return"): "float"}),
    "data_preparation": ("data_preparation.py",
                         ["stack_training_data", "stack_training_data_multiple_series", "label_switching_cost_template",
                          "pad_missing_labels", "split_joint_labels"],
                         {("stack_training_data", "data"): "arr2", ("stack_training_data", "return"): "arr2",
                          ("stack_training_data_multiple_series", "all_series"): ("list", "arr2"),
                          ("stack_training_data_multiple_series", "return"): "arr2",
                          ("label_switching_cost_template", "return"): ("list", "F")}),
    # floating-point kernels: NumPy element arithmetic over an abstract carrier (header KHEADER)
    "cluster_label_assignment": ("cluster_label_assignment.py", ["assign_point_cluster_labels"],
                                 {("assign_point_cluster_labels", "label_assignment_cost"): "arr2",
                                  ("assign_point_cluster_labels", "label_switching_cost"): "nd",
                                  ("assign_point_cluster_labels", "return"): ("tuple", [("list", "int"), "F"])}),
    "solver": ("admm/solver.py", ["soft_threshold_prox", "admm_update_u", "admm_update_z", "check_convergence", "x_update_prox", "compute_lambda_sum"],
               {("soft_threshold_prox", "scaled_point_sum"): "F", ("soft_threshold_prox", "lambda_sum"): "F",
                ("soft_threshold_prox", "rho_times_r"): "F", ("soft_threshold_prox", "return"): "F",
                ("admm_update_u", "u"): ("list", "F"), ("admm_update_u", "x"): ("list", "F"), ("admm_update_u", "z"): ("list", "F"),
                ("admm_update_u", "return"): ("list", "F"),
                ("admm_update_z", "args"): ("record", "admm_args",
                                            {"window_size": "int", "num_data_series": "int", "rho": "F", "sparsity_weight": "LAM"}, "aa_"),
                ("admm_update_z", "u"): ("list", "F"), ("admm_update_z", "x"): ("list", "F"),
                ("admm_update_z", "return"): ("list", "F"),
                ("check_convergence", "args"): ("record", "admm_tol_args",
                                                {"absolute_tolerance": "F", "relative_tolerance": "F", "rho": "F", "verbose": "bool"},
                                                "at_", "(admm_tol_args F)"),
                ("check_convergence", "u"): ("list", "F"), ("check_convergence", "x"): ("list", "F"),
                ("check_convergence", "z"): ("list", "F"), ("check_convergence", "z_old"): ("list", "F"),
                ("check_convergence", "return"): ("tuple", ["bool", "F", "F", "F", "F"]),
                ("x_update_prox", "empirical_covariance"): "MAT", ("x_update_prox", "z_minus_u"): "MAT", ("x_update_prox", "rho"): "F",
                ("x_update_prox", "return"): ("list", "F"),
                ("compute_lambda_sum", "lambda_parameter"): "lamv", ("compute_lambda_sum", "return"): "F"}),
    "cluster_metrics": ("cluster_metrics.py", ["bayesian_information_criterion", "calinski_harabasz_index"],
                        {("calinski_harabasz_index", "stacked_training_data"): "arr2",
                         ("calinski_harabasz_index", "model"): ("record", "ch_model", {"clusters": ("list", ("record", "ch_cluster", {"size": "int", "member_points": ("list", "int"),
                                                                              "stacked_data_mean": ("list", "F")}, "cc_", "(ch_cluster F)"))},
                          "cm_", "(ch_model F)"),
                         ("calinski_harabasz_index", "return"): "F",
                         ("bayesian_information_criterion", "model"):
                         ("record", "bic_model",
                          {"arguments": ("record", "bic_args", {"num_clusters": "int"}, "ba_", "bic_args"),
                           "clusters": ("list", ("record", "bic_cluster", {"train_inverse": "MAT", "empirical_covariance": "MAT"},
                                                 "bc_", "(bic_cluster M)")),
                           "point_labels": ("list", "int")}, "bm_", "(bic_model M)"),
                         ("bayesian_information_criterion", "return"): "F"}),
    "likelihood": ("likelihood.py", ["point_log_likelihood_fast", "all_points_all_clusters_log_likelihood_fast"],
                   {("point_log_likelihood_fast", "point"): ("list", "F"), ("point_log_likelihood_fast", "mu_i"): ("list", "F"),
                    ("point_log_likelihood_fast", "theta_i"): "MAT", ("point_log_likelihood_fast", "log_det_theta"): "F",
                    ("point_log_likelihood_fast", "return"): "F",
                    ("all_points_all_clusters_log_likelihood_fast", "mus"): "arr2",
                    ("all_points_all_clusters_log_likelihood_fast", "thetas"): ("list", "MAT"),
                    ("all_points_all_clusters_log_likelihood_fast", "log_det_thetas"): ("list", "F"),
                    ("all_points_all_clusters_log_likelihood_fast", "stacked_training_data"): "arr2",
                    ("all_points_all_clusters_log_likelihood_fast", "return"): "arr2"}),
    "main_loop_results": ("main_loop.py", ["_compute_log_likelihood_by_cluster"],
                          {("_compute_log_likelihood_by_cluster", "stacked_training_data"): "arr2",
                           ("_compute_log_likelihood_by_cluster", "model"):
                           ("record", "ll_model",
                            {"arguments": ("record", "ll_args", {"window_size": "int", "num_clusters": "int"}, "la_", "ll_args"),
                             "clusters": ("list", "CL"), "point_labels": ("list", "int")}, "lm_", "(ll_model CL)"),
                           ("_compute_log_likelihood_by_cluster", "return"): ("list", ("list", "F"))}),
    "matrix_compression": ("matrix_compression.py", ["_full_matrix_size", "_upper_triangle_indices", "_uncompress_upper_triangle", "_upper_to_full",
                                                      "compress_matrix", "reinflate_matrix"],
                           {("_uncompress_upper_triangle", "compressed_tri"): ("list", "F"), ("_uncompress_upper_triangle", "return"): "arr2",
                            ("_upper_to_full", "upper_tri"): "arr2", ("_upper_to_full", "return"): "arr2",
                            ("compress_matrix", "full_matrix"): "arr2", ("compress_matrix", "return"): ("list", "F"),
                            ("reinflate_matrix", "compressed_utri"): ("list", "F"), ("reinflate_matrix", "return"): "arr2"}),
    "graphical_lasso": ("graphical_lasso.py", ["_zero_small_elements", "_reconstruct_optimized_matrix"],
                        {("_zero_small_elements", "array"): "arr2", ("_zero_small_elements", "epsilon"): "F",
                         ("_zero_small_elements", "return"): "arr2",
                         ("_reconstruct_optimized_matrix", "model"):
                         ("record", "gl_model", {"arguments": ("record", "gl_args", {"min_meaningful_covariance": "F"}, "ga_", "(gl_args F)")},
                          "gm_", "(gl_model F)"),
                         ("_reconstruct_optimized_matrix", "compressed_result"): ("list", "F"),
                         ("_reconstruct_optimized_matrix", "return"): "arr2"}),
    "cluster_maintenance": ("cluster_maintenance.py", ["_find_point_donor", "_move_random_points", "update_cluster_member_data_statistics"],
                            {("update_cluster_member_data_statistics", "cluster"): ("record", "st_cluster", {"size": "int", "member_points": ("list", "int"), "empirical_covariance": "MAT",
                                                           "stacked_data_mean": ("list", "F")}, "sc_", "(st_cluster F M)"),
                             ("update_cluster_member_data_statistics", "training_data"): "arr2",
                             ("update_cluster_member_data_statistics", "return"): ("record", "st_cluster", {"size": "int", "member_points": ("list", "int"), "empirical_covariance": "MAT",
                                                           "stacked_data_mean": ("list", "F")}, "sc_", "(st_cluster F M)"),
                             ("_find_point_donor", "model"): ("record", "rp_model",
                             {"arguments": ("record", "rp_args", {"min_cluster_size": "int"}, "ra_", "rp_args"),
                              "clusters": ("list", ("record", "rp_cluster", {"size": "int", "member_points": ("list", "int")}, "rc_", "rp_cluster")),
                              "point_labels": ("list", "int")}, "rm_", "rp_model"),
                             ("_find_point_donor", "potential_donor_ids"): ("list", "int"),
                             ("_find_point_donor", "return"): ("tuple", ["int", ("list", "int")]),
                             ("_move_random_points", "model"): ("record", "rp_model",
                             {"arguments": ("record", "rp_args", {"min_cluster_size": "int"}, "ra_", "rp_args"),
                              "clusters": ("list", ("record", "rp_cluster", {"size": "int", "member_points": ("list", "int")}, "rc_", "rp_cluster")),
                              "point_labels": ("list", "int")}, "rm_", "rp_model"),
                             ("_move_random_points", "return"): ("list", "int")}),
}
MS_CLUSTER = ("record", "ms_cluster", {"_member_points": ("list", "int"), "member_points": ("alias", "_member_points")}, "mc_", "ms_cluster",
                  {"member_points": "ClusterParameters.member_points@setter"}, {})
MS_STATE = ("record", "ms_state", {"_point_labels": ("list", "int"), "point_labels": ("alias", "_point_labels"),
                                               "clusters": ("list", MS_CLUSTER),
                                               "arguments": ("record", "ms_args", {"num_clusters": "int"}, "ma_", "ms_args")}, "ms_", "ms_state",
                 {}, {"_update_cluster_membership": "ModelState._update_cluster_membership"})
TARGETS["model_state"] = ("containers/model_state.py",
                          ["ClusterParameters.member_points@setter", "ModelState._update_cluster_membership", "ModelState.point_labels@setter"],
                          {("ClusterParameters.member_points@setter", "self"): MS_CLUSTER,
                           ("ClusterParameters.member_points@setter", "new_members"): ("list", "int"),
                           ("ClusterParameters.member_points@setter", "return"): "SELF",
                           ("ModelState._update_cluster_membership", "self"): MS_STATE,
                           ("ModelState._update_cluster_membership", "return"): "SELF",
                           ("ModelState.point_labels@setter", "self"): MS_STATE,
                           ("ModelState.point_labels@setter", "return"): "SELF"})
# per kernel module: extra imports, extra section variables, and calls rendered as section variables / imported definitions
KERNEL_MODULES = {
    "cluster_label_assignment": {"imports": "", "vars": "", "externs": {}},
    "solver": {
        "imports": "From Ticc Require Import Gen.G_unique_values.\n",
        "vars": ("  Variable L : Type.                            (* the sparsity weight as the caller passed it (opaque) *)\n"
                 "  Variable np_sum : list F -> F.                (* np.sum on a 1-D float64 array (pairwise summation) *)\n"
                 "  (* compute_lambda_sum(lambda, block, row, col, N, W): not translated (isinstance dispatch); uninterpreted *)\n"
                 "  Variable compute_lambda_sum : L -> Z -> Z -> Z -> Z -> Z -> res F.\n"
                 "  Variable fleb : F -> F -> bool.               (* <= on float64 *)\n"
                 "  Variable flit : string -> F.                  (* a float literal, named by its decimal text *)\n"
                 "  Variable math_sqrt : F -> F.                  (* math.sqrt *)\n"
                 "  Variable np_norm : list F -> F.               (* np.linalg.norm on a 1-D array (BLAS nrm2) *)\n"
                 "  Variable M : Type.                            (* dense 2-D float64 matrices (opaque) *)\n"
                 "  Variable fsqrt : F -> F.                      (* sqrt on float64 (np.sqrt elementwise) *)\n"
                 "  Variable np_eigh : M -> list F * M.           (* np.linalg.eigh: eigenvalues, eigenvectors (LAPACK) *)\n"
                 "  Variable np_matmul : M -> M -> M.             (* a @ b (BLAS) *)\n"
                 "  Variable np_transpose : M -> M.               (* a.T *)\n"
                 "  Variable np_mat_sub : M -> M -> M.            (* a - b, elementwise *)\n"
                 "  Variable np_mat_scale : F -> M -> M.          (* c * a, elementwise *)\n"
                 "  Variable np_diag : list F -> M.               (* np.diag of a 1-D array *)\n"
                 "  Variable compress_matrix : M -> list F.       (* matrix_compression.compress_matrix (modelled in Model/TriIndex.v) *)\n"
                 "  Variable math_fsum : list F -> F.             (* math.fsum: the exactly rounded sum *)\n"),
        "externs": {
            "fleb": ([], None, "fleb", False), "flit": ([], None, "flit", False),
            "math_sqrt": ([], None, "math_sqrt", False), "np_norm": ([], None, "np_norm", False),
            "fsqrt": ([], None, "fsqrt", False), "np_eigh": ([], None, "np_eigh", False), "np_matmul": ([], None, "np_matmul", False),
            "np_diag": ([], None, "np_diag", False),
            "matrix_compression.compress_matrix": (["MAT"], ("list", "F"), "compress_matrix", False),
            "math_fsum": ([], None, "math_fsum", False),
            "unique_values.locations_index_slices": (["int"] * 5, ("tuple", [("list", "int"), ("list", "int")]), "g_locations_index_slices", True),
            "compute_lambda_sum": (["LAM", "int", "int", "int", "int", "int"], "F", "compute_lambda_sum", True),
            "unique_values.locations_compressed": (["int"] * 5, ("list", "int"), "g_locations_compressed", True),
        }},
    "likelihood": {
        "imports": "",
        "vars": ("  Variable M : Type.                            (* 2-D float64 matrices (opaque) *)\n"
                 "  Variable flit : string -> F.                  (* a float literal, named by its decimal text *)\n"
                 "  Variable math_pi : F.                         (* math.pi *)\n"
                 "  Variable np_log : F -> F.                     (* np.log *)\n"
                 "  Variable np_quad_form : list F -> M -> list F -> F.   (* v.T @ m @ w (BLAS) *)\n"),
        "externs": {k: ([], None, k, False) for k in ("flit", "flog", "math_pi", "np_quad_form")}},
    "main_loop_results": {
        "imports": "",
        "vars": ("  Variable CL : Type.                           (* ClusterParameters objects (opaque) *)\n"
                 "  (* likelihood.point_log_likelihood(point, cluster, window_size, num_data_series): uninterpreted *)\n"
                 "  Variable point_log_likelihood : list F -> CL -> Z -> Q -> F.\n"),
        "externs": {"likelihood.point_log_likelihood": ([("list", "F"), "CL", "int", "float"], "F", "point_log_likelihood", False)}},
    "matrix_compression": {
        "imports": "",
        "vars": "  Variable np_sqrt_int : Z -> Q.                  (* np.sqrt of an int (float64 square root; exact on perfect squares below 2^53) *)\n",
        "externs": {"np_sqrt_int": ([], None, "np_sqrt_int", False)}},
    "graphical_lasso": {
        "imports": "",
        "vars": "  Variable reinflate_matrix : list F -> arr2 F.   (* matrix_compression.reinflate_matrix (modelled in Model/TriIndex.v) *)\n",
        "externs": {"matrix_compression.reinflate_matrix": ([("list", "F")], "arr2", "reinflate_matrix", False)}},
    "cluster_maintenance": {
        "imports": "",
        "vars": ("  Variable random_sample_range : Z -> Z -> list Z.   (* random.sample(range(n), k): the draw (uninterpreted) *)\n"
                 "  Variable M : Type.                            (* dense 2-D float64 matrices (opaque) *)\n"
                 "  Variable np_cov_of_rows : arr2 F -> bool -> M.  (* np.cov(np.transpose(X), bias=b): covariance of the rows of X as observations *)\n"
                 "  Variable np_mean_rows : arr2 F -> list F.     (* np.mean(X, axis=0) *)\n"),
        "externs": {"random_sample_range": ([], None, "random_sample_range", False),
                    "np_cov_of_rows": ([], None, "np_cov_of_rows", False), "np_mean_rows": ([], None, "np_mean_rows", False)}},
    "cluster_metrics": {
        "imports": "",
        "vars": ("  Variable M : Type.                            (* 2-D float64 matrices (opaque) *)\n"
                 "  Variable flit : string -> F.                  (* a float literal, named by its decimal text *)\n"
                 "  Variable np_log : F -> F.                       (* np.log *)\n"
                 "  Variable np_slogdet_logabs : M -> F.             (* np.linalg.slogdet(.)[1] *)\n"
                 "  Variable np_trace_dot : M -> M -> F.             (* np.trace(np.dot(., .)) *)\n"
                 "  Variable np_count_above : M -> F -> Z.           (* np.sum(np.abs(.) > t) *)\n"
                 "  Variable np_mean_all : arr2 F -> F.              (* np.mean over every entry of a 2-D array *)\n"
                 "  Variable np_outer : list F -> list F -> M.       (* c @ c.T for a column c (v.reshape(-1, 1)) *)\n"
                 "  Variable np_mat_of_int : Z -> M.                 (* the int an accumulator starts from, as a matrix (0 + M) *)\n"
                 "  Variable np_mat_add : M -> M -> M.               (* a + b, elementwise *)\n"
                 "  Variable np_mat_scale : F -> M -> M.             (* c * a, elementwise *)\n"
                 "  Variable np_trace : M -> F.                      (* np.trace *)\n"
                 "  Variable of_q : Q -> F.                          (* a Python float that is an exact quotient of ints, as float64 *)\n"),
        "externs": {k: ([], None, k, False) for k in ("flit", "flog", "slogdet_logabs", "trace_dot", "count_above", "np_mean_all", "np_outer", "np_trace")}},
}

HEADER = """(* GENERATED by vcheck/py2coq.py from %(src)s - do not edit.
   Regenerated from /repo's working tree on every run; the equivalence theorems in
   Proofs/GenEquiv*.v are re-checked against this text.  Semantic table: Gen/PyRt.v. *)
From Coq Require Import String.
From Coq Require Import ZArith QArith List Bool.
From Ticc Require Import Gen.PyRt.
Import ListNotations.
Local Open Scope Z_scope.

Section Gen.
  (* element type of NumPy float arrays (the code only copies elements) and the literals 0.0 / 1.0 *)
  Variable F : Type.
  Variables f0 f1 : F.

"""


KHEADER = """(* GENERATED by vcheck/py2coq.py from %(src)s - do not edit.
   Regenerated from /repo's working tree on every run; the equivalence theorems in
   Proofs/GenEquiv*.v are re-checked against this text.  Semantic table: Gen/PyRt.v.
   Floating-point code: the carrier F and its operations are abstract (instantiated at R and at binary64). *)
From Coq Require Import String.
From Coq Require Import ZArith QArith List Bool.
From Ticc Require Import Gen.PyRt.
%(imports)sImport ListNotations.
Local Open Scope Z_scope.

Section Gen.
  Variable F : Type.
  Variables f0 f1 : F.                          (* 0.0, 1.0 *)
  Variables fadd fsub fmul fdiv : F -> F -> F.  (* + - * / on float64 *)
  Variable fltb : F -> F -> bool.               (* < on float64 *)
  Variable of_int : Z -> F.                     (* int -> float64 conversion *)
%(vars)s
"""


def translate_module(mod, src_root):
    rel, names, overrides = TARGETS[mod]
    path = os.path.join(src_root, rel)
    tree = ast.parse(open(path).read())
    funcs = {n.name: n for n in tree.body if isinstance(n, ast.FunctionDef)}
    for cls in tree.body:
        if isinstance(cls, ast.ClassDef):
            for n in cls.body:
                if isinstance(n, ast.FunctionDef):
                    decos = [ast.unparse(d) for d in n.decorator_list]
                    if any(d.endswith(".setter") for d in decos):
                        funcs["%s.%s@setter" % (cls.name, n.name)] = n
                    elif "property" not in decos:
                        funcs["%s.%s" % (cls.name, n.name)] = n
    sigs = {}
    if mod in KERNEL_MODULES:
        km = KERNEL_MODULES[mod]
        out = [KHEADER % {"src": "src/fast_ticc/" + rel, "imports": km["imports"], "vars": km["vars"]}]
    else:
        km = {"externs": {}}
        out = [HEADER % {"src": "src/fast_ticc/" + rel}]
    report = {}
    for name in names:
        if name not in funcs:
            report[name] = "missing from the source"
            out.append("  (* %s: NOT TRANSLATED - missing from the source *)\n\n" % name)
            continue
        node = funcs[name]
        try:
            fn = Fn(mod, node, sigs, overrides, km["externs"], key=name)
            text = fn.translate()
            at = [ann_type(a.annotation, overrides, (name, a.arg)) for a in node.args.args]
            sigs[name] = (at, fn.ret, [a.arg for a in node.args.args])
            body = [b for b in node.body if not (isinstance(b, ast.Expr) and isinstance(getattr(b, "value", None), ast.Constant)
                                                  and isinstance(b.value.value, str))]
            h = hashlib.sha256("".join(ast.dump(b) for b in body).encode()).hexdigest()[:12]
            out.append("  (* %s, lines %d-%d, ast %s *)\n  %s\n\n" % (name, node.lineno, node.end_lineno, h, text.replace("\n", "\n  ")))
            report[name] = "ok"
        except Unsupported as e:
            report[name] = "unsupported: %s" % e
            out.append("  (* %s: NOT TRANSLATED - %s *)\n\n" % (name, str(e).replace("*)", "* )")))
    out.append("End Gen.\n")
    return "".join(out), report




# ---------------------------------------------------------------------------------------------------------------
# SKELETON mode: the control flow of an object-heavy function with every call left uninterpreted (Gen/PySkel.v)
# ---------------------------------------------------------------------------------------------------------------


class Skel:
    """translate the prefix of a function (up to the first assignment to `stop_at`) into the monad of Gen/PySkel.v;
    values are opaque (type V) except loop indices and integer literals (Z)"""

    def __init__(self, node, stop_at, result_names):
        self.node, self.stop_at, self.result_names = node, stop_at, result_names
        self.tmp = 0
        self.depth = 0
        self.defname = None
        self.join = 0        # > 0 while translating a branch whose value is joined with mret: a return there cannot be rendered

    def fresh(self):
        self.tmp += 1
        return "t%d_" % self.tmp

    @staticmethod
    def wrap(binds, code):
        for pat, m in reversed(binds):
            code = "%s <<- %s ;;\n  %s" % (pat, m, code)
        return code

    def toV(self, c, t):
        if t == "V":
            return c
        if t == "Z":
            return "(vint %s)" % c
        raise Unsupported("value of type %s passed to a call" % t)

    def expr(self, e, env):
        if isinstance(e, ast.Constant):
            if e.value is None:
                return [], "vnone", "V"
            if isinstance(e.value, int) and not isinstance(e.value, bool):
                return [], "(%d)" % e.value, "Z"
            if isinstance(e.value, bool):
                return [], ("vtrue" if e.value else "vfalse"), "V"
            if isinstance(e.value, (str, float)):
                # a literal outside the integer subset: one uninterpreted (logged) operation without arguments, named by its text
                v = self.fresh()
                return [(v, 'call oracle "expr:%s" []' % ast.unparse(e).replace('"', "'"))], v, "V"
            raise Unsupported("constant %r" % (e.value,))
        if isinstance(e, ast.Name):
            if e.id not in env:
                if e.id in getattr(self, "module_globals", ()):
                    return [], '(vglobal "%s")' % e.id, "V"      # a module-level variable: a named constant, like a dotted name
                raise Unsupported("unknown name %s" % e.id)
            return [], cname(e.id), env[e.id]
        if isinstance(e, ast.UnaryOp) and isinstance(e.op, ast.Not):
            b, c, t = self.expr(e.operand, env)
            if t == "V":
                c, t = "(truthy %s)" % c, "bool"
            if t != "bool":
                raise Unsupported("not on %s" % t)
            return b, "(negb %s)" % c, "bool"
        if isinstance(e, ast.UnaryOp) and isinstance(e.op, ast.USub):
            b, c, t = self.expr(e.operand, env)
            if t == "Z":
                return b, "(- %s)" % c, "Z"
            v = self.fresh()
            return b + [(v, 'call oracle "op:neg" [%s]' % self.toV(c, t))], v, "V"
        if isinstance(e, ast.Attribute):
            root = e
            while isinstance(root, ast.Attribute):
                root = root.value
            if isinstance(root, ast.Name) and root.id not in env and ast.unparse(e).replace(".", "").replace("_", "").isalnum():
                # a dotted name of another module (a function passed as a value): a named constant
                return [], '(vglobal "%s")' % ast.unparse(e), "V"
            b, c, t = self.expr(e.value, env)
            if t != "V":
                raise Unsupported("attribute of a %s" % t)
            return b, '(getattr %s "%s")' % (c, e.attr), "V"
        if isinstance(e, ast.Subscript) and isinstance(e.slice, ast.Constant) and isinstance(e.slice.value, int):
            b, c, t = self.expr(e.value, env)
            if t != "V":
                raise Unsupported("subscript of a %s" % t)
            return b, '(getattr %s "[%d]")' % (c, e.slice.value), "V"
        if isinstance(e, ast.BinOp) and type(e.op) in (ast.Add, ast.Sub, ast.Mult, ast.Div):
            # arithmetic on opaque values: an uninterpreted (logged) operation that may raise
            b1, c1, t1 = self.expr(e.left, env)
            b2, c2, t2 = self.expr(e.right, env)
            sym = {ast.Add: "+", ast.Sub: "-", ast.Mult: "*", ast.Div: "/"}[type(e.op)]
            v = self.fresh()
            return b1 + b2 + [(v, 'call oracle "op:%s" [%s; %s]' % (sym, self.toV(c1, t1), self.toV(c2, t2)))], v, "V"
        if isinstance(e, ast.Compare):
            if len(e.ops) != 1:
                raise Unsupported("chained comparison")
            b1, c1, t1 = self.expr(e.left, env)
            b2, c2, t2 = self.expr(e.comparators[0], env)
            op = type(e.ops[0])
            if t1 == "V" and t2 == "V" and op in (ast.Is, ast.IsNot) and ast.unparse(e.comparators[0]) == "None":
                return b1 + b2, ("(is_none %s)" if op is ast.Is else "(negb (is_none %s))") % c1, "bool"
            if t1 == "V" and t2 == "V":
                if op is ast.Eq:
                    return b1 + b2, "(veq %s %s)" % (c1, c2), "bool"
                if op is ast.NotEq:
                    return b1 + b2, "(negb (veq %s %s))" % (c1, c2), "bool"
                raise Unsupported("ordering of opaque values")
            binds = b1 + b2
            if t1 == "V":
                v = self.fresh()
                binds.append((v, "need_int as_int %s" % c1))
                c1, t1 = v, "Z"
            if t2 == "V":
                v = self.fresh()
                binds.append((v, "need_int as_int %s" % c2))
                c2, t2 = v, "Z"
            tbl = {ast.Lt: "(%s <? %s)", ast.LtE: "(%s <=? %s)", ast.Gt: "(%s >? %s)", ast.GtE: "(%s >=? %s)",
                   ast.Eq: "(%s =? %s)", ast.NotEq: "(negb (%s =? %s))"}
            if op not in tbl or t1 != "Z" or t2 != "Z":
                raise Unsupported("comparison %s" % ast.unparse(e))
            return binds, tbl[op] % (c1, c2), "bool"
        if isinstance(e, ast.Constant) and isinstance(e.value, bool):
            return [], ("vtrue" if e.value else "vfalse"), "V"
        if isinstance(e, ast.Subscript) and not isinstance(e.slice, (ast.Slice, ast.Tuple, ast.Constant)):
            # x[i] with a computed index: a (logged) read that may raise IndexError / KeyError
            b1, c1, t1 = self.expr(e.value, env)
            b2, c2, t2 = self.expr(e.slice, env)
            v = self.fresh()
            return b1 + b2 + [(v, 'call oracle "getitem" [%s; %s]' % (self.toV(c1, t1), self.toV(c2, t2)))], v, "V"
        if isinstance(e, ast.BoolOp) and len(e.values) == 2:
            # a and b / a or b on conditions: b is evaluated (its calls are made) only when a does not decide
            b1, c1, t1 = self.expr(e.values[0], env)
            b2, c2, t2 = self.expr(e.values[1], env)
            if t1 == "V":
                c1, t1 = "(truthy %s)" % c1, "bool"
            if t2 == "V":
                c2, t2 = "(truthy %s)" % c2, "bool"
            if t1 != "bool" or t2 != "bool":
                raise Unsupported("boolean operator on %s, %s" % (t1, t2))
            v = self.fresh()
            second = self.wrap(b2, "mret %s" % c2)
            if isinstance(e.op, ast.And):
                return b1 + [(v, "(if %s then\n  %s\n  else mret false)" % (c1, second))], v, "bool"
            return b1 + [(v, "(if %s then mret true else\n  %s)" % (c1, second))], v, "bool"
        if isinstance(e, ast.Subscript) and isinstance(e.slice, (ast.Slice, ast.Tuple)) or \
                isinstance(e, (ast.ListComp, ast.DictComp, ast.SetComp, ast.GeneratorExp, ast.JoinedStr, ast.List, ast.Dict)) \
                or (isinstance(e, ast.Call) and (any(isinstance(a_, ast.Starred) for a_ in e.args)
                                                 or any(isinstance(n_, (ast.ListComp, ast.IfExp)) for a_ in e.args for n_ in ast.walk(a_)))):
            # an expression outside the subset whose value only flows on: one uninterpreted (logged) operation on its free variables
            bound = set()
            for n in ast.walk(e):
                if isinstance(n, ast.comprehension):
                    bound |= {x.id for x in ast.walk(n.target) if isinstance(x, ast.Name)}
            free = sorted({n.id for n in ast.walk(e) if isinstance(n, ast.Name) and isinstance(n.ctx, ast.Load) and n.id in env and n.id not in bound})
            v = self.fresh()
            text = ast.unparse(e).replace('"', "'")
            return [(v, 'call oracle "expr:%s" [%s]' % (text, "; ".join(self.toV(cname(n), env[n]) for n in free)))], v, "V"
        if isinstance(e, ast.Call):
            fn = ast.unparse(e.func)
            if any(k.arg is None for k in e.keywords):
                raise Unsupported("**kwargs in call of %s" % fn)
            args = [self.expr(a, env) for a in e.args] + [self.expr(k.value, env) for k in e.keywords]
            if e.keywords:
                # keyword arguments: the names become part of the callee's label, the values follow the positional ones
                fn = fn + "(" + ",".join(k.arg + "=" for k in e.keywords) + ")"
            binds = sum((a[0] for a in args), [])
            argv = [self.toV(a[1], a[2]) for a in args]
            if isinstance(e.func, ast.Attribute):
                root = e.func
                while isinstance(root, (ast.Attribute, ast.Subscript)):
                    root = root.value
                if isinstance(root, ast.Name) and root.id in env:
                    # a method of a local object:  obj.path.method(args)
                    bo, co, to = self.expr(e.func.value, env)
                    if to != "V":
                        raise Unsupported("method of a %s" % to)
                    binds = bo + binds
                    v = self.fresh()
                    mlabel = e.func.attr + ("(" + ",".join(k.arg + "=" for k in e.keywords) + ")" if e.keywords else "")
                    return binds + [(v, 'call oracle "method:%s" [%s]' % (mlabel, "; ".join([co] + argv)))], v, "V"
            v = self.fresh()
            if isinstance(e.func, ast.Name) and env.get(e.func.id) == "V":
                # a call of a local value (a closure, a function received as an argument): the callee is the first argument
                lab = "apply" + ("(" + ",".join(k.arg + "=" for k in e.keywords) + ")" if e.keywords else "")
                return binds + [(v, 'call oracle "%s" [%s]' % (lab, "; ".join([cname(e.func.id)] + argv)))], v, "V"
            return binds + [(v, 'call oracle "%s" [%s]' % (fn, "; ".join(argv)))], v, "V"
        raise Unsupported("expression %s" % ast.unparse(e))

    def assigned(self, stmts):
        out = []

        def add(n):
            if n not in out:
                out.append(n)
        for s in stmts:
            if isinstance(s, ast.Assign):
                for t in s.targets:
                    if isinstance(t, ast.Name):
                        add(t.id)
                    elif isinstance(t, ast.Attribute) and isinstance(t.value, ast.Name):
                        add(t.value.id)
                    elif isinstance(t, ast.Subscript) and isinstance(t.value, ast.Name):
                        add(t.value.id)
                    elif isinstance(t, ast.Tuple) and all(isinstance(x, ast.Name) for x in t.elts):
                        for x in t.elts:
                            add(x.id)
                    else:
                        r_ = t
                        while isinstance(r_, (ast.Attribute, ast.Subscript)):
                            r_ = r_.value
                        if not isinstance(r_, ast.Name):
                            raise Unsupported("assignment target %s" % ast.unparse(t))
                        add(r_.id)
            elif isinstance(s, ast.If):
                for n in self.assigned(s.body) + self.assigned(s.orelse):
                    add(n)
            elif isinstance(s, ast.For):
                for n in self.assigned(s.body):
                    add(n)
            elif isinstance(s, ast.Try):
                for n in self.assigned(s.body):
                    add(n)
        return out

    @staticmethod
    def tup(names):
        if not names:
            return "tt", "_"
        if len(names) == 1:
            return cname(names[0]), cname(names[0])
        t = "(" + ", ".join(cname(n) for n in names) + ")"
        return t, "'" + t

    def ends_with_break(self, stmts):
        return bool(stmts) and isinstance(stmts[-1], ast.Break)

    def block(self, stmts, env, k, brk=None):
        if not stmts:
            return k(env)
        s, rest = stmts[0], stmts[1:]
        nxt = lambda e2: self.block(rest, e2, k, brk)   # noqa: E731
        if isinstance(s, ast.Assign) and len(s.targets) == 1 and isinstance(s.targets[0], ast.Name) and s.targets[0].id == self.stop_at:
            # the cut: everything from here on is result assembly
            for n in self.result_names:
                if n not in env:
                    raise Unsupported("%s is not bound at the cut" % n)
            return "mret %s" % self.tup(self.result_names)[0]
        if isinstance(s, ast.Expr) and isinstance(s.value, ast.Constant) and isinstance(s.value.value, str):
            return nxt(env)
        if isinstance(s, ast.Expr) and isinstance(s.value, ast.Call):
            if ast.unparse(s.value.func) in INERT_CALLS:
                return nxt(env)
            b, c, t = self.expr(s.value, env)
            return self.wrap(b, nxt(env))
        if isinstance(s, ast.FunctionDef) and not s.decorator_list:
            # a nested function (a closure handed on as a value): one uninterpreted (logged) operation on the local variables it
            # captures, named by its source text
            own = {a_.arg for a_ in s.args.args} | {n.id for n in ast.walk(s) if isinstance(n, ast.Name) and isinstance(n.ctx, ast.Store)}
            free = sorted({n.id for n in ast.walk(s) if isinstance(n, ast.Name) and isinstance(n.ctx, ast.Load) and n.id in env and n.id not in own})
            text = re.sub(r"\n\s*", " ", ast.unparse(s)).replace('"', "'")     # (line breaks only: blanks inside literals are kept)
            env2 = dict(env)
            env2[s.name] = "V"
            return '%s <<- call oracle "def:%s" [%s] ;;\n  %s' % (cname(s.name), text, "; ".join(self.toV(cname(n), env[n]) for n in free), self.block(rest, env2, k, brk))
        if isinstance(s, ast.Delete):
            free = sorted({n.id for n in ast.walk(s) if isinstance(n, ast.Name) and n.id in env})
            v = self.fresh()
            return '%s <<- call oracle "%s" [%s] ;;\n  %s' % (v, ast.unparse(s).replace('"', "'"), "; ".join(self.toV(cname(n), env[n]) for n in free), nxt(env))
        if isinstance(s, ast.Break):
            if brk is None:
                raise Unsupported("break outside a loop")
            return brk(env)
        if isinstance(s, ast.Return) and self.stop_at is None and brk is None and s.value is None and self.depth == 0 and self.join == 0:
            return "mret vnone"
        if isinstance(s, ast.Return) and self.stop_at is None and brk is None and s.value is not None and self.depth == 0 and self.join == 0:
            b, c, t = self.expr(s.value, env)
            return self.wrap(b, "mret %s" % self.toV(c, t))
        if isinstance(s, ast.Raise) and s.exc is None:
            raise Unsupported("bare raise outside an except clause")
        if isinstance(s, ast.Assert):
            b, c, t = self.expr(s.test, env)
            if t == "V":
                c, t = "(truthy %s)" % c, "bool"
            if t != "bool":
                raise Unsupported("assert on %s" % t)
            return self.wrap(b, 'if %s then\n  %s\n  else mraise "AssertionError"%%string' % (c, nxt(env)))
        if isinstance(s, ast.Assign):
            if len(s.targets) != 1:
                raise Unsupported("multiple assignment")
            tgt = s.targets[0]
            b, c, t = self.expr(s.value, env)
            if isinstance(tgt, ast.Name):
                env2 = dict(env)
                if env.get(tgt.id) == "V" and t == "Z":
                    # a name that already holds an opaque value keeps that type (its value may be joined with another branch)
                    c, t = self.toV(c, t), "V"
                env2[tgt.id] = t
                return self.wrap(b, "let %s := %s in\n  %s" % (cname(tgt.id), c, nxt(env2)))
            if isinstance(tgt, ast.Tuple) and all(isinstance(x, ast.Name) for x in tgt.elts) and t == "V":
                # (a, b, ...) = value : positional reads of the (opaque) tuple
                env2 = dict(env)
                code = ""
                for k_, x in enumerate(tgt.elts):
                    env2[x.id] = "V"
                    code += 'let %s := (getattr %s "[%d]") in\n  ' % (cname(x.id), c, k_)
                return self.wrap(b, code + nxt(env2))
            if isinstance(tgt, ast.Subscript) and isinstance(tgt.value, ast.Name) and env.get(tgt.value.id) == "V" \
                    and not isinstance(tgt.slice, (ast.Slice, ast.Tuple)):
                # x[i] = v : rendered as the call "setitem" [x; i; v] returning the updated x (x is referenced through this name only)
                o = cname(tgt.value.id)
                bi, ci, ti = self.expr(tgt.slice, env)
                return self.wrap(b + bi, '%s <<- call oracle "setitem" [%s; %s; %s] ;;\n  %s' % (o, o, self.toV(ci, ti), self.toV(c, t), nxt(env)))
            if isinstance(tgt, ast.Attribute) and isinstance(tgt.value, ast.Name) and env.get(tgt.value.id) == "V":
                o = cname(tgt.value.id)
                return self.wrap(b, '%s <<- call oracle "setattr:%s" [%s; %s] ;;\n  %s' % (o, tgt.attr, o, self.toV(c, t), nxt(env)))
            rt = tgt
            while isinstance(rt, (ast.Attribute, ast.Subscript)):
                rt = rt.value
            if isinstance(tgt, (ast.Attribute, ast.Subscript)) and isinstance(rt, ast.Name) and env.get(rt.id) == "V" \
                    and not any(isinstance(n, (ast.Slice, ast.Call)) for n in ast.walk(tgt)):
                # root.path[i].attr = v  (a store through a path): one logged call  "store:<path>" [root; <the other variables of the
                # path, in order of appearance>; v]  returning the updated root (the root is referenced through this name only)
                o = cname(rt.id)
                others, bo = [], []
                for n in ast.walk(tgt):
                    if isinstance(n, ast.Name) and n.id != rt.id:
                        if n.id not in env:
                            raise Unsupported("unknown name %s" % n.id)
                        if n.id not in [x for x, _ in others]:
                            others.append((n.id, self.toV(cname(n.id), env[n.id])))
                return self.wrap(b, '%s <<- call oracle "store:%s" [%s] ;;\n  %s' % (
                    o, ast.unparse(tgt), "; ".join([o] + [c_ for _, c_ in others] + [self.toV(c, t)]), nxt(env)))
            raise Unsupported("assignment %s" % ast.unparse(s))
        if isinstance(s, ast.If):
            b, c, t = self.expr(s.test, env)
            if t == "V":
                c, t = "(truthy %s)" % c, "bool"     # Python truthiness of an opaque value (pure)
            if t != "bool":
                raise Unsupported("condition of type %s" % t)
            if self.ends_with_break(s.body) and not s.orelse:
                return self.wrap(b, "if %s then\n  %s\n  else\n  %s" % (c, self.block(s.body, env, self.no_fall, brk), nxt(env)))
            if s.body and isinstance(s.body[-1], ast.Return) and not s.orelse and brk is None and self.depth == 0 and self.join == 0:
                # if c: ...; return v   - the function ends there; everything after the if runs only when c is false
                return self.wrap(b, "if %s then\n  %s\n  else\n  %s" % (c, self.block(s.body, env, self.no_fall, None), nxt(env)))
            if any(isinstance(n, ast.Break) for n in ast.walk(s)):
                # a break somewhere inside: both branches continue with the rest of the block (which is duplicated)
                if brk is None:
                    raise Unsupported("break outside a loop")
                return self.wrap(b, "if %s then\n  %s\n  else\n  %s" % (
                    c, self.block(s.body, env, nxt, brk), self.block(s.orelse, env, nxt, brk)))
            # names first bound inside the if stay local to it (a later use is then an unknown name: fail closed)
            a1, a2 = self.assigned(s.body), self.assigned(s.orelse)
            fresh_both = [n for n in a1 if n in a2 and n not in env]     # first bound here, on both paths: bound afterwards too
            names = [n for n in self.assigned(s.body + s.orelse) if n in env or n in fresh_both]
            t_, p_ = self.tup(names)

            def kk(e2):
                vals = [self.toV(cname(n), e2[n]) if n in fresh_both else cname(n) for n in names]
                return "mret %s" % (vals[0] if len(vals) == 1 else ("(" + ", ".join(vals) + ")") if vals else "tt")
            self.join += 1
            try:
                br1, br2 = self.block(s.body, env, kk, None), self.block(s.orelse, env, kk, None)
            finally:
                self.join -= 1
            env3 = dict(env)
            for n in fresh_both:
                env3[n] = "V"
            return self.wrap(b, "%s <<- (if %s then\n  %s\n  else\n  %s) ;;\n  %s" % (p_, c, br1, br2, nxt(env3)))
        if isinstance(s, ast.For) and not s.orelse and not (isinstance(s.iter, ast.Call) and ast.unparse(s.iter.func) == "range") \
                and not any(isinstance(n, (ast.Break, ast.Continue)) for n in ast.walk(s)):
            # for x in <opaque iterable> (no break): the iterable is evaluated (a logged call if it is one), then the body runs
            # once per element of  as_list <iterable>  in order
            b, c, t = self.expr(s.iter, env)
            if t != "V":
                raise Unsupported("iteration over a %s" % t)
            state = [n for n in self.assigned(s.body) if n in env]
            t_, p_ = self.tup(state)
            env_b = dict(env)
            item = self.fresh()
            pre = ""
            if isinstance(s.target, ast.Name):
                env_b[s.target.id] = "V"
                item = cname(s.target.id)
            elif isinstance(s.target, ast.Tuple) and all(isinstance(x, ast.Name) for x in s.target.elts):
                for k_, x in enumerate(s.target.elts):
                    env_b[x.id] = "V"
                    pre += 'let %s := (getattr %s "[%d]") in\n  ' % (cname(x.id), item, k_)
            else:
                raise Unsupported("loop target")
            self.depth += 1
            body = self.block(s.body, env_b, lambda e2: "mret %s" % t_, None)
            self.depth -= 1
            return self.wrap(b, "%s <<- for_each (fun %s %s =>\n  %s%s) (as_list %s) %s ;;\n  %s" % (
                p_, p_ if p_ != "_" else "_", item, pre, body, c, t_, nxt(env)))
        if isinstance(s, ast.For):
            if s.orelse or not (isinstance(s.iter, ast.Call) and ast.unparse(s.iter.func) == "range" and len(s.iter.args) == 1 and not s.iter.keywords):
                raise Unsupported("loop form")
            if not isinstance(s.target, ast.Name):
                raise Unsupported("loop target")
            b, c, t = self.expr(s.iter.args[0], env)
            if t == "V":
                v = self.fresh()
                b = b + [(v, "need_int as_int %s" % c)]
                c = v
            state = [n for n in self.assigned(s.body) if n in env]
            t_, p_ = self.tup(state)
            env_b = dict(env)
            env_b[s.target.id] = "Z"
            self.depth += 1
            body = self.block(s.body, env_b, lambda e2: "mret (%s, false)" % t_, lambda e2: "mret (%s, true)" % t_)
            self.depth -= 1
            return self.wrap(b, "%s <<- for_break (fun %s %s =>\n  %s) (zrange %s) %s ;;\n  %s" % (
                p_, p_ if p_ != "_" else "_", cname(s.target.id), body, c, t_, nxt(env)))
        if isinstance(s, ast.Try) and not s.orelse and not s.finalbody and len(s.handlers) == 1 and s.handlers[0].type is not None \
                and ast.unparse(s.handlers[0].type) != "BaseException":
            # try: body  except X as n: raise Y(<text>) from n   - exception X of the body is replaced by Y, everything else passes
            h = s.handlers[0]
            exc = ast.unparse(h.type)
            if not (exc.isidentifier() and len(h.body) == 1 and isinstance(h.body[0], ast.Raise) and isinstance(h.body[0].exc, ast.Call)
                    and isinstance(h.body[0].exc.func, ast.Name) and h.body[0].cause is not None and isinstance(h.body[0].cause, ast.Name)
                    and h.body[0].cause.id == h.name
                    and not any(isinstance(n, ast.Call) for a in h.body[0].exc.args for n in ast.walk(a))):
                raise Unsupported("except clause form")
            new_exc = h.body[0].exc.func.id
            names = self.assigned(s.body)
            t_, p_ = self.tup(names)

            def kbody(e2):
                for n in names:
                    if n not in e2:
                        raise Unsupported("%s is not bound on every path of the try body" % n)
                return "mret %s" % t_
            body = self.block(s.body, env, kbody, None)
            env2 = dict(env)
            for n in names:
                env2[n] = "V"
            return '%s <<- try_map (\n  %s) "%s" "%s" ;;\n  %s' % (p_, body, exc, new_exc, nxt(env2))
        if isinstance(s, ast.Try):
            if s.orelse or s.finalbody or len(s.handlers) != 1:
                raise Unsupported("try form")
            h = s.handlers[0]
            if h.type is None or ast.unparse(h.type) != "BaseException" or h.name:
                raise Unsupported("except clause other than `except BaseException:`")
            if not (h.body and isinstance(h.body[-1], ast.Raise) and h.body[-1].exc is None):
                raise Unsupported("except clause that does not re-raise")
            state = [n for n in self.assigned(s.body) if n in env]
            t_, p_ = self.tup(state)
            body = self.block(s.body, env, lambda e2: "mret %s" % t_, None)
            handler = self.block(h.body[:-1], env, lambda e2: "mret tt", None)
            return "%s <<- try_reraise (\n  %s) (\n  %s) ;;\n  %s" % (p_, body, handler, nxt(env))
        raise Unsupported("statement %s" % type(s).__name__)

    @staticmethod
    def no_fall(env):
        raise Unsupported("internal: fall-through after break")

    def translate(self):
        f = self.node
        a = f.args
        if a.kwonlyargs or a.posonlyargs:
            raise Unsupported("argument form")
        if isinstance(self.stop_at, tuple) and self.stop_at[0] == "from":
            # the SUFFIX of the function: from the first top-level assignment to `name` to the end; the listed local names are
            # its parameters (everything else it uses must be bound inside the suffix: fail closed otherwise)
            _, name, params_ = self.stop_at
            idx = [i for i, st in enumerate(f.body) if isinstance(st, ast.Assign) and len(st.targets) == 1
                   and isinstance(st.targets[0], ast.Name) and st.targets[0].id == name]
            if not idx:
                raise Unsupported("no top-level assignment to %s" % name)
            self.stop_at = None
            env = {n: "V" for n in params_}
            body = self.block(f.body[idx[0]:], env, lambda e2: (_ for _ in ()).throw(Unsupported("the function may end without return")), None)
            return "Definition %s_result %s : M V V :=\n  %s." % (fname(f.name), " ".join("(%s : V)" % cname(n) for n in params_), body)
        # (default values only matter to callers that omit an argument; the translated function takes every parameter)
        env = {arg.arg: "V" for arg in a.args}
        # *args / **kwargs: the tuple / dict of the extra arguments is one more opaque parameter
        extra = [x.arg for x in (a.vararg, a.kwarg) if x is not None]
        for x in extra:
            env[x] = "V"

        def kend(env2):
            if f.name == "__init__" and self.stop_at is None and a.args and a.args[0].arg == "self":
                return "mret self"        # a constructor: its result is the object it was given, as updated by the stores
            if self.stop_at is None:
                return "mret vnone"       # falling off the end of a function returns None
            raise Unsupported("the function ends before the cut (no assignment to %s)" % self.stop_at if self.stop_at
                              else "the function may end without return")
        body = self.block(f.body, env, kend, None)
        params = " ".join("(%s : V)" % cname(n_) for n_ in [arg.arg for arg in a.args] + extra)
        rt = "V" if len(self.result_names) <= 1 else "(" + " * ".join("V" for _ in self.result_names) + ")"
        return "Definition %s %s : M V %s :=\n  %s." % (self.defname or fname(f.name), params, rt, body)


SKEL_HEADER = """(* GENERATED by vcheck/py2coq.py (skeleton mode) from %(src)s - do not edit.
   Regenerated from /repo's working tree on every run.  Semantic table: Gen/PySkel.v.
   %(stop)s *)
From Coq Require Import String.
From Coq Require Import ZArith List Bool.
From Ticc Require Import Gen.PyRt Gen.PySkel.
Import ListNotations.
Local Open Scope Z_scope.

Section Gen.
  Variable V : Type.
  Variable vnone : V.
  Variable vint : Z -> V.
  Variable as_int : V -> option Z.
  Variable veq : V -> V -> bool.
  Variable getattr : V -> string -> V.
  Variable truthy : V -> bool.
  Variable is_none : V -> bool.
  Variables vtrue vfalse : V.
  Variable as_list : V -> list V.
  Variable vglobal : string -> V.
  Variable oracle : list (event V) -> string -> list V -> res V.

"""

SKEL_TARGETS = {"main_loop": ("main_loop.py", "fit_stacked_data", "bayesian_ic", ["current_model_state"]),
                # the whole function (no cut): control flow of the ADMM iteration
                "solver_loop": ("admm/solver.py", "run_admm_optimization", None, []),
                # the two public entry points: argument bundling, stacking, error mapping, main loop, label plumbing
                "front_single": ("front_end.py", "ticc_labels", None, []),
                "front_joint": ("front_end.py", "ticc_joint_labels", None, []),
                # the optimise phase: scatter of the per-cluster tasks and gather of their results
                "gl_optimize": ("graphical_lasso.py", "optimize_markov_random_fields", None, []),
                "gl_setup": ("graphical_lasso.py", "_setup_optimization_task", None, []),
                "gl_retrieve": ("graphical_lasso.py", "_retrieve_optimization_results", None, []),
                "gl_update": ("graphical_lasso.py", "_update_cluster_covariances", None, []),
                # the result assembly of the main loop (what follows the closing of the task pool)
                "main_loop_suffix": ("main_loop.py", "fit_stacked_data", ("from", "bayesian_ic", ["current_model_state", "stacked_training_data", "num_data_points"]), []),
                # the phases of one round, as compositions of their helpers
                "cm_repopulate": ("cluster_maintenance.py", "repopulate_empty_clusters", None, []),
                "cm_update_all": ("cluster_maintenance.py", "update_all_cluster_statistics", None, []),
                "la_predict": ("cluster_label_assignment.py", "predict_cluster_labels", None, []),
                "la_initial": ("cluster_label_assignment.py", "build_initial_clusters", None, []),
                "ll_point": ("likelihood.py", "point_log_likelihood", None, []),
                "ll_table": ("likelihood.py", "all_points_all_clusters_log_likelihood", None, []),
                "gl_stats": ("graphical_lasso.py", "_update_cluster_statistics", None, []),
                # the remaining glue: splitting of a joint result, the ADMM entry point and X step, the worker pool
                "front_split": ("front_end.py", "_split_combined_result", None, []),
                "admm_front": ("admm/front_end.py", "admm_optimize_theta", None, []),
                "admm_x": ("admm/solver.py", "admm_update_x", None, []),
                "pool": ("main_loop.py", "_init_task_pool", None, []),
                "cm_ranked": ("cluster_maintenance.py", "_find_ranked_donor_cluster_ids", None, []),
                # the containers: constructors and copies (which fields are handed on as they are, which go through a copying call)
                "cp_init": ("containers/model_state.py", "ClusterParameters.__init__", None, []),
                "cp_empty": ("containers/model_state.py", "ClusterParameters.empty_cluster", None, []),
                "cp_shallow": ("containers/model_state.py", "ClusterParameters.shallow_copy", None, []),
                "cp_deep": ("containers/model_state.py", "ClusterParameters.deep_copy", None, []),
                "st_init": ("containers/model_state.py", "ModelState.__init__", None, []),
                "st_empty": ("containers/model_state.py", "ModelState.empty_model", None, []),
                "st_shallow": ("containers/model_state.py", "ModelState.shallow_copy", None, []),
                "st_deep": ("containers/model_state.py", "ModelState.deep_copy", None, []),
                "ua_shallow": ("containers/arguments.py", "UserArguments.shallow_copy", None, []),
                "ua_deep": ("containers/arguments.py", "UserArguments.deep_copy", None, []),
                "aa_shallow": ("containers/arguments.py", "ADMMArguments.shallow_copy", None, []),
                "aa_deep": ("containers/arguments.py", "ADMMArguments.deep_copy", None, []),
                # what is left of the library: property getters, the argument printer, the Numba guard, the observation hooks
                "cp_size": ("containers/model_state.py", "ClusterParameters.size@getter", None, []),
                "cp_members": ("containers/model_state.py", "ClusterParameters.member_points@getter", None, []),
                "st_labels": ("containers/model_state.py", "ModelState.point_labels@getter", None, []),
                "ua_print": ("containers/arguments.py", "UserArguments.print", None, []),
                "ng_prange": ("numba_guard.py", "fake_prange", None, []),
                "ng_njit": ("numba_guard.py", "fake_njit", None, []),
                "ng_noop": ("numba_guard.py", "noop_decorator", None, []),
                "vh_emit": ("_verif.py", "emit", None, []),
                "vh_add": ("_verif.py", "add_listener", None, []),
                "vh_clear": ("_verif.py", "clear_listeners", None, []),
                # fit_stacked_data once more, as a whole: proved to be its prefix followed by its suffix (so the cut is not trusted)
                "main_loop_full": ("main_loop.py", "fit_stacked_data", None, [])}


def translate_skeleton(mod, src_root):
    rel, name, stop_at, results = SKEL_TARGETS[mod]
    tree = ast.parse(open(os.path.join(src_root, rel)).read())
    funcs = {n.name: n for n in tree.body if isinstance(n, ast.FunctionDef)}
    for c_ in tree.body:
        if isinstance(c_, ast.ClassDef):
            for n in c_.body:
                # methods as Class.method (self is an ordinary opaque parameter); property setters / getters are not skeleton targets
                if isinstance(n, ast.FunctionDef) and not any(isinstance(d, ast.Attribute) or (isinstance(d, ast.Name) and d.id == "property")
                                                              for d in n.decorator_list):
                    funcs[c_.name + "." + n.name] = n
                elif isinstance(n, ast.FunctionDef) and any(isinstance(d, ast.Name) and d.id == "property" for d in n.decorator_list):
                    funcs[c_.name + "." + n.name + "@getter"] = n
    out = [SKEL_HEADER % {"src": "src/fast_ticc/" + rel, "stop": (
        ("The SUFFIX of the function is translated: from the first assignment to `%s` to the end." % stop_at[1]) if isinstance(stop_at, tuple)
        else ("The function is translated up to (not including) the first assignment to `%s`: what follows is result assembly." % stop_at
              if stop_at else "The whole function is translated."))}]
    if name not in funcs:
        out.append("  (* %s: NOT TRANSLATED - missing from the source *)\n\nEnd Gen.\n" % name)
        return "".join(out), {name: "missing from the source"}
    try:
        sk = Skel(funcs[name], stop_at, results)
        sk.module_globals = {t_.id for n_ in ast.walk(tree) if isinstance(n_, ast.Assign) and getattr(n_, "col_offset", 1) >= 0
                             for t_ in n_.targets if isinstance(t_, ast.Name) and t_.id.isupper()} - {"LOGGER"}
        sk.module_globals |= {n_.name for n_ in tree.body if isinstance(n_, ast.FunctionDef)}
        if "." in name:
            sk.defname = "g_" + name.replace(".", "_").replace("@", "_").replace("__", "_")
        if mod.endswith("_full"):
            sk.defname = fname(name) + "_full"          # the whole function, beside its prefix / suffix translations
        text = sk.translate()
        out.append("  (* %s, lines %d-%d (prefix) *)\n  %s\n\nEnd Gen.\n" % (name, funcs[name].lineno, funcs[name].end_lineno, text.replace("\n", "\n  ")))
        return "".join(out), {name: "ok"}
    except Unsupported as e:
        out.append("  (* %s: NOT TRANSLATED - %s *)\n\nEnd Gen.\n" % (name, str(e).replace("*)", "* )")))
        return "".join(out), {name: "unsupported: %s" % e}


def regenerate(src_root, out_dir):
    """write G_<module>.v files (only when the text changed, so make stays incremental); return the report"""
    os.makedirs(out_dir, exist_ok=True)
    rep = {}
    for mod in list(TARGETS) + list(SKEL_TARGETS):
        try:
            text, r = translate_module(mod, src_root) if mod in TARGETS else translate_skeleton(mod, src_root)
        except (OSError, SyntaxError) as e:
            text, r = "(* GENERATED: source unreadable: %s *)\n" % e, {"*": "source unreadable: %s" % e}
        rep[mod] = r
        p = os.path.join(out_dir, "G_%s.v" % mod)
        old = open(p).read() if os.path.exists(p) else None
        if old != text:
            with open(p, "w") as f:
                f.write(text)
    return rep


if __name__ == "__main__":
    import json
    import sys
    src = sys.argv[1] if len(sys.argv) > 1 else "/repo/src/fast_ticc"
    out = sys.argv[2] if len(sys.argv) > 2 else os.path.join(os.path.dirname(os.path.dirname(os.path.abspath(__file__))), "coq", "Gen")
    print(json.dumps(regenerate(src, out), indent=1))
