"""Python mirrors of coq/Corr/Hash.v and helpers to build cases files."""
import re

HMOD = 2 ** 63
HMUL = 1000003


def hashN(xs):
    h = 7
    for x in xs:
        h = (h * HMUL + int(x) + 1) % HMOD
    return h


def hash_rows(rows):
    flat = [len(rows)]
    for r in rows:
        flat.append(len(r))
        flat.extend(int(x) for x in r)
    return hashN(flat)


def hash_rowsZ(rows):
    return hash_rows([[int(x) + 1000 for x in r] for r in rows])


def parse_N_list(out):
    """Parse the '= [a; b; c]' answer of a single Eval printing a list of N / nat / Z."""
    m = re.search(r"=\s*\[(.*?)\]\s*:\s*list", out, re.S)
    if not m:
        return None
    body = m.group(1).strip()
    if not body:
        return []
    vals = []
    for tok in body.split(";"):
        tok = tok.strip().replace("%N", "").replace("%nat", "").replace("%Z", "").strip("()")
        vals.append(int(tok, 0))
    return vals


def cases_file(imports, typ, cases, fn, chunk_name="answers"):
    """A file evaluating `map fn cases` and printing the result list."""
    return ("From Coq Require Import List NArith ZArith Arith.\nImport ListNotations.\n%s\n"
            "Definition cases : list (%s) := [\n%s].\n"
            "Definition %s := Eval vm_compute in (map %s cases).\nPrint %s.\n" % (
                imports, typ, ";\n".join(cases), chunk_name, fn, chunk_name))


def parse_print_list(out, name="answers"):
    m = re.search(name + r"\s*=\s*\[(.*?)\]\s*:\s*list", out, re.S)
    if not m:
        return None
    body = m.group(1).strip()
    if not body:
        return []
    vals = []
    for tok in body.split(";"):
        tok = re.sub(r"%\w+", "", tok).strip().strip("()")
        vals.append(int(tok, 0))
    return vals
