HOOK_COMMITS = ["6e0e010"]

R_AXIOMS = ("theorems over R use the standard-library real-number axioms ClassicalDedekindReals.sig_forall_dec, "
            "sig_not_dec and FunctionalExtensionality.functional_extensionality_dep (named by Print Assumptions in the evidence)")

CHECKS = {
 "C07": {
  "technique": "Coq proof over R (separability under the mask, mask = boundary pairs) + correspondence + known-finding filter",
  "text": "Proved for all inputs: no stacked window mixes two series (C07_no_mixed_window); the mask helper's zeros are exactly the boundary pairs in the kernel's indexing (C07_mask_exact, any tuple of lengths >= 1); under the masked switching costs the joint cost splits and the joint optimum is the sum of the per-series optima (C07_masked_cost_splits, C07_masked_is_separable, any number of series, K <= 65536, beta >= 0); one series => identical computation (C07_single_series_joint). C07_joint_refuted is a computed witness that the scalar beta prices boundary pairs. Tie: mask helper against the model on every tuple of up to 5 (6) lengths; traced joint runs observe which switching-cost object reaches the labelling step (hook H3) and compare cost/labels with exact-rational DPs with free and with priced boundaries; joint-of-one vs single front end bit for bit.",
  "note": R_AXIOMS + ". OPEN KNOWN FINDING (known_findings.json, joint-unmasked-beta): on the current tree the front end passes the unmasked scalar, so boundary pairs are priced; runs explained exactly by that mechanism print KNOWN-FINDING, any other deviation is a violation; the upstream repair makes the check pass without the finding (rehearsed).",
 },
 "C04": {
  "technique": "Coq proof (list lemmas on pad/split, any W, T, #series) + correspondence incl. traced end-to-end runs",
  "text": "C04_single / C04_joint: for every W >= 1, every series length T >= W (any number of series of unequal length) the returned lists have exactly T entries, the first floor((W-1)/2) and last (W-1)-floor((W-1)/2) are -1 and the rest are the main loop's labels in [0,K), in input order; C04_mrf_shape: re-inflating NW(NW+1)/2 numbers gives exactly NW x NW. Tied to the code on every W <= 12 x lengths <= 40 x up to 6 series and on an end-to-end grid of traced runs of both front ends where the result labels must equal the model front end applied to the final model state's labels (hook H1) and the statement is checked on the result objects.",
  "note": "Closed under the global context. That the main loop's labels are T-W+1 integers in [0,K) is C01_shape; that the loop returns the last round's labels is C09. Runs that raise are outside the property.",
 },
 "C08": {
  "technique": "Coq proof (invariant over the refill loop, any set order and any draws) + exhaustive correspondence",
  "text": "Model/Repop.v renders repopulate_empty_clusters with the set-iteration order of the recipients and the random.sample draws as inputs, incl. the suspicious pop() branch. Proved for all K, m >= 1, labellings, spreads, orders and valid draws: C08_error_iff (error <=> recipients exceed the donors' capacity sum(floor(size/m)-1)), C08_ok (conservation, who may lose/gain, exactly m per refill, donors keep >= m, others untouched), C08_donor_order (max spread among clusters still >= 2m), C08_dead_branch (the pop() branch is unreachable), C08_iterated. Tied to the code by comparing complete output labellings / errors on every size vector of the exhaustive sub-domain plus random K <= 12, with recorded draws and the interpreter's own set order; a monitor re-checks the property bullets and that the input state is untouched.",
  "note": "Closed under the global context. Trusted: harness recording of random.sample and of the set iteration order; spreads enter the model as ranks of the float norms (order-preserving).",
 },
 "C11": {
  "technique": "Coq proof (unbounded index arithmetic, partition by NoDup+membership) + exhaustive correspondence",
  "text": "For every n, N, W: closed-form index = row-major rank and a bijection onto [0,n(n+1)/2) (C11_index_is_rank, C11_index_bijection), size inverse, compress/reinflate mutual inverses for every carrier satisfying x+0-0=x, (x+x)-x=x (instantiated at R), class lists partition the upper triangle (C11_partition: Permutation + NoDup), class size W-b, same class <=> Toeplitz-equal (C11_class_toeplitz), both forms name the same positions. The property's whole finite domain (n <= 150; N <= 10, W <= 14) is enumerated against the implementation with cold and warm functools caches, the class enumeration order being recorded from admm_update_z itself.",
  "note": "Closed under the global context except C11_roundtrip_R (real-number axioms). The correspondence evaluates proved-equal binary-arithmetic forms (Proofs/TriIndexFast.v) of the nat definitions; the model's reinflate is compared up to n = 48 (64 thorough) and at n = 100 (150), all n are covered by the implementation-level monitor. binary64: (d+d)-d = d needs |d| < 2^1023 and -0 becomes +0; checked on awkward values by the monitor, not proved.",
 },
 "C01": {
  "technique": "Coq proof over R (induction on the backward pass) + bit-exact binary64 correspondence",
  "text": "The labelling kernel is modelled once, generically in the carrier (Model/Viterbi.v). At R: C01_optimal (reported cost <= cost of every one of the K^T label sequences, any T, K <= 65536, any beta >= 0 per pair), C01_cost_is_path_cost, C01_cost_definition, C01_scalar; C01_shape holds for every carrier incl. binary64 with NaN. The same model text at binary64 (primitive floats, vm_compute) is compared bit for bit with the kernel in three execution modes (JIT, JIT disabled, Numba absent) on generated tables; an exact-rational DP / brute force monitor checks the implementation's answers independently.",
  "note": R_AXIOMS + ". Not proved: rounding error of the binary64 kernel relative to the real-number optimum (the monitor uses an explicit slack of 16*T*2^-52*sum|entries|, zero on integer tables). Primitive float operations are kernel primitives (listed by Print Assumptions).",
 },
 "C10": {
  "technique": "Coq proof (parametric list model) + tag-based correspondence",
  "text": "Theorems C10_shape, C10_cell, C10_multi_is_concat, C10_rows_within_series, C10_split_pad_roundtrip hold for every element type, every T, W, N and every tuple of series (unbounded, by induction); the model is polymorphic so 'bit for bit' follows by parametricity. The model is tied to data_preparation.py on every run by running both on position-tagged inputs (all (W,#series) combinations, 600 / all 2952 shapes) and comparing the source tag of every output cell; a definition-level monitor re-checks the implementation output directly.",
  "note": "Closed under the global context (no axioms). Trusted: Coq kernel + vm_compute, the correspondence harness, NumPy slice assignment being a byte copy (checked by the monitor on NaN payloads, +-0, inf, subnormals).",
 },
}
NOT_APPLICABLE = {}
