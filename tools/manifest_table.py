HOOK_COMMITS = ["6e0e010"]

R_AXIOMS = ("theorems over R use the standard-library real-number axioms ClassicalDedekindReals.sig_forall_dec, "
            "sig_not_dec and FunctionalExtensionality.functional_extensionality_dep (named by Print Assumptions in the evidence)")

CHECKS = {
 "C01": {
  "technique": "Coq proof over R (induction on the backward pass) + bit-exact binary64 correspondence",
  "text": "The labelling kernel is modelled once, generically in the carrier (Model/Viterbi.v). At R: C01_optimal (reported cost <= cost of every one of the K^T label sequences, any T, K <= 65536, any beta >= 0 per pair), C01_cost_is_path_cost, C01_cost_definition, C01_scalar; C01_shape holds for every carrier incl. binary64 with NaN. The same model text at binary64 (primitive floats, vm_compute) is compared bit for bit with the kernel in three execution modes (JIT, JIT disabled, Numba absent) on generated tables; an exact-rational DP / brute force monitor checks the implementation's answers independently.",
  "note": R_AXIOMS + ". Not proved: rounding error of the binary64 kernel relative to the real-number optimum (the monitor uses an explicit slack of 16*T*2^-52*sum|entries|, zero on integer tables). Primitive float operations are kernel primitives (listed by Print Assumptions).",
 },
 "C10": {
  "technique": "Coq proof (parametric list model) + tag-based correspondence",
  "text": "Theorems C10_shape, C10_cell, C10_multi_is_concat, C10_rows_within_series, C10_split_pad_roundtrip hold for every element type, every T, W, N and every tuple of series (unbounded, by induction); the model is polymorphic so 'bit for bit' follows by parametricity. The model is tied to data_preparation.py on every run by running both on position-tagged inputs (all (W,#series) combinations, 600 / all 2952 shapes) and comparing the source tag of every output cell; a definition-level monitor re-checks the implementation output directly.",
  "note": "Closed under the global context (no axioms). Trusted: Coq kernel + vm_compute, the correspondence harness, NumPy slice assignment being a byte copy (checked by the monitor on NaN payloads, +-0, inf, subnormals).",
 },
}
NOT_APPLICABLE = {}
