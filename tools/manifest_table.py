HOOK_COMMITS = ["6e0e010"]

R_AXIOMS = ("theorems over R use the standard-library real-number axioms ClassicalDedekindReals.sig_forall_dec, "
            "sig_not_dec and FunctionalExtensionality.functional_extensionality_dep (named by Print Assumptions in the evidence)")

CHECKS = {
 "C10": {
  "technique": "Coq proof (parametric list model) + tag-based correspondence",
  "text": "Theorems C10_shape, C10_cell, C10_multi_is_concat, C10_rows_within_series, C10_split_pad_roundtrip hold for every element type, every T, W, N and every tuple of series (unbounded, by induction); the model is polymorphic so 'bit for bit' follows by parametricity. The model is tied to data_preparation.py on every run by running both on position-tagged inputs (all (W,#series) combinations, 600 / all 2952 shapes) and comparing the source tag of every output cell; a definition-level monitor re-checks the implementation output directly.",
  "note": "Closed under the global context (no axioms). Trusted: Coq kernel + vm_compute, the correspondence harness, NumPy slice assignment being a byte copy (checked by the monitor on NaN payloads, +-0, inf, subnormals).",
 },
}
NOT_APPLICABLE = {}
