#!/usr/bin/env python3
"""tools/record_seed.py <ID> [extra check ids]: copy a confirmed seeded change from /tmp/seed/<ID> into
/verif/seeded/<ID>/, run the quick check(s) against it (git apply to /repo, revert afterwards) and write meta.json."""
import json, os, re, shutil, subprocess, sys
sid = sys.argv[1]
extra = sys.argv[2:]
root = os.environ.get("SEEDROOT", "/tmp/seed")
suffix = os.environ.get("SEEDSUFFIX", "")
src = "%s/%s" % (root, sid)
dst = "/verif/seeded/%s%s" % (sid, suffix)
os.makedirs(dst, exist_ok=True)
for f in ("patch.diff", "demo.py", "notes.md"):
    shutil.copy(os.path.join(src, f), os.path.join(dst, f))
ver = [l for l in open(root + "/verify_summary.txt") if l.startswith(sid + " ")]
notes = open(os.path.join(src, "notes.md")).read()
subprocess.check_call(["git", "-C", "/repo", "apply", os.path.join(dst, "patch.diff")])
results = {}
try:
    for c in [sid] + extra:
        r = subprocess.run(["./check", c], cwd="/verif", capture_output=True, text=True)
        lines = [l for l in r.stdout.splitlines() if l.startswith("VIOLATION")]
        first = None
        if lines:
            m = re.search(r"replay=(\S+)", lines[0])
            try:
                first = json.load(open(m.group(1)))["what"][:300]
            except Exception:
                pass
        results[c] = {"exit": r.returncode, "violation_lines": len(lines),
                      "no_failing_input_found": sum("no-failing-input-found" in l for l in lines),
                      "summary": r.stdout.strip().splitlines()[-1] if r.stdout.strip() else "", "first_violation": first}
        subprocess.run(["git", "-C", "/verif", "checkout", "--", "evidence/%s.json" % c])
finally:
    subprocess.run(["git", "-C", "/repo", "checkout", "--", "."])
    subprocess.run(["git", "-C", "/repo", "clean", "-fdq", "src"])
meta = {
    "property": sid,
    "origin": "written by a sub-agent that saw only the property text and a scratch worktree of /repo (nothing from /verif)",
    "needs_to_manifest": notes,
    "confirmed_by_me": {
        "how": "in the scratch worktree with the change applied: demo.py exits 1; against the unchanged /repo/src: exits 0; whole test suite on the changed tree (BASELINE command, guard off)",
        "observed": ver[0].strip() if ver else "not recorded",
    },
    "checks_run": {"command": "git -C /repo apply seeded/%s%s/patch.diff && ./check <ID> (quick) && git -C /repo checkout -- ." % (sid, suffix), "results": results},
    "caught_by": [c for c, r in results.items() if r["exit"] == 1],
}
json.dump(meta, open(os.path.join(dst, "meta.json"), "w"), indent=1)
print(sid, {c: (r["exit"], r["violation_lines"], r["no_failing_input_found"]) for c, r in results.items()})
