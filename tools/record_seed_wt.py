#!/usr/bin/env python3
"""tools/record_seed_wt.py <ID> [extra check ids]: like record_seed.py, but the checks are run against the scratch worktree
that carries the confirmed change (VCHECK_REPO=<root>/<ID>/wt) instead of applying the patch to /repo - so /repo stays
untouched while other work uses it.  Copies patch.diff / demo.py / notes.md into /verif/seeded/<ID><suffix>/ and writes meta.json."""
import json, os, re, shutil, subprocess, sys
sid = sys.argv[1]
extra = sys.argv[2:]
root = os.environ.get("SEEDROOT", "/tmp/seed")
suffix = os.environ.get("SEEDSUFFIX", "")
src = "%s/%s" % (root, sid)
dst = "/verif/seeded/%s%s" % (sid, suffix)
os.makedirs(dst, exist_ok=True)
for f in ("patch.diff", "demo.py", "notes.md"):
    shutil.copy(os.path.join(src, f), os.path.join(dst, f))
ver = [l for l in open(root + "/verify_summary.txt") if l.startswith(sid + " ")]
notes = open(os.path.join(src, "notes.md")).read()
results = {}
run_dir = os.environ.get("VERIF_RUN_DIR", "/verif")     # a private copy of /verif lets several seeds be recorded in parallel
env = dict(os.environ, VCHECK_REPO=os.path.join(src, "wt"))
for c in [sid] + extra:
    r = subprocess.run(["./check", c], cwd=run_dir, capture_output=True, text=True, env=env)
    lines = [l for l in r.stdout.splitlines() if l.startswith("VIOLATION")]
    first = None
    if lines:
        m = re.search(r"replay=(\S+)", lines[0])
        try:
            first = json.load(open(m.group(1)))["what"][:300]
        except Exception:
            pass
    results[c] = {"exit": r.returncode, "violation_lines": len(lines),
                  "no_failing_input_found": sum("no-failing-input-found" in l for l in lines),
                  "summary": r.stdout.strip().splitlines()[-1] if r.stdout.strip() else "", "first_violation": first}
    subprocess.run(["git", "-C", run_dir, "checkout", "--", "evidence/%s.json" % c])
meta = {
    "property": sid,
    "origin": "written by a sub-agent that saw only the property text and a scratch worktree of /repo (nothing from /verif)",
    "needs_to_manifest": notes,
    "confirmed_by_me": {
        "how": "in the scratch worktree with the change applied: demo.py exits 1; against the unchanged /repo/src: exits 0; whole test suite on the changed tree (BASELINE command, guard off)",
        "observed": ver[0].strip() if ver else "not recorded",
    },
    "checks_run": {"command": "VCHECK_REPO=<scratch worktree with seeded/%s%s/patch.diff applied> ./check <ID> (quick); equivalent to git -C /repo apply ... && ./check <ID> && git -C /repo checkout -- ." % (sid, suffix), "results": results},
    "caught_by": [c for c, r in results.items() if r["exit"] == 1],
}
json.dump(meta, open(os.path.join(dst, "meta.json"), "w"), indent=1)
print(sid, {c: (r["exit"], r["violation_lines"], r["no_failing_input_found"], (r["first_violation"] or "")[:160]) for c, r in results.items()})
