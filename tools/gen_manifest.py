#!/usr/bin/env python3
"""Regenerate MANIFEST.json from the table below and validate it against the schema."""
import json, os, sys
HERE = os.path.dirname(os.path.dirname(os.path.abspath(__file__)))
sys.path.insert(0, HERE)
from tools.manifest_table import CHECKS, NOT_APPLICABLE, HOOK_COMMITS

props = [json.loads(l) for l in open(os.path.join(HERE, "properties.jsonl"))]
ids = [p["id"] for p in props]
checks = []
for pid in ids:
    if pid not in CHECKS:
        continue
    c = CHECKS[pid]
    checks.append({
        "property_id": pid,
        "quick_cmd": "./check %s --tier quick" % pid,
        "thorough_cmd": "./check %s --tier thorough" % pid,
        "evidence_file": "/verif/evidence/%s.json" % pid,
        "replay_cmd_template": "./check %s --replay {path}" % pid,
        "engine": "coq+correspondence",
        "level_claimed": {"category": "proof", "text": c["text"], "design_ref": c.get("design_ref", "DESIGN.md section 6, " + pid)},
        "level_note": c["note"],
        "technique": c["technique"],
    })
na = [{"property_id": pid, "reason": NOT_APPLICABLE.get(pid, "check not built yet in this revision; see DESIGN.md section 6")}
      for pid in ids if pid not in CHECKS]
man = {
    "version": 1,
    "setup_cmd": "cd /verif/coq && ./gen_project.sh && timeout 3000 make -j16",
    "hooks": {
        "guard": "FAST_TICC_VERIF",
        "enable": "environment FAST_TICC_VERIF=1 (set by ./check); fast_ticc/_verif.emit() then forwards events to listeners registered by the harness; sources are imported from /repo/src via PYTHONPATH on every run",
        "baseline_off_cmd": "cd /repo && env -u FAST_TICC_VERIF /venv/bin/python -m pytest -ra -q -p no:cacheprovider --timeout=900 --continue-on-collection-errors",
        "source_commits": HOOK_COMMITS,
        "add_only": True,
    },
    "engines": [
        {"name": "coq+correspondence", "path": "/verif/coq , /verif/vcheck",
         "serves_properties": [c["property_id"] for c in checks],
         "kind_free_text": "Coq 8.16.1 development (Model/ executable Gallina, Proofs/, Properties/ statements with Print Assumptions) + Python correspondence harness that evaluates the model inside Coq (vm_compute on generated cases files) on the same inputs as /repo's current sources and diffs the observables; independent monitors search for concrete failing inputs"},
    ],
    "checks": checks,
    "not_applicable": na,
    "notes": "All checks rebuild the Coq development incrementally (full .vo build, no -vos) and import fast_ticc from /repo/src. VERIF_SEED seeds every generator. Known findings: /verif/known_findings.json.",
}
json.dump(man, open(os.path.join(HERE, "MANIFEST.json"), "w"), indent=1)
try:
    import jsonschema
    jsonschema.validate(man, json.load(open("/root/.vp/MANIFEST.schema.json")))
    print("MANIFEST.json valid; %d checks, %d not_applicable" % (len(checks), len(na)))
except ImportError:
    print("written (jsonschema not importable here)")
