#!/usr/bin/env python3
"""Record the AST fingerprints of all anchored functions of the CURRENT /repo tree (the tree the models were
written against).  Run only when the models have been re-validated against a new upstream tree."""
import glob, importlib, os, sys
sys.path.insert(0, os.path.dirname(os.path.dirname(os.path.abspath(__file__))))
from vcheck import core
anchors = {}
for f in sorted(glob.glob(os.path.join(core.VERIF, "vcheck", "props", "c*.py"))):
    src = open(f).read()
    import ast
    tree = ast.parse(src)
    for n in tree.body:
        if isinstance(n, ast.Assign) and getattr(n.targets[0], "id", "") == "ANCHORS":
            for k, v in ast.literal_eval(n.value).items():
                anchors.setdefault(k, set()).update(v)
core.write_fingerprints({k: sorted(v) for k, v in anchors.items()})
print("fingerprints for %d files written" % len(anchors))
