#!/usr/bin/env python3
"""tools/mut.py <prop> <file-rel-to-src/fast_ticc> <old> <new> : apply a one-off textual mutation to /repo, run the
quick check, revert.  For rehearsal only."""
import subprocess, sys
prop, rel, old, new = sys.argv[1:5]
p = "/repo/src/fast_ticc/" + rel
s = open(p).read()
assert s.count(old) >= 1, "pattern not found"
open(p, "w").write(s.replace(old, new, 1))
try:
    r = subprocess.run(["./check", prop], cwd="/verif", capture_output=True, text=True)
    lines = r.stdout.strip().splitlines()
    print("rc=%d" % r.returncode, "| violations:", sum(1 for l in lines if l.startswith("VIOLATION")), "|", lines[-1] if lines else "")
    for l in lines[:2]:
        print("  ", l)
finally:
    subprocess.run(["git", "-C", "/repo", "checkout", "--", "."])
    subprocess.run(["git", "-C", "/verif", "checkout", "--", "evidence/%s.json" % prop.upper()])   # keep the committed evidence from a clean run
