"""Appends, to Properties/Cxxgen.v, the statements of skeleton-mode theorems proved in Proofs/GenEquiv{PH,LW,GU}.v: the statement text is
copied from the proofs file into a section with the same variables (definitions that are generalised over section variables are
re-bound with Let), and closed by `eapply <lemma>`.  Idempotent (a block already present is skipped)."""
import re, sys
COQ = "/verif/coq"
VARS = """  Variable V : Type.
  Variable vnone : V.
  Variable vint : Z -> V.
  Variable as_int : V -> option Z.
  Variable veq : V -> V -> bool.
  Variable getattr : V -> string -> V.
  Variable truthy : V -> bool.
  Variable is_none : V -> bool.
  Variables vtrue vfalse : V.
  Variable as_list : V -> list V.
  Variable vglobal : string -> V.
  Variable oracle : list (event V) -> string -> list V -> res V.

"""

def statement(pf, name):
    txt = open("%s/Proofs/%s.v" % (COQ, pf)).read()
    m = re.search(r"^  Theorem %s\b(.*?)^  Proof\." % re.escape(name), txt, re.S | re.M)
    assert m, name
    return m.group(1).rstrip()

SECVARS = ["V", "vnone", "vint", "as_int", "veq", "getattr", "truthy", "is_none", "vtrue", "vfalse", "as_list", "vglobal", "oracle"]
import subprocess, os

def local_defs(pf, stmts):
    """definitions of the proofs file that the statements mention and that are generalised over section variables:
    re-bound locally to their instance at the variables of the statement's own section"""
    txt = open("%s/Proofs/%s.v" % (COQ, pf)).read()
    names = re.findall(r"^  (?:Definition|Fixpoint) (\w+)", txt, re.M)
    used = [n for n in names if any(re.search(r"\b%s\b" % re.escape(n), st) for st in stmts)]
    # closure: definitions used by used definitions need no local binding (they are referenced inside the constants)
    if not used:
        return []
    q = "/tmp/about_%s.v" % pf
    open(q, "w").write("From Ticc Require Import Proofs.%s.\n" % pf + "".join("About %s.\n" % n for n in used))
    out = subprocess.run("cd %s && coqc -Q . Ticc %s" % (COQ, q), shell=True, capture_output=True, text=True).stdout
    os.remove(q)
    res = []
    for n in used:
        m = re.search(r"Arguments %s\b(.*?)\n\S" % re.escape(n), out, re.S)
        args = re.findall(r"[A-Za-z_][A-Za-z_0-9']*", re.sub(r"%\w+", "", m.group(1))) if m else []
        lead = []
        for a in args:
            if a in SECVARS and (not lead or SECVARS.index(a) > SECVARS.index(lead[-1])):
                lead.append(a)
            else:
                break
        if lead:
            res.append("  Let %s := %s.%s %s." % (n, pf, n, " ".join(lead)))
    return res


def block(prop, sec, pf, mods, comment, thms):
    out = ["", "(* ---- %s ---- *)" % comment,
           "From Ticc Require Import Gen.PySkel %s Proofs.%s." % (" ".join("Gen.G_" + m for m in mods), pf),
           "Section %s." % sec, "  Local Open Scope string_scope.", VARS.rstrip()]
    out += local_defs(pf, [statement(pf, name) for _, name in thms])
    for newname, name in thms:
        out.append("  Theorem %s%s" % (newname, statement(pf, name)))
        out.append("  Proof. intros; eapply %s; eassumption. Qed." % name)
    out.append("End %s." % sec)
    for newname, _ in thms:
        out.append("Print Assumptions %s." % newname)
    return "\n".join(out) + "\n"

BLOCKS = [
 ("C05", "SkelLW05", "GenEquivLW", ["ll_point", "ll_table"],
  "the likelihood WRAPPERS AS TRANSLATED in skeleton mode (Gen/G_ll_point.v, Gen/G_ll_table.v; facts: Proofs/GenEquivLW.v): the\n   kernel of one point gets the cluster's own stored mean, inverse covariance and log-determinant; for the table, every cluster\n   0 .. K-1, once and in order, has its inverse covariance set to its train_inverse and its log-determinant to component [1] of\n   slogdet OF THAT SAME matrix, and the table kernel gets the stacks built from the so-updated model and the caller's data",
  [("C05_code_point_wrapper", "ll_point_returns"), ("C05_code_table_wrapper", "ll_table_returns")]),
 ("C09", "SkelPH09", "GenEquivPH", ["la_predict"],
  "the LABELLING STEP AS TRANSLATED in skeleton mode (Gen/G_la_predict.v; facts: Proofs/GenEquivPH.v): the labelling kernel is\n   called on the NEGATED likelihood table of the given model and data with the model's own switching cost (a real number passed\n   through float, anything else as it is), and the state returned carries, on a copy of the given one, the labels [0] and the\n   cost [1] OF THAT SAME kernel answer - what the step reports is what it scored",
  [("C09_code_relabel_plumbing", "predict_returns")]),
 ("C13", "SkelPH13", "GenEquivPH", ["cm_repopulate"],
  "REPOPULATION AS TRANSLATED in skeleton mode (Gen/G_cm_repopulate.v; facts: Proofs/GenEquivPH.v): when no cluster has fewer\n   than two points the state given is returned ITSELF and nothing was copied, moved or assigned (the log holds only the scan)",
  [("C13_code_repopulate_noop", "repopulate_noop")]),
 ("C08", "SkelPH08", "GenEquivPH", ["cm_repopulate"],
  "REPOPULATION AS TRANSLATED in skeleton mode (Gen/G_cm_repopulate.v; facts: Proofs/GenEquivPH.v): otherwise it works on a shallow\n   copy whose clusters are deep copies, ranks the donors ONCE on that copy, and then for each under-populated cluster in order\n   makes exactly the three calls  _find_point_donor(copy, remaining donors) ; _move_random_points(copy, that donor, the cluster) ;\n   copy.point_labels = <the moved labelling>  - the remaining-donor list and the copy being threaded from one refill to the next",
  [("C08_code_repopulate_moves", "repopulate_moves")]),
 ("C12", "SkelPH12", "GenEquivPH", ["cm_update_all"],
  "the STATISTICS PHASE AS TRANSLATED in skeleton mode (Gen/G_cm_update_all.v; facts: Proofs/GenEquivPH.v): every cluster\n   0 .. K-1 is refreshed exactly once, in order, by update_cluster_member_data_statistics(cluster k of the copy, THE training data\n   of the call, the biased flag of the given model's arguments) and stored back at its own index k",
  [("C12_code_statistics_phase", "update_all_returns")]),
 ("C12", "SkelLW12", "GenEquivLW", ["gl_stats"],
  "graphical_lasso._update_cluster_statistics AS TRANSLATED (Gen/G_gl_stats.v; facts: Proofs/GenEquivLW.v): mean and covariance are\n   computed from the SAME selected rows (the cluster's member points), with the bias flag of the call",
  [("C12_code_cluster_statistics", "gl_stats_returns"), ("C12_code_cluster_statistics_empty", "gl_stats_returns_empty")]),
 ("C14", "SkelLW14", "GenEquivLW", ["la_initial"],
  "the INITIAL LABELLING AS TRANSLATED (Gen/G_la_initial.v; facts: Proofs/GenEquivLW.v): one Gaussian mixture with num_clusters\n   components, fitted on and predicting for the same training data; the function itself consults no other source",
  [("C14_code_initial_labels", "initial_returns")]),
 ("C14", "SkelGU14", "GenEquivGU", ["pool"],
  "the WORKER POOL AS TRANSLATED (Gen/G_pool.v; facts: Proofs/GenEquivGU.v): the caller's process count reaches the pool only when\n   CUPCAKE_ENABLE_MULTIPROCESSING is set and non-empty; otherwise the pool has exactly one process",
  [("C14_code_pool_size", "pool_returns")]),
 ("C10", "SkelGU10", "GenEquivGU", ["front_split"],
  "the SPLITTING OF A JOINT RESULT AS TRANSLATED (Gen/G_front_split.v; facts: Proofs/GenEquivGU.v): the master labels are split by the\n   stacked sizes, every part is padded for the master result's window size and checked against ITS OWN series' length, in order,\n   and every other field of the joint result is the master result's field unchanged",
  [("C10_code_split_result", "split_returns")]),
 ("C02", "SkelGU02", "GenEquivGU", ["admm_front"],
  "the ADMM ENTRY POINT AS TRANSLATED (Gen/G_admm_front.v; facts: Proofs/GenEquivGU.v): the solver gets the caller's covariance and\n   an argument bundle built from exactly the caller's parameters - absolute tolerance in the absolute slot, relative in the relative\n   slot - and its answer is returned wrapped and otherwise untouched",
  [("C02_code_admm_entry", "admm_front_returns")]),
 ("C03", "SkelGU03", "GenEquivGU", ["admm_x"],
  "the X STEP AS TRANSLATED (Gen/G_admm_x.v; facts: Proofs/GenEquivGU.v): x_update_prox(S, reinflate(z - u), rho) and nothing else",
  [("C03_code_x_step", "admm_x_returns")]),
]
BLOCKS += [
 ("C13", "SkelCO13", "GenEquivCO", ["cp_init", "cp_empty", "cp_shallow", "cp_deep", "st_init", "st_empty", "st_shallow", "st_deep"],
  "the STATE CONTAINERS AS TRANSLATED in skeleton mode (Gen/G_cp_*.v, Gen/G_st_*.v; facts: Proofs/GenEquivCO.v): the constructor of\n   ClusterParameters stores `sorted` of the member list it is given; a SHALLOW copy hands every field on as it is (the state's only\n   call is list(clusters): a new outer list of the same cluster objects); a DEEP copy passes every array field through np.copy, the\n   member list and the label list through list(), the clusters through their own deep_copy and the arguments through theirs - no\n   array, list or container field of the copy is the source's own field; only the immutable numbers are handed on",
  [("C13_code_cluster_constructor", "cp_init_returns"), ("C13_code_cluster_empty", "cp_empty_returns"), ("C13_code_cluster_shallow_copy", "cp_shallow_returns"),
   ("C13_code_cluster_deep_copy", "cp_deep_returns"), ("C13_code_state_constructor", "st_init_returns"), ("C13_code_state_empty", "st_empty_returns"),
   ("C13_code_state_shallow_copy", "st_shallow_returns"), ("C13_code_state_deep_copy", "st_deep_returns")]),
 ("C13", "SkelAR13", "GenEquivAR", ["ua_shallow", "ua_deep"],
  "the USER ARGUMENTS' copies AS TRANSLATED (Gen/G_ua_*.v; facts: Proofs/GenEquivAR.v): the deep copy is the shallow copy with the two\n   fields that may be arrays (sparsity weight, switching cost) replaced by copy.deepcopy OF THE SOURCE'S OWN fields",
  [("C13_code_arguments_shallow_copy", "ua_shallow_returns"), ("C13_code_arguments_deep_copy", "ua_deep_returns")]),
 ("C08", "SkelAR08", "GenEquivAR", ["cm_ranked"],
  "the RANKING OF DONORS AS TRANSLATED (Gen/G_cm_ranked.v; facts: Proofs/GenEquivAR.v): `sorted`, descending, of exactly the candidates\n   selected by  size >= 2 * min_cluster_size  on the model given, keyed by a function of the spreads computed on that same model",
  [("C08_code_ranked_donors", "ranked_returns")]),
 ("C02", "SkelAR02", "GenEquivAR", ["aa_shallow", "aa_deep"],
  "the SOLVER'S ARGUMENT BUNDLE AS TRANSLATED (Gen/G_aa_*.v; facts: Proofs/GenEquivAR.v): a copy hands all nine fields on unchanged, in\n   their own slots (its deep copy IS its shallow copy: a matrix-valued sparsity weight would be shared - the library never calls it)",
  [("C02_code_bundle_shallow_copy", "aa_shallow_returns"), ("C02_code_bundle_deep_copy", "aa_deep_returns")]),
]
BLOCKS += [
 ("C15", "SkelRM15", "GenEquivRM", ["ng_prange", "ng_njit", "ng_noop"],
  "the NUMBA GUARD AS TRANSLATED (Gen/G_ng_*.v; facts: Proofs/GenEquivRM.v): without Numba, prange IS range on the very same arguments, njit(...)\n   is the no-op decorator (no call is made at all) and that decorator's wrapper only forwards to the function; with Numba both fall\n   through to numba.prange / numba.njit on the very same arguments",
  [("C15_code_prange", "prange_returns"), ("C15_code_njit", "njit_returns"), ("C15_code_noop_decorator", "noop_returns")]),
 ("C09", "SkelRM09", "GenEquivRM", ["vh_emit", "vh_add", "vh_clear"],
  "the OBSERVATION HOOKS AS TRANSLATED (src/fast_ticc/_verif.py, Gen/G_vh_*.v; facts: Proofs/GenEquivRM.v): with the guard off a hook makes\n   NO call at all and returns None; with it on, it snapshots the listener list and calls each listener once, in order, with the\n   event and the payload, and returns None - it hands nothing back into the library",
  [("C09_code_hook_disabled", "emit_disabled"), ("C09_code_hook_enabled", "emit_enabled"), ("C09_code_hook_add", "add_listener_returns"), ("C09_code_hook_clear", "clear_listeners_returns")]),
 ("C13", "SkelRM13", "GenEquivRM", ["cp_size", "cp_members", "st_labels"],
  "the PROPERTY GETTERS AS TRANSLATED (Gen/G_cp_size.v, G_cp_members.v, G_st_labels.v; facts: Proofs/GenEquivRM.v): labels and members are\n   the stored private fields themselves (no copy: whoever reads them holds the state's own lists), size is len(members) or 0",
  [("C13_code_size_getter", "size_getter_returns"), ("C13_code_members_getter", "members_getter_returns"), ("C13_code_labels_getter", "labels_getter_returns")]),
 ("C19", "SkelRM19", "GenEquivRM", ["ua_print"],
  "the ARGUMENT PRINTER AS TRANSLATED (Gen/G_ua_print.v; facts: Proofs/GenEquivRM.v): reads the nine fields, writes only through print(file=stream)\n   and a closure over that same stream (the stream given, or sys.stdout when none is), returns None",
  [("C19_code_print", "print_returns")]),
]
for prop, sec, pf, mods, comment, thms in BLOCKS:
    p = "%s/Properties/%sgen.v" % (COQ, prop)
    s = open(p).read()
    if "Section %s." % sec in s:
        continue
    open(p, "a").write(block(prop, sec, pf, mods, comment, thms))
    print("appended", sec, "to", p)
