#!/bin/bash
# tools/seed_verify.sh <root> <ID> : confirm a seeded change independently of its author.
#   changed tree : <root>/<ID>/wt (patch = git diff there); demo.py must exit non-zero with PYTHONPATH=<wt>/src
#   unchanged    : demo.py must exit 0 with PYTHONPATH=/repo/src
#   suite        : BASELINE command in the worktree, guard off, must pass 31
root=$1; id=$2; d=$root/$id; wt=$d/wt
git -C "$wt" add -A -N . >/dev/null 2>&1
git -C "$wt" diff HEAD -- src > "$d/patch.diff"
[ -s "$d/patch.diff" ] || { echo "$id EMPTY PATCH" | tee -a "$root/verify_summary.txt"; exit 1; }
export NUMBA_DISABLE_JIT=${SEED_JIT_OFF-1} PYTHONHASHSEED=0
( cd "$d" && env -u FAST_TICC_VERIF PYTHONPATH="$wt/src" timeout 900 /venv/bin/python demo.py > demo_changed.log 2>&1 ); c=$?
( cd "$d" && env -u FAST_TICC_VERIF PYTHONPATH=/repo/src timeout 900 /venv/bin/python demo.py > demo_unchanged.log 2>&1 ); u=$?
( cd "$wt" && env -u FAST_TICC_VERIF -u NUMBA_DISABLE_JIT -u PYTHONPATH /venv/bin/python -m pytest -ra -q -p no:cacheprovider --timeout=900 --continue-on-collection-errors > "$d/suite.log" 2>&1 ); s=$?
echo "$id demo_changed_exit=$c demo_unchanged_exit=$u suite_exit=$s $(tail -1 "$d/suite.log")" | tee -a "$root/verify_summary.txt"
