#!/bin/bash
# tools/seed_setup.sh <root> <ID>... : one scratch worktree of /repo per property under <root>/<ID>/wt,
# plus <root>/<ID>/property.json (the property record only - nothing from /verif's machinery).
root=$1; shift
mkdir -p "$root"
for id in "$@"; do
  mkdir -p "$root/$id"
  [ -d "$root/$id/wt" ] || git -C /repo worktree add --detach "$root/$id/wt" HEAD >/dev/null 2>&1
  grep "\"id\": *\"$id\"" /verif/properties.jsonl > "$root/$id/property.json"
done
git -C /repo worktree list | wc -l
