#!/bin/bash
# regenerate _CoqProject (all .v files of the development) and the Makefile
cd "$(dirname "$(readlink -f "$0")")" || exit 2
{
  echo "-Q . Ticc"
  echo "-arg -w -arg -deprecated-hint-without-locality,-deprecated-instance-without-locality,-notation-overridden"
  find Model Proofs Properties Corr -name '*.v' | sort | grep -v -x -F -f WIP
} > _CoqProject
coq_makefile -f _CoqProject -o Makefile > /dev/null
