#!/bin/bash
# regenerate _CoqProject (all .v files of the development) and the Makefile
cd "$(dirname "$(readlink -f "$0")")" || exit 2
# the generated definitions (second tie): translated from /repo's working tree
/venv/bin/python ../vcheck/py2coq.py "${VCHECK_REPO:-/repo}/src/fast_ticc" Gen > /dev/null || python3 ../vcheck/py2coq.py "${VCHECK_REPO:-/repo}/src/fast_ticc" Gen > /dev/null
{
  echo "-Q . Ticc"
  echo "-arg -w -arg -deprecated-hint-without-locality,-deprecated-instance-without-locality,-notation-overridden"
  find Gen Model Proofs Properties Corr -name '*.v' | sort | grep -v -x -F -f WIP
} > _CoqProject
coq_makefile -f _CoqProject -o Makefile > /dev/null
