(* C08 - cluster repopulation conserves points and never starves a donor.
   Statements only; proofs in Proofs/RepopP.v.  [order] is the iteration order
   of the Python set of under-populated clusters (any permutation), [draws] the
   results of random.sample (any valid draws), [spread] any ranking of the
   clusters' covariance norms. *)
From Coq Require Import List Arith Lia.
Import ListNotations.
From Ticc Require Import Model.Repop Proofs.RepopP.

(* nothing under-populated: the labelling is returned unchanged *)
Theorem C08_no_op : forall K m spread draws labels,
  repopulate K m spread [] draws labels = Some labels.
Proof. exact repop_empty_order. Qed.
Print Assumptions C08_no_op.

(* the error is raised exactly when the donors cannot serve all recipients; in
   particular whenever no cluster holds 2m points (capacity 0) *)
Theorem C08_error_iff : forall K m spread order draws labels,
  Hyp K m spread order draws labels -> order <> [] ->
  (repopulate K m spread order draws labels = None <-> capacity K m labels < length order).
Proof. exact repop_error_iff. Qed.
Print Assumptions C08_error_iff.

(* otherwise: every point keeps exactly one label in [0,K); a label changes only
   from a cluster that had >= 2m points to one that had < 2; every formerly
   under-populated cluster gains exactly m; every other cluster loses a multiple
   j*m of points and, if it lost any, had >= 2m and keeps >= m; j = 0 means
   untouched *)
Theorem C08_ok : forall K m spread order draws labels out,
  Hyp K m spread order draws labels -> repopulate K m spread order draws labels = Some out ->
  length out = length labels /\ Forall (fun c => c < K) out /\
  (forall p, p < length labels -> nth p out 0 <> nth p labels 0 ->
      2 * m <= size labels (nth p labels 0) /\ size labels (nth p out 0) < 2 /\ In (nth p out 0) order) /\
  (forall k, In k order -> size out k = size labels k + m) /\
  (forall k, k < K -> ~ In k order ->
      exists j, size labels k = size out k + j * m /\ (0 < j -> 2 * m <= size labels k /\ m <= size out k)).
Proof. exact repop_ok. Qed.
Print Assumptions C08_ok.

(* donors are taken in order of decreasing spread: each refill takes from a
   cluster that currently holds >= 2m points and has maximal spread among the
   clusters that held >= 2m at the start and still do *)
Theorem C08_donor_order : forall K m spread order draws labels,
  Hyp K m spread order draws labels ->
  Forall (fun t => let '(d, e, lbl, rem) := t in
            2 * m <= size lbl d /\ In e order /\ size labels e < 2 /\
            forall k, k < K -> 2 * m <= size labels k -> 2 * m <= size lbl k -> spread k <= spread d)
         (refill_trace m labels (rank_donors K m spread labels) order draws).
Proof. exact repop_donor_order. Qed.
Print Assumptions C08_donor_order.

(* the branch of _find_point_donor that pops the LAST candidate although the
   FIRST was tested is never taken *)
Theorem C08_dead_branch : forall K m spread order draws labels,
  Hyp K m spread order draws labels ->
  refill m labels (rank_donors K m spread labels) order draws
  = refill_simple m labels (rank_donors K m spread labels) order draws /\
  Forall (fun t => let '(d, e, lbl, rem) := t in exists rest, rem = d :: rest /\ 2 * m <= size lbl d)
         (refill_trace m labels (rank_donors K m spread labels) order draws).
Proof. exact repop_dead_branch. Qed.
Print Assumptions C08_dead_branch.

(* the output is again a well-formed labelling, so the guarantees hold along any
   sequence of applications *)
Theorem C08_iterated : forall K m spread order draws labels out,
  Hyp K m spread order draws labels -> repopulate K m spread order draws labels = Some out ->
  length out = length labels /\ Forall (fun c => c < K) out.
Proof. exact repop_preserves_wf. Qed.
Print Assumptions C08_iterated.

(* non-vacuity: K = 3, m = 2, cluster 2 empty, cluster 0 holds 5 points *)
Example C08_example :
  let labels := [0;0;1;0;0;1;0] in
  Hyp 3 2 (fun k => k) [2] [[0;3]] labels /\
  repopulate 3 2 (fun k => k) [2] [[0;3]] labels = Some [2;0;1;0;2;1;0] /\
  capacity 3 2 labels = 1.
Proof.
  cbv zeta. split; [|split; reflexivity].
  unfold Hyp. split; [lia|]. split; [repeat constructor|]. split; [repeat constructor; simpl; tauto|].
  split.
  - intros k. vm_compute. tauto.
  - vm_compute. repeat split; repeat constructor; simpl; try lia; tauto.
Qed.
Print Assumptions C08_example.
