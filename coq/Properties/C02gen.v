(* C02, index maps of the Z update on the code AS TRANSLATED from /repo's current source by vcheck/py2coq.py
   (unique_values.py: locations_compressed is what admm_update_z reads, locations_index_slices what
   compute_lambda_sum reads).  Statements only. *)
From Coq Require Import String.
From Coq Require Import List Arith ZArith Lia.
Import ListNotations.
From Ticc Require Import Gen.PyRt Gen.G_unique_values Model.TriIndex Proofs.GenEquivUV.

Theorem C02_code_class_indices : forall b r c N W : nat,
  b < W -> r < N -> c < N -> (b = 0 -> r <= c) ->
  g_locations_compressed (Z.of_nat b) (Z.of_nat r) (Z.of_nat c) (Z.of_nat N) (Z.of_nat W)
  = Ret (map Z.of_nat (locations_compressed b r c N W)).
Proof. exact g_locations_compressed_eq. Qed.
Print Assumptions C02_code_class_indices.

Theorem C02_code_class_slices : forall b r c N W : nat,
  b < W -> 1 <= N ->
  g_locations_index_slices (Z.of_nat b) (Z.of_nat r) (Z.of_nat c) (Z.of_nat N) (Z.of_nat W)
  = Ret (map Z.of_nat (fst (locations_slices b r c N W)), map Z.of_nat (snd (locations_slices b r c N W))).
Proof. exact g_locations_index_slices_eq. Qed.
Print Assumptions C02_code_class_slices.

(* ---- the Z / U updates and the soft threshold of admm/solver.py AS TRANSLATED (Gen/G_solver.v; equivalence with the
   model: Proofs/GenEquivSV.v).  np.sum and compute_lambda_sum are uninterpreted in the translation: the statements hold
   for the model's pairwise summation and for ANY function `cls` that returns the per-class weight lam_of. ---- *)
From Ticc Require Import Gen.G_solver Model.Viterbi Model.Admm Proofs.AdmmP Proofs.GenEquivSV.

Theorem C02_code_soft_threshold : forall (F : Type) (zero one : F) (add sub mul div : F -> F -> F) (ltb : F -> F -> bool)
    (of_int : Z -> F),
  of_int 0%Z = zero -> of_int (-1)%Z = sub zero one ->
  forall s q rr : F,
  g_soft_threshold_prox F add sub mul div ltb of_int s q rr = Ret (soft_threshold zero one add sub mul div ltb s q rr).
Proof. exact g_soft_threshold_eq. Qed.
Print Assumptions C02_code_soft_threshold.

Theorem C02_code_u_update : forall (F : Type) (add sub : F -> F -> F) (u x z : list F),
  length u = length x -> length x = length z ->
  g_admm_update_u F add sub u x z = Ret (u_update add sub u x z).
Proof. exact g_admm_update_u_eq. Qed.
Print Assumptions C02_code_u_update.

Theorem C02_code_z_update : forall (F : Type) (zero one : F) (add sub mul div : F -> F -> F) (ltb : F -> F -> bool)
    (of_nat : nat -> F) (of_int : Z -> F) (L : Type),
  of_int 0%Z = zero -> of_int (-1)%Z = sub zero one -> (forall n : nat, of_int (Z.of_nat n) = of_nat n) ->
  forall (N W : nat) (rho : F) (lam : L) (lam_of : nat -> nat -> nat -> F)
         (cls : L -> Z -> Z -> Z -> Z -> Z -> res F) (u x : list F),
  1 <= N -> 1 <= W -> length x = N * W * (N * W + 1) / 2 -> length u = length x ->
  (forall b r c : nat, b < W -> r < N -> c < N -> (b = 0 -> r <= c) ->
     cls lam (Z.of_nat b) (Z.of_nat r) (Z.of_nat c) (Z.of_nat N) (Z.of_nat W) = Ret (lam_of b r c)) ->
  g_admm_update_z F zero add sub mul div ltb of_int L (np_sum zero add) cls
                  (mk_admm_args (Z.of_nat W) (Z.of_nat N) rho lam) u x
  = Ret (z_update zero one add sub mul div ltb of_nat rho lam_of N W u x).
Proof.
  intros F zero one add sub mul div ltb of_nat of_int L H0 Hm1 Hn N W rho lam lam_of cls u x HN HW Hx Hu Hcls.
  exact (g_admm_update_z_eq F zero one add sub mul div (fun a => a) ltb ltb of_nat of_int (fun _ => zero) L
                            H0 Hm1 Hn N W rho lam lam_of cls u x HN HW Hx Hu Hcls).
Qed.
Print Assumptions C02_code_z_update.

(* hence the Z the translated code returns is exactly block-Toeplitz with symmetric leading block, for every carrier *)
Theorem C02_code_z_toeplitz : forall (F : Type) (zero one : F) (add sub mul div : F -> F -> F) (ltb : F -> F -> bool)
    (of_nat : nat -> F) (of_int : Z -> F) (L : Type),
  of_int 0%Z = zero -> of_int (-1)%Z = sub zero one -> (forall n : nat, of_int (Z.of_nat n) = of_nat n) ->
  forall (N W : nat) (rho : F) (lam : L) (lam_of : nat -> nat -> nat -> F)
         (cls : L -> Z -> Z -> Z -> Z -> Z -> res F) (u x : list F),
  1 <= N -> 1 <= W -> length x = N * W * (N * W + 1) / 2 -> length u = length x ->
  (forall b r c : nat, b < W -> r < N -> c < N -> (b = 0 -> r <= c) ->
     cls lam (Z.of_nat b) (Z.of_nat r) (Z.of_nat c) (Z.of_nat N) (Z.of_nat W) = Ret (lam_of b r c)) ->
  exists z : list F,
    g_admm_update_z F zero add sub mul div ltb of_int L (np_sum zero add) cls
                    (mk_admm_args (Z.of_nat W) (Z.of_nat N) rho lam) u x = Ret z /\
    length z = length x /\
    forall R C R' C' : nat, R <= C < N * W -> R' <= C' < N * W ->
      C / N - R / N = C' / N - R' / N -> R mod N = R' mod N -> C mod N = C' mod N ->
      nth (tri_index (N * W) R C) z zero = nth (tri_index (N * W) R' C') z zero.
Proof.
  intros F zero one add sub mul div ltb of_nat of_int L H0 Hm1 Hn N W rho lam lam_of cls u x HN HW Hx Hu Hcls.
  exists (z_update zero one add sub mul div ltb of_nat rho lam_of N W u x).
  split; [| split].
  - exact (g_admm_update_z_eq F zero one add sub mul div (fun a => a) ltb ltb of_nat of_int (fun _ => zero) L
                              H0 Hm1 Hn N W rho lam lam_of cls u x HN HW Hx Hu Hcls).
  - apply z_update_length.
  - intros R C R' C' HRC HRC' Hb Hr Hc. apply z_update_toeplitz; assumption.
Qed.
Print Assumptions C02_code_z_toeplitz.
