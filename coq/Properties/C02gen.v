(* C02, index maps of the Z update on the code AS TRANSLATED from /repo's current source by vcheck/py2coq.py
   (unique_values.py: locations_compressed is what admm_update_z reads, locations_index_slices what
   compute_lambda_sum reads).  Statements only. *)
From Coq Require Import String.
From Coq Require Import List Arith ZArith Lia.
Import ListNotations.
From Ticc Require Import Gen.PyRt Gen.G_unique_values Model.TriIndex Proofs.GenEquivUV.

Theorem C02_code_class_indices : forall b r c N W : nat,
  b < W -> r < N -> c < N -> (b = 0 -> r <= c) ->
  g_locations_compressed (Z.of_nat b) (Z.of_nat r) (Z.of_nat c) (Z.of_nat N) (Z.of_nat W)
  = Ret (map Z.of_nat (locations_compressed b r c N W)).
Proof. exact g_locations_compressed_eq. Qed.
Print Assumptions C02_code_class_indices.

Theorem C02_code_class_slices : forall b r c N W : nat,
  b < W -> 1 <= N ->
  g_locations_index_slices (Z.of_nat b) (Z.of_nat r) (Z.of_nat c) (Z.of_nat N) (Z.of_nat W)
  = Ret (map Z.of_nat (fst (locations_slices b r c N W)), map Z.of_nat (snd (locations_slices b r c N W))).
Proof. exact g_locations_index_slices_eq. Qed.
Print Assumptions C02_code_class_slices.

(* ---- the Z / U updates and the soft threshold of admm/solver.py AS TRANSLATED (Gen/G_solver.v; equivalence with the
   model: Proofs/GenEquivSV.v).  np.sum and compute_lambda_sum are uninterpreted in the translation: the statements hold
   for the model's pairwise summation and for ANY function `cls` that returns the per-class weight lam_of. ---- *)
From Ticc Require Import Gen.G_solver Model.Viterbi Model.Admm Proofs.AdmmP Proofs.GenEquivSV.

Theorem C02_code_soft_threshold : forall (F : Type) (zero one : F) (add sub mul div : F -> F -> F) (ltb : F -> F -> bool)
    (of_int : Z -> F),
  of_int 0%Z = zero -> of_int (-1)%Z = sub zero one ->
  forall s q rr : F,
  g_soft_threshold_prox F add sub mul div ltb of_int s q rr = Ret (soft_threshold zero one add sub mul div ltb s q rr).
Proof. exact g_soft_threshold_eq. Qed.
Print Assumptions C02_code_soft_threshold.

Theorem C02_code_u_update : forall (F : Type) (add sub : F -> F -> F) (u x z : list F),
  length u = length x -> length x = length z ->
  g_admm_update_u F add sub u x z = Ret (u_update add sub u x z).
Proof. exact g_admm_update_u_eq. Qed.
Print Assumptions C02_code_u_update.

Theorem C02_code_z_update : forall (F : Type) (zero one : F) (add sub mul div : F -> F -> F) (ltb : F -> F -> bool)
    (of_nat : nat -> F) (of_int : Z -> F) (L : Type),
  of_int 0%Z = zero -> of_int (-1)%Z = sub zero one -> (forall n : nat, of_int (Z.of_nat n) = of_nat n) ->
  forall (N W : nat) (rho : F) (lam : L) (lam_of : nat -> nat -> nat -> F)
         (cls : L -> Z -> Z -> Z -> Z -> Z -> res F) (u x : list F),
  1 <= N -> 1 <= W -> length x = N * W * (N * W + 1) / 2 -> length u = length x ->
  (forall b r c : nat, b < W -> r < N -> c < N -> (b = 0 -> r <= c) ->
     cls lam (Z.of_nat b) (Z.of_nat r) (Z.of_nat c) (Z.of_nat N) (Z.of_nat W) = Ret (lam_of b r c)) ->
  g_admm_update_z F zero add sub mul div ltb of_int L (np_sum zero add) cls
                  (mk_admm_args (Z.of_nat W) (Z.of_nat N) rho lam) u x
  = Ret (z_update zero one add sub mul div ltb of_nat rho lam_of N W u x).
Proof.
  intros F zero one add sub mul div ltb of_nat of_int L H0 Hm1 Hn N W rho lam lam_of cls u x HN HW Hx Hu Hcls.
  exact (g_admm_update_z_eq F zero one add sub mul div (fun a => a) ltb ltb of_nat of_int (fun _ => zero) L
                            H0 Hm1 Hn N W rho lam lam_of cls u x HN HW Hx Hu Hcls).
Qed.
Print Assumptions C02_code_z_update.

(* hence the Z the translated code returns is exactly block-Toeplitz with symmetric leading block, for every carrier *)
Theorem C02_code_z_toeplitz : forall (F : Type) (zero one : F) (add sub mul div : F -> F -> F) (ltb : F -> F -> bool)
    (of_nat : nat -> F) (of_int : Z -> F) (L : Type),
  of_int 0%Z = zero -> of_int (-1)%Z = sub zero one -> (forall n : nat, of_int (Z.of_nat n) = of_nat n) ->
  forall (N W : nat) (rho : F) (lam : L) (lam_of : nat -> nat -> nat -> F)
         (cls : L -> Z -> Z -> Z -> Z -> Z -> res F) (u x : list F),
  1 <= N -> 1 <= W -> length x = N * W * (N * W + 1) / 2 -> length u = length x ->
  (forall b r c : nat, b < W -> r < N -> c < N -> (b = 0 -> r <= c) ->
     cls lam (Z.of_nat b) (Z.of_nat r) (Z.of_nat c) (Z.of_nat N) (Z.of_nat W) = Ret (lam_of b r c)) ->
  exists z : list F,
    g_admm_update_z F zero add sub mul div ltb of_int L (np_sum zero add) cls
                    (mk_admm_args (Z.of_nat W) (Z.of_nat N) rho lam) u x = Ret z /\
    length z = length x /\
    forall R C R' C' : nat, R <= C < N * W -> R' <= C' < N * W ->
      C / N - R / N = C' / N - R' / N -> R mod N = R' mod N -> C mod N = C' mod N ->
      nth (tri_index (N * W) R C) z zero = nth (tri_index (N * W) R' C') z zero.
Proof.
  intros F zero one add sub mul div ltb of_nat of_int L H0 Hm1 Hn N W rho lam lam_of cls u x HN HW Hx Hu Hcls.
  exists (z_update zero one add sub mul div ltb of_nat rho lam_of N W u x).
  split; [| split].
  - exact (g_admm_update_z_eq F zero one add sub mul div (fun a => a) ltb ltb of_nat of_int (fun _ => zero) L
                              H0 Hm1 Hn N W rho lam lam_of cls u x HN HW Hx Hu Hcls).
  - apply z_update_length.
  - intros R C R' C' HRC HRC' Hb Hr Hc. apply z_update_toeplitz; assumption.
Qed.
Print Assumptions C02_code_z_toeplitz.

(* ---- the convergence test of admm/solver.py AS TRANSLATED = the model's test on the norms the code forms ---- *)
Theorem C02_code_convergence_test : forall (F : Type) (add sub mul : F -> F -> F) (sqrt : F -> F) (ltb leb : F -> F -> bool)
    (of_nat : nat -> F) (of_int : Z -> F) (flit : string -> F) (np_norm : list F -> F),
  (forall n : nat, of_int (Z.of_nat n) = of_nat n) ->
  forall (abs_tol rel_tol rho : F) (verbose : bool) (u x z z_old : list F),
  length x = length z -> length z = length z_old ->
  let nx := np_norm x in
  let nz := np_norm z in
  let nru := np_norm (map (mul rho) u) in
  let rp := np_norm (map2 sub x z) in
  let rd := np_norm (map (mul rho) (map2 sub z z_old)) in
  let tols := tolerances add mul sqrt ltb of_nat (length x) abs_tol rel_tol (flit "0.0001"%string) nx nz nru in
  g_check_convergence F add sub mul ltb of_int leb flit sqrt np_norm (mk_admm_tol_args abs_tol rel_tol rho verbose) u x z z_old
  = Ret (converged add mul sqrt ltb leb of_nat (length x) abs_tol rel_tol (flit "0.0001"%string) nx nz nru rp rd,
         rp, fst tols, rd, snd tols).
Proof. exact g_check_convergence_eq. Qed.
Print Assumptions C02_code_convergence_test.

(* ---- the control flow of run_admm_optimization AS TRANSLATED (skeleton mode, Gen/G_solver_loop.v; every callee an
   uninterpreted oracle that may return anything or raise; equivalence with the hand model and the facts below:
   Proofs/GenEquivSL.v) ---- *)
From Ticc Require Import Gen.PySkel Gen.G_solver_loop Model.AdmmLoopV Proofs.GenEquivSL.

Section Loop.
  Variable V : Type.
  Variable vnone : V.
  Variable vint : Z -> V.
  Variable as_int : V -> option Z.
  Variable getattr : V -> string -> V.
  Variable truthy : V -> bool.
  Variable oracle : list (event V) -> string -> list V -> res V.
  Notation run := (g_run_admm_optimization V vnone vint as_int getattr truthy oracle).

  (* at most max_iterations X updates, whether the run returns or raises *)
  Theorem C02_code_iteration_bound : forall (args S : V) (log : list (event V)) (lim : Z),
    as_int (getattr args "max_iterations") = Some lim ->
    exists ext, snd (run args S log) = (log ++ ext)%list /\ count_fn V f_x ext <= Z.to_nat lim.
  Proof.
    intros args S log lim H. rewrite g_run_admm_eq. apply admm_x_updates_bounded. exact H.
  Qed.

  (* the value returned is the X of the last iteration *)
  Theorem C02_code_returns_last_x : forall (args S x : V) (log log' : list (event V)),
    run args S log = (Ret x, log') ->
    exists ext, log' = (log ++ ext)%list /\
      (count_fn V f_x ext = 0 \/
       exists pre post u z, ext = (pre ++ Ev f_u [u; x; z] :: post)%list /\
                            count_fn V f_u post = 0 /\ count_fn V f_x post = 0).
  Proof.
    intros args S x log log' H. rewrite g_run_admm_eq in H. eapply admm_returns_last_x. exact H.
  Qed.

  (* "whenever the optimiser stops before exhausting its iteration budget": then the last thing it did was a
     check_convergence call on the iterate it returns, which the test answered with a truthy first component *)
  Theorem C02_code_early_stop_only_on_convergence : forall (args S x : V) (log log' : list (event V)) (lim : Z),
    as_int (getattr args "max_iterations") = Some lim ->
    run args S log = (Ret x, log') ->
    exists ext, log' = (log ++ ext)%list /\
      (count_fn V f_x ext = Z.to_nat lim \/
       exists pre args' u z z_old r,
         log' = (pre ++ [Ev f_chk [args'; u; x; z; z_old]])%list /\
         oracle pre f_chk [args'; u; x; z; z_old] = Ret r /\ truthy (getattr r "[0]") = true).
  Proof.
    intros args S x log log' lim Hl H. rewrite g_run_admm_eq in H. eapply admm_early_stop_converged; eassumption.
  Qed.

  (* no convergence test before the second iteration *)
  Theorem C02_code_no_test_in_first_iteration : forall (args S : V) (log pre : list (event V)) (a : list V) (post : list (event V)),
    snd (run args S log) = (log ++ pre ++ Ev f_chk a :: post)%list -> 2 <= count_fn V f_x pre.
  Proof.
    intros args S log pre a post H. rewrite g_run_admm_eq in H. eapply admm_check_after_two. exact H.
  Qed.
End Loop.
Print Assumptions C02_code_iteration_bound.
Print Assumptions C02_code_returns_last_x.
Print Assumptions C02_code_early_stop_only_on_convergence.
Print Assumptions C02_code_no_test_in_first_iteration.

(* ---- the ADMM ENTRY POINT AS TRANSLATED (Gen/G_admm_front.v; facts: Proofs/GenEquivGU.v): the solver gets the caller's covariance and
   an argument bundle built from exactly the caller's parameters - absolute tolerance in the absolute slot, relative in the relative
   slot - and its answer is returned wrapped and otherwise untouched ---- *)
From Ticc Require Import Gen.PySkel Gen.G_admm_front Proofs.GenEquivGU.
Section SkelGU02.
  Local Open Scope string_scope.
  Variable V : Type.
  Variable vnone : V.
  Variable vint : Z -> V.
  Variable as_int : V -> option Z.
  Variable veq : V -> V -> bool.
  Variable getattr : V -> string -> V.
  Variable truthy : V -> bool.
  Variable is_none : V -> bool.
  Variables vtrue vfalse : V.
  Variable as_list : V -> list V.
  Variable vglobal : string -> V.
  Variable oracle : list (event V) -> string -> list V -> res V.
  Theorem C02_code_admm_entry
      (empirical_covariance sparsity_weight window_size num_data_series rho rho_update max_iterations
       absolute_tolerance relative_tolerance verbose r : V) (log log' : list (event V)) :
    g_admm_optimize_theta V oracle empirical_covariance sparsity_weight window_size num_data_series rho rho_update
                          max_iterations absolute_tolerance relative_tolerance verbose log = (Ret r, log') ->
    exists args theta,
      let e_args := Ev f_admm_args [window_size; num_data_series; rho; rho_update; sparsity_weight;
                                    absolute_tolerance; relative_tolerance; max_iterations; verbose] in
      log' = (log ++ [e_args; Ev f_run_admm [args; empirical_covariance]; Ev f_admm_result [theta]])%list /\
      oracle log f_admm_args [window_size; num_data_series; rho; rho_update; sparsity_weight;
                              absolute_tolerance; relative_tolerance; max_iterations; verbose] = Ret args /\
      oracle (log ++ [e_args]) f_run_admm [args; empirical_covariance] = Ret theta /\
      oracle (log ++ [e_args; Ev f_run_admm [args; empirical_covariance]]) f_admm_result [theta] = Ret r.
  Proof. intros; eapply admm_front_returns; eassumption. Qed.
End SkelGU02.
Print Assumptions C02_code_admm_entry.

(* ---- the SOLVER'S ARGUMENT BUNDLE AS TRANSLATED (Gen/G_aa_*.v; facts: Proofs/GenEquivAR.v): a copy hands all nine fields on unchanged, in
   their own slots (its deep copy IS its shallow copy: a matrix-valued sparsity weight would be shared - the library never calls it) ---- *)
From Ticc Require Import Gen.PySkel Gen.G_aa_shallow Gen.G_aa_deep Proofs.GenEquivAR.
Section SkelAR02.
  Local Open Scope string_scope.
  Variable V : Type.
  Variable vnone : V.
  Variable vint : Z -> V.
  Variable as_int : V -> option Z.
  Variable veq : V -> V -> bool.
  Variable getattr : V -> string -> V.
  Variable truthy : V -> bool.
  Variable is_none : V -> bool.
  Variables vtrue vfalse : V.
  Variable as_list : V -> list V.
  Variable vglobal : string -> V.
  Variable oracle : list (event V) -> string -> list V -> res V.
  Let aa_fields := GenEquivAR.aa_fields V getattr.
  Theorem C02_code_bundle_shallow_copy (self r : V) (log log' : list (event V)) :
    g_ADMMArguments_shallow_copy V getattr oracle self log = (Ret r, log') ->
    log' = (log ++ [Ev f_aa_ctor (aa_fields self)])%list /\
    oracle log f_aa_ctor (aa_fields self) = Ret r.
  Proof. intros; eapply aa_shallow_returns; eassumption. Qed.
  Theorem C02_code_bundle_deep_copy (self r : V) (log log' : list (event V)) :
    g_ADMMArguments_deep_copy V oracle self log = (Ret r, log') ->
    log' = (log ++ [Ev "method:shallow_copy" [self]])%list /\
    oracle log "method:shallow_copy" [self] = Ret r.
  Proof. intros; eapply aa_deep_returns; eassumption. Qed.
End SkelAR02.
Print Assumptions C02_code_bundle_shallow_copy.
Print Assumptions C02_code_bundle_deep_copy.
