(* C02, index maps of the Z update on the code AS TRANSLATED from /repo's current source by vcheck/py2coq.py
   (unique_values.py: locations_compressed is what admm_update_z reads, locations_index_slices what
   compute_lambda_sum reads).  Statements only. *)
From Coq Require Import String.
From Coq Require Import List Arith ZArith Lia.
Import ListNotations.
From Ticc Require Import Gen.PyRt Gen.G_unique_values Model.TriIndex Proofs.GenEquivUV.

Theorem C02_code_class_indices : forall b r c N W : nat,
  b < W -> r < N -> c < N -> (b = 0 -> r <= c) ->
  g_locations_compressed (Z.of_nat b) (Z.of_nat r) (Z.of_nat c) (Z.of_nat N) (Z.of_nat W)
  = Ret (map Z.of_nat (locations_compressed b r c N W)).
Proof. exact g_locations_compressed_eq. Qed.
Print Assumptions C02_code_class_indices.

Theorem C02_code_class_slices : forall b r c N W : nat,
  b < W -> 1 <= N ->
  g_locations_index_slices (Z.of_nat b) (Z.of_nat r) (Z.of_nat c) (Z.of_nat N) (Z.of_nat W)
  = Ret (map Z.of_nat (fst (locations_slices b r c N W)), map Z.of_nat (snd (locations_slices b r c N W))).
Proof. exact g_locations_index_slices_eq. Qed.
Print Assumptions C02_code_class_slices.
