(* C13 - model state: labels and cluster membership always describe one partition.
   Statements only. *)
From Coq Require Import List Arith.
Import ListNotations.
From Ticc Require Import Model.State Model.Repop.

(* the hazard the phases avoid: assigning labels to a SHALLOW copy re-derives
   membership on the cluster objects it shares with its source - the source keeps
   its labels but its clusters' member lists change (so the invariant is not
   vacuous, and copying the clusters first, as every phase does, is what makes it hold) *)
Example C13_shallow_aliasing_example :
  let '(h0, s0) := init 2 1 false false in
  match run_ops (h0, s0) [OpSetLabels [0;0;1;1]; OpShallow; OpSetLabels [1;1;0;0]] with
  | Some (h, s1) =>
      s1 <> s0 /\ state_labels h s0 = Some [0;0;1;1] /\ state_labels h s1 = Some [1;1;0;0] /\
      map (cluster_members h) (state_clusters h s0) = [[2;3];[0;1]]
  | None => False
  end.
Proof. vm_compute. repeat split; discriminate. Qed.
Print Assumptions C13_shallow_aliasing_example.
