(* C13 - model state: labels and cluster membership always describe one partition.
   Statements only; proofs in Proofs/StateP.v.  The model (Model/State.v) is an explicit heap of
   Python objects with identities; [step] executes one operation on the current state. *)
From Coq Require Import List Arith Permutation.
Import ListNotations.
From Ticc Require Import Model.State Model.Repop Proofs.StateP.
Notation Inv := Ticc.Model.State.Inv.

(* in every state handed on by any sequence of operations (assign labels, shallow / deep copy,
   repopulate, update statistics, optimise, relabel) there are exactly K clusters and cluster k's
   member list is exactly the ascending list of the points labelled k *)
Theorem C13_init : forall K m la ba, let '(h, s) := init K m la ba in WF h s /\ Inv h s.
Proof. exact init_wf_inv. Qed.
Print Assumptions C13_init.

Theorem C13_step : forall h s o h' s', WF h s -> Inv h s -> step (h, s) o = Some (h', s') -> WF h' s' /\ Inv h' s'.
Proof. exact step_wf_inv. Qed.
Print Assumptions C13_step.

Theorem C13_reachable : forall K m la ba ops h' s',
  run_ops (init K m la ba) ops = Some (h', s') -> WF h' s' /\ Inv h' s'.
Proof. exact run_ops_wf_inv. Qed.
Print Assumptions C13_reachable.

(* ... so the member lists partition the points *)
Theorem C13_partition : forall h s labels, WF h s -> Inv h s -> state_labels h s = Some labels ->
  Forall (fun c => c < state_K h s) labels ->
  Permutation (concat (map (cluster_members h) (state_clusters h s))) (seq 0 (length labels)).
Proof. exact inv_partition. Qed.
Print Assumptions C13_partition.

(* assigning a new labelling re-derives membership immediately *)
Theorem C13_setter_immediate : forall h s ls h' s', WF h s -> Inv h s ->
  step (h, s) (OpSetLabels ls) = Some (h', s') ->
  s' = s /\ state_labels h' s = Some ls /\
  (forall k c, nth_error (state_clusters h' s) k = Some c -> cluster_members h' c = positions ls k).
Proof. exact set_labels_immediate. Qed.
Print Assumptions C13_setter_immediate.

(* no phase alters the labelling, membership or fitted statistics of anything that existed before
   it ran: every pre-existing object is bit-for-bit unchanged ... *)
Theorem C13_frame_repopulate : forall h s spread order draws h' s', WF h s ->
  phase_repopulate h s spread order draws = Some (h', s') -> unchanged h h'.
Proof. exact frame_repopulate. Qed.
Print Assumptions C13_frame_repopulate.
Theorem C13_frame_statistics : forall h s b h' s', WF h s -> phase_statistics h s b = Some (h', s') -> unchanged h h'.
Proof. exact frame_statistics. Qed.
Print Assumptions C13_frame_statistics.
Theorem C13_frame_optimise : forall h s mrf h' s', WF h s -> phase_optimise h s mrf = (h', s') -> unchanged h h'.
Proof. exact frame_optimise. Qed.
Print Assumptions C13_frame_optimise.
(* ... except relabel's scoring cache in the clusters of the state it was given:
   inverse_covariance := that cluster's own MRF object, log-determinant rewritten *)
Theorem C13_frame_relabel : forall h s ls cost h' s', WF h s -> phase_relabel h s ls cost = (h', s') ->
  forall l, l < length h ->
    (~ In l (state_clusters h s) -> get h' l = get h l) /\
    (In l (state_clusters h s) -> forall mem ec mean ti cc ic ld,
        get h l = Some (OCluster mem ec mean ti cc ic ld) ->
        exists ld', get h' l = Some (OCluster mem ec mean ti cc ti ld')).
Proof. exact frame_relabel. Qed.
Print Assumptions C13_frame_relabel.

(* a deep copy shares nothing mutable with its source: every object reachable from the copy is
   fresh (incl. array-valued arguments, since d0fb27e), the source is unchanged, and the copy
   carries the same labels and membership.  Stated for every reachable configuration. *)
Theorem C13_deep_copy_disjoint : forall K m la ba ops h s h' s',
  run_ops (init K m la ba) ops = Some (h, s) -> state_labels h s <> None ->
  state_deep_copy h s = (h', s') ->
  unchanged h h' /\ Forall (fun l => length h <= l) (state_reach h' s') /\ WF h' s' /\
  state_labels h' s' = state_labels h s /\
  map (cluster_members h') (state_clusters h' s') = map (cluster_members h) (state_clusters h s).
Proof. exact deep_copy_fresh_reachable. Qed.
Print Assumptions C13_deep_copy_disjoint.

(* the hazard the phases avoid: assigning labels to a SHALLOW copy re-derives membership on the
   cluster objects it shares with its source - the source keeps its labels but its clusters'
   member lists change; so the invariant is not vacuous, and copying the clusters first (as every
   phase does) is what makes it hold *)
Example C13_shallow_aliasing_example :
  let '(h0, s0) := init 2 1 false false in
  match run_ops (h0, s0) [OpSetLabels [0;0;1;1]; OpShallow; OpSetLabels [1;1;0;0]] with
  | Some (h, s1) =>
      s1 <> s0 /\ state_labels h s0 = Some [0;0;1;1] /\ state_labels h s1 = Some [1;1;0;0] /\
      map (cluster_members h) (state_clusters h s0) = [[2;3];[0;1]]
  | None => False
  end.
Proof. vm_compute. repeat split; discriminate. Qed.
Print Assumptions C13_shallow_aliasing_example.
