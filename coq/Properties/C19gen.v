(* C19 for the code AS TRANSLATED in skeleton mode: which objects the glue code STORES INTO.
   The skeletons pin down the complete call log of a returning run (Proofs/GenEquivFE.v, GenEquivPH.v).  A store is an event
   whose label is  setattr:<field> ,  store:<path>  or  setitem  - the only ways the translated code writes into an object;
   its first argument is the object written.  Corollaries:
   - the single-series front end hands the caller's array to stack_training_data and to nothing else, and its only store is
     point_labels of the result object whose labels it has just padded;
   - the joint front end performs no store at all (the masked cost is a new value: `cost * template`);
   - the labelling step stores only into the chain of objects that starts at the answer of shallow_copy(), never into the
     state it was given.
   What the CALLEES do to their arguments is outside skeleton mode (oracles): C19's own check observes that on the real objects. *)
From Coq Require Import String ZArith List Bool.
From Ticc Require Import Gen.PyRt Gen.PySkel Gen.G_front_single Gen.G_front_joint Gen.G_la_predict Proofs.GenEquivFE Proofs.GenEquivPH.
Import ListNotations.
Local Open Scope string_scope.

Definition is_store (f : string) : bool :=
  String.prefix "setattr:" f || String.prefix "store:" f || String.eqb f "setitem".

Definition store_targets {V : Type} (evs : list (event V)) : list V :=
  flat_map (fun e => if is_store (ev_fn e) then firstn 1 (ev_args e) else []) evs.

Theorem C19_code_single_stores : forall (V : Type) (getattr : V -> string -> V)
    (oracle : list (event V) -> string -> list V -> res V)
    (data W K lam beta lim eps procs m biased r : V) (log log' : list (event V)),
  g_ticc_labels V getattr oracle data W K lam beta lim eps procs m biased log = (Ret r, log') ->
  exists evs params stacked res,
    log' = (log ++ evs)%list /\
    store_targets evs = [res] /\
    nth_error evs 1 = Some (Ev f_stack [data; W]) /\
    nth_error evs 2 = Some (Ev f_fit [params; stacked]) /\
    nth_error evs 3 = Some (Ev f_pad [getattr res "point_labels"; W]) /\
    length evs = 5%nat.
Proof.
  intros V getattr oracle data W K lam beta lim eps procs m biased r log log' Hrun.
  destruct (single_returns V getattr oracle data W K lam beta lim eps procs m biased r log log' Hrun)
    as (params & stacked & res & padded & Hlog & _ & _).
  eexists. exists params, stacked, res.
  split; [exact Hlog|]. repeat split.
Qed.
Print Assumptions C19_code_single_stores.

Theorem C19_code_joint_no_store : forall (V : Type) (veq : V -> V -> bool) (getattr : V -> string -> V)
    (oracle : list (event V) -> string -> list V -> res V)
    (data W K lam beta lim eps procs m biased r : V) (log log' : list (event V)),
  g_ticc_joint_labels V veq getattr oracle data W K lam beta lim eps procs m biased log = (Ret r, log') ->
  exists evs, log' = (log ++ evs)%list /\ store_targets evs = [] /\ length evs = 9%nat.
Proof.
  intros V veq getattr oracle data W K lam beta lim eps procs m biased r log log' Hrun.
  destruct (joint_returns V veq getattr oracle data W K lam beta lim eps procs m biased r log log' Hrun)
    as (lst & combined & sizes & args & template & masked & total & master & Hlog & _).
  eexists. split; [exact Hlog|]. split; reflexivity.
Qed.
Print Assumptions C19_code_joint_no_store.

Theorem C19_code_relabel_stores_into_copy : forall (V : Type) (getattr : V -> string -> V) (truthy : V -> bool)
    (vglobal : string -> V) (oracle : list (event V) -> string -> list V -> res V)
    (model data r : V) (log log' : list (event V)),
  g_predict_cluster_labels V getattr truthy vglobal oracle model data log = (Ret r, log') ->
  exists evs m0 m1 m2 k,
    log' = (log ++ evs)%list /\
    store_targets evs = [m0; m1; m2] /\
    nth_error evs k = Some (Ev "method:shallow_copy" [model]) /\
    (forall e, In e evs -> is_store (ev_fn e) = true -> hd_error (ev_args e) = Some m0 \/ hd_error (ev_args e) = Some m1 \/ hd_error (ev_args e) = Some m2).
Proof.
  intros V getattr truthy vglobal oracle model data r log log' Hrun.
  destruct (predict_returns V getattr truthy vglobal oracle model data r log log' Hrun)
    as (table & neg & isr & beta' & lab & m0 & cl & m1 & m2 & Hlog & _).
  cbv zeta in Hlog.
  destruct (truthy isr).
  - eexists. exists m0, m1, m2, 5%nat.
    split; [rewrite Hlog; rewrite <- !app_assoc; reflexivity|].
    split; [reflexivity|]. split; [reflexivity|].
    intros e Hin Hst. cbn [app In] in Hin.
    repeat (destruct Hin as [He|Hin]; [subst e; first [discriminate Hst | (left; reflexivity) | (right; left; reflexivity) | (right; right; reflexivity)]|]).
    contradiction.
  - eexists. exists m0, m1, m2, 4%nat.
    split; [rewrite Hlog; rewrite <- !app_assoc; reflexivity|].
    split; [reflexivity|]. split; [reflexivity|].
    intros e Hin Hst. cbn [app In] in Hin.
    repeat (destruct Hin as [He|Hin]; [subst e; first [discriminate Hst | (left; reflexivity) | (right; left; reflexivity) | (right; right; reflexivity)]|]).
    contradiction.
Qed.
Print Assumptions C19_code_relabel_stores_into_copy.

(* ---- the ARGUMENT PRINTER AS TRANSLATED (Gen/G_ua_print.v; facts: Proofs/GenEquivRM.v): reads the nine fields, writes only through print(file=stream)
   and a closure over that same stream (the stream given, or sys.stdout when none is), returns None ---- *)
From Ticc Require Import Gen.PySkel Gen.G_ua_print Proofs.GenEquivRM.
Section SkelRM19.
  Local Open Scope string_scope.
  Variable V : Type.
  Variable vnone : V.
  Variable vint : Z -> V.
  Variable as_int : V -> option Z.
  Variable veq : V -> V -> bool.
  Variable getattr : V -> string -> V.
  Variable truthy : V -> bool.
  Variable is_none : V -> bool.
  Variables vtrue vfalse : V.
  Variable as_list : V -> list V.
  Variable vglobal : string -> V.
  Variable oracle : list (event V) -> string -> list V -> res V.
  Let print_stream := GenEquivRM.print_stream V is_none vglobal.
  Let print_events := GenEquivRM.print_events V getattr.
  Theorem C19_code_print (self out r : V) (log log' : list (event V)) :
    g_UserArguments_print V vnone getattr is_none vglobal oracle self out log = (Ret r, log') ->
    exists my_log h ds,
      let evs := print_events self (print_stream out) my_log h ds in
      log' = (log ++ evs)%list /\
      length ds = 9%nat /\ length evs = 21%nat /\
      oracle log f_mylog [print_stream out] = Ret my_log /\
      oracle (log ++ firstn 1 evs)%list f_header [] = Ret h /\
      (exists a, oracle (log ++ firstn 2 evs)%list "print(file=)" [h; print_stream out] = Ret a) /\
      (forall k, (k < 9)%nat ->
         oracle (log ++ firstn (3 + 2 * k) evs)%list (fst (nth k ua_print_fields ("", ""))) [] = Ret (nth k ds vnone) /\
         exists a, oracle (log ++ firstn (4 + 2 * k) evs)%list "apply"
                          [my_log; nth k ds vnone; getattr self (snd (nth k ua_print_fields ("", "")))] = Ret a) /\
      r = vnone.
  Proof. intros; eapply print_returns; eassumption. Qed.
End SkelRM19.
Print Assumptions C19_code_print.
