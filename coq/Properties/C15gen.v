(* C15 for the code AS TRANSLATED in skeleton mode: the Numba guard (src/fast_ticc/numba_guard.py), the only place where the
   library chooses between the compiled and the interpreted execution of its kernels.  Facts: Proofs/GenEquivRM.v.
   What the compiler does with a decorated function is outside any translation (C15's own check compares the modes bit for bit). *)
From Coq Require Import String ZArith List Bool.
From Ticc Require Import Gen.PyRt.
Import ListNotations.

(* ---- the NUMBA GUARD AS TRANSLATED (Gen/G_ng_*.v; facts: Proofs/GenEquivRM.v): without Numba, prange IS range on the very same arguments, njit(...)
   is the no-op decorator (no call is made at all) and that decorator's wrapper only forwards to the function; with Numba both fall
   through to numba.prange / numba.njit on the very same arguments ---- *)
From Ticc Require Import Gen.PySkel Gen.G_ng_prange Gen.G_ng_njit Gen.G_ng_noop Proofs.GenEquivRM.
Section SkelRM15.
  Local Open Scope string_scope.
  Variable V : Type.
  Variable vnone : V.
  Variable vint : Z -> V.
  Variable as_int : V -> option Z.
  Variable veq : V -> V -> bool.
  Variable getattr : V -> string -> V.
  Variable truthy : V -> bool.
  Variable is_none : V -> bool.
  Variables vtrue vfalse : V.
  Variable as_list : V -> list V.
  Variable vglobal : string -> V.
  Variable oracle : list (event V) -> string -> list V -> res V.
  Theorem C15_code_prange (args kwargs r : V) (log log' : list (event V)) :
    g_fake_prange V truthy vglobal oracle args kwargs log = (Ret r, log') ->
    let f := if truthy (vglobal "NUMBA_AVAILABLE") then f_numba_prange else f_range in
    log' = (log ++ [Ev f [args; kwargs]])%list /\
    oracle log f [args; kwargs] = Ret r.
  Proof. intros; eapply prange_returns; eassumption. Qed.
  Theorem C15_code_njit (args kwargs r : V) (log log' : list (event V)) :
    g_fake_njit V truthy vglobal oracle args kwargs log = (Ret r, log') ->
    if truthy (vglobal "NUMBA_AVAILABLE")
    then log' = (log ++ [Ev f_numba_njit [args; kwargs]])%list /\
         oracle log f_numba_njit [args; kwargs] = Ret r
    else log' = log /\ r = vglobal "noop_decorator".
  Proof. intros; eapply njit_returns; eassumption. Qed.
  Theorem C15_code_noop_decorator (func r : V) (log log' : list (event V)) :
    g_noop_decorator V oracle func log = (Ret r, log') ->
    log' = (log ++ [Ev f_wrapped [func]])%list /\
    oracle log f_wrapped [func] = Ret r.
  Proof. intros; eapply noop_returns; eassumption. Qed.
End SkelRM15.
Print Assumptions C15_code_prange.
Print Assumptions C15_code_njit.
Print Assumptions C15_code_noop_decorator.
