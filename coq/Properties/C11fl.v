(* C11 on IEEE binary64 (Coq's primitive floats): re-inflating a compressed vector and compressing it again returns
   the same vector BIT FOR BIT, for every size, for every vector of finite entries of magnitude below 2^1023 none of
   which is -0.  The two exceptions are real and computed here: a -0 entry comes back as +0, and a diagonal entry whose
   double overflows comes back as infinity.  Statements only; proofs in Proofs/FloatRoundTrip.v (Flocq) and
   Proofs/FloatC11.v.  The theorems that go through Flocq's real-number semantics use the standard-library axioms of
   the reals (named by Print Assumptions below). *)
From Coq Require Import List Arith.
From Coq Require Import Floats.
Import ListNotations.
From Ticc Require Import Model.TriIndex Proofs.FloatC11 Proofs.FloatRoundTrip.
Local Open Scope float_scope.

Theorem C11_offdiagonal_binary64 : forall x : float,
  x <> (-0)%float -> ((x + 0) - 0)%float = x /\ ((0 + x) - 0)%float = x.
Proof. intros x H. split; [apply add_zero_sub_zero | apply zero_add_sub_zero]; exact H. Qed.
Print Assumptions C11_offdiagonal_binary64.

Theorem C11_diagonal_binary64 : forall d : float,
  PrimFloat.is_finite d = true -> PrimFloat.ltb (PrimFloat.abs d) 0x1p+1023%float = true ->
  ((d + d) - d)%float = d \/ d = (-0)%float.
Proof. exact double_sub_self. Qed.
Print Assumptions C11_diagonal_binary64.

Theorem C11_reinflate_then_compress_binary64 : forall (n : nat) (v : list float),
  length v = (n * (n + 1) / 2)%nat ->
  Forall (fun x => x <> (-0)%float /\ PrimFloat.is_finite x = true /\
                   PrimFloat.ltb (PrimFloat.abs x) 0x1p+1023%float = true) v ->
  compress n (reinflate 0%float PrimFloat.add PrimFloat.sub v) = v.
Proof.
  intros n v Hlen Hall. rewrite Forall_forall in Hall.
  apply compress_reinflate_pointwise; [exact Hlen | |].
  - intros x Hin. apply add_zero_sub_zero. apply (Hall x Hin).
  - intros x Hin. destruct (Hall x Hin) as [Hnz [Hfin Hlt]].
    destruct (double_sub_self x Hfin Hlt) as [H|H]; [exact H | contradiction].
Qed.
Print Assumptions C11_reinflate_then_compress_binary64.

(* the exceptions, computed *)
Example C11_binary64_exceptions :
  ((-0 + 0) - 0)%float = 0%float /\ ((-0 + -0) - -0)%float = 0%float /\
  ((0x1.fffffffffffffp+1023 + 0x1.fffffffffffffp+1023) - 0x1.fffffffffffffp+1023)%float = infinity.
Proof. repeat split; reflexivity. Qed.
Print Assumptions C11_binary64_exceptions.
