(* C03, positive definiteness of the X update as a MATRIX (solver.py: x_update_prox), mathcomp matrices over
   any real (ordered) field.  Statements only; proofs in Proofs/XUpdateMx.v.

   With Q orthogonal (the contract of eigh) and every theta_i > 0 (C03_theta_positive: the eigenvalue map
   is positive for every real d), X = Q diag(theta) Q^T is symmetric and  v X v^T > 0  for every v <> 0.
   This is the exact-arithmetic reason why every MRF the optimiser produces is positive definite; the
   floating-point products q @ diag @ q.T are oracles (DESIGN.md section 9). *)
From mathcomp Require Import all_ssreflect all_algebra.
From Ticc Require Import Proofs.XUpdateMx.
Import GRing.Theory Num.Theory.
Local Open Scope ring_scope.

Theorem C03_x_update_positive_definite :
  forall (F : realFieldType) (n : nat) (Q : 'M[F]_n) (th : 'rV[F]_n),
  Q *m Q^T = 1%:M -> (forall i, 0 < th 0 i) ->
  let X := Q *m diag_mx th *m Q^T in
  X^T = X /\ forall v : 'rV[F]_n, v != 0 -> 0 < (v *m X *m v^T) 0 0.
Proof.
move=> F n Q th HQ Hp /=; split; first exact: mxX_sym.
by move=> v vn0; exact: (mxX_posdef HQ Hp vn0).
Qed.
Print Assumptions C03_x_update_positive_definite.

(* the quadratic form is the theta-weighted sum of squares of the rotated vector *)
Theorem C03_x_update_quadratic_form :
  forall (F : realFieldType) (n : nat) (Q : 'M[F]_n) (th v : 'rV[F]_n),
  (v *m (Q *m diag_mx th *m Q^T) *m v^T) 0 0 = \sum_i th 0 i * ((v *m Q) 0 i) ^+ 2.
Proof. move=> F n Q th v; exact: quad_form. Qed.
Print Assumptions C03_x_update_quadratic_form.
