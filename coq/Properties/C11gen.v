(* C11 on the code AS TRANSLATED from /repo's current source by vcheck/py2coq.py (unique_values.py;
   Gen/G_unique_values.v, regenerated on every run).  Statements only.
   Python's float true division r*(r+1)/2 is rendered by exact rational arithmetic (Gen/PyRt.v). *)
From Coq Require Import String.
From Coq Require Import List Arith ZArith Lia.
Import ListNotations.
From Ticc Require Import Gen.PyRt Gen.G_unique_values Model.TriIndex Proofs.TriIndexP Proofs.GenEquivUV.

(* the closed-form compressed index computed by the code is the row-major rank in the upper triangle *)
Theorem C11_code_index_is_rank : forall n r c, r <= c -> c < n ->
  exists k, g_compressed_index (Z.of_nat r) (Z.of_nat c) (Z.of_nat n) = Ret (Z.of_nat k) /\
    nth k (triu n) (0, 0) = (r, c) /\ k < n * (n + 1) / 2.
Proof.
  intros n r c Hrc Hc. exists (tri_index n r c). split; [apply g_compressed_index_eq; assumption|].
  apply tri_index_is_rank; assumption.
Qed.
Print Assumptions C11_code_index_is_rank.

Theorem C11_code_index_rejects_lower : forall row column n : Z,
  (column < row)%Z -> g_compressed_index row column n = Raise "IndexError"%string.
Proof. exact g_compressed_index_below. Qed.
Print Assumptions C11_code_index_rejects_lower.

(* class position lists: W - b positions, both output forms name the same positions *)
Theorem C11_code_class_positions : forall b r c N W : nat,
  b < W -> 1 <= N ->
  g_unique_variable_locations (Z.of_nat b) (Z.of_nat r) (Z.of_nat c) (Z.of_nat N) (Z.of_nat W)
  = Ret (map zpair (class_positions b r c N W)) /\
  length (class_positions b r c N W) = W - b.
Proof.
  intros b r c N W Hb HN. split; [apply g_unique_variable_locations_eq; assumption|apply class_size].
Qed.
Print Assumptions C11_code_class_positions.

Theorem C11_code_forms_agree : forall b r c N W : nat,
  b < W -> r < N -> c < N -> (b = 0 -> r <= c) ->
  exists comp rows cols,
    g_locations_compressed (Z.of_nat b) (Z.of_nat r) (Z.of_nat c) (Z.of_nat N) (Z.of_nat W) = Ret (map Z.of_nat comp) /\
    g_locations_index_slices (Z.of_nat b) (Z.of_nat r) (Z.of_nat c) (Z.of_nat N) (Z.of_nat W)
      = Ret (map Z.of_nat rows, map Z.of_nat cols) /\
    comp = map (fun RC => tri_index (N * W) (fst RC) (snd RC)) (combine rows cols) /\
    combine rows cols = class_positions b r c N W.
Proof.
  intros b r c N W Hb Hr Hc Hd.
  exists (locations_compressed b r c N W), (fst (locations_slices b r c N W)), (snd (locations_slices b r c N W)).
  split; [apply g_locations_compressed_eq; assumption|].
  split; [apply g_locations_index_slices_eq; [assumption|lia]|].
  assert (Hcomb : combine (fst (locations_slices b r c N W)) (snd (locations_slices b r c N W)) = class_positions b r c N W).
  { unfold locations_slices. cbn [fst snd]. induction (class_positions b r c N W) as [|[x y] l IH]; cbn; [reflexivity|now rewrite IH]. }
  split; [rewrite Hcomb; reflexivity | exact Hcomb].
Qed.
Print Assumptions C11_code_forms_agree.

(* ---- matrix_compression.py AS TRANSLATED (Gen/G_matrix_compression.v; equivalence with the model: Proofs/GenEquivMC.v).
   np.triu_indices is rendered by its specification; `np_sqrt_int` is NumPy's float square root, assumed exact on the perfect
   squares (2n+1)^2 that occur (true below 2^53). ---- *)
From Coq Require Import QArith.
From Ticc Require Import Gen.G_matrix_compression Proofs.GenEquivMC.

Theorem C11_code_compress_is_model : forall (F : Type) (n : nat) (M : nat -> nat -> F),
  g_compress_matrix F (mk_arr2 (Z.of_nat n) (Z.of_nat n) (matrix_rows n M)) = Ret (compress n M).
Proof. intros F n M. exact (g_compress_matrix_eq F (fun a _ => a) (fun a _ => a) n M). Qed.
Print Assumptions C11_code_compress_is_model.

Theorem C11_code_reinflate_is_model : forall (F : Type) (f0 : F) (fadd fsub : F -> F -> F) (np_sqrt_int : Z -> Q),
  (forall k : Z, (0 <= k)%Z -> np_sqrt_int (k * k)%Z = inject_Z k) ->
  forall (n : nat) (v : list F), length v = (n * (n + 1) / 2)%nat ->
  g_reinflate_matrix F f0 fadd fsub np_sqrt_int v
  = Ret (mk_arr2 (Z.of_nat n) (Z.of_nat n) (matrix_rows n (reinflate f0 fadd fsub v))).
Proof. exact g_reinflate_matrix_eq. Qed.
Print Assumptions C11_code_reinflate_is_model.

(* hence, for the code as translated and every carrier satisfying  (x + 0) - 0 = x,  (0 + x) - 0 = x,  (x + x) - x = x
   (R; binary64 except for -0 and overflow, Properties/C11fl.v):  re-inflating any vector of length n(n+1)/2 and compressing
   the result returns the vector, for EVERY n *)
Theorem C11_code_reinflate_then_compress : forall (F : Type) (f0 : F) (fadd fsub : F -> F -> F) (np_sqrt_int : Z -> Q),
  (forall x, fsub (fadd x f0) f0 = x) -> (forall x, fsub (fadd f0 x) f0 = x) -> (forall x, fsub (fadd x x) x = x) ->
  (forall k : Z, (0 <= k)%Z -> np_sqrt_int (k * k)%Z = inject_Z k) ->
  forall (n : nat) (v : list F), length v = (n * (n + 1) / 2)%nat ->
  exists full : arr2 F,
    g_reinflate_matrix F f0 fadd fsub np_sqrt_int v = Ret full /\
    a_rows full = Z.of_nat n /\ a_cols full = Z.of_nat n /\
    g_compress_matrix F full = Ret v.
Proof.
  intros F f0 fadd fsub sq L1 L2 L3 Hsq n v Hlen.
  exists (mk_arr2 (Z.of_nat n) (Z.of_nat n) (matrix_rows n (reinflate f0 fadd fsub v))).
  split; [apply g_reinflate_matrix_eq; assumption|].
  split; [reflexivity|]. split; [reflexivity|].
  rewrite (g_compress_matrix_eq F fadd fsub). f_equal. apply (compress_reinflate f0 fadd fsub L1 L2 L3). exact Hlen.
Qed.
Print Assumptions C11_code_reinflate_then_compress.
