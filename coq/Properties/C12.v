(* C12 - each cluster is fitted to exactly its own windows, with the requested estimator.
   Statements only; proofs in Proofs/StatsP.v (on the heap model of C13). *)
From Coq Require Import List Arith.
Import ListNotations.
From Ticc Require Import Model.State Model.Repop Model.Stats Proofs.StateP Proofs.StatsP.
Notation Inv := Ticc.Model.State.Inv.

(* in every round of every run - every configuration reachable by any sequence of operations,
   in particular right after a repopulation - the statistics phase computes the mean and the
   covariance of cluster k from exactly the rows labelled k (ascending, none missing, no other):
   the array contents carry the row list they were computed from *)
Theorem C12_rows : forall K m la ba ops h s b h' s' labels,
  run_ops (init K m la ba) ops = Some (h, s) -> state_labels h s = Some labels ->
  phase_statistics h s b = Some (h', s') ->
  forall k c, nth_error (state_clusters h' s') k = Some c ->
    exists ml ecl meanl ti cc ic ld,
      get h' c = Some (OCluster ml (Some ecl) (Some meanl) ti cc ic ld) /\
      get h' ecl = Some (OArr (cov_token b (positions labels k))) /\
      get h' meanl = Some (OArr (2 :: positions labels k)).
Proof. exact statistics_rows_reachable. Qed.
Print Assumptions C12_rows.

(* one-step form with the member lists and non-emptiness *)
Theorem C12_rows_step : forall h s b h' s' labels, WF h s -> Inv h s -> state_labels h s = Some labels ->
  phase_statistics h s b = Some (h', s') ->
  state_labels h' s' = Some labels /\
  forall k c, nth_error (state_clusters h' s') k = Some c ->
    exists ml ecl meanl ti cc ic ld,
      get h' c = Some (OCluster ml (Some ecl) (Some meanl) ti cc ic ld) /\
      get h' ecl = Some (OArr (cov_token b (positions labels k))) /\
      get h' meanl = Some (OArr (2 :: positions labels k)) /\
      get_list h' ml = positions labels k /\ positions labels k <> [].
Proof. exact statistics_rows. Qed.
Print Assumptions C12_rows_step.

(* the optimise phase hands on those very covariance / mean objects unchanged and only adds the
   MRF fields: what is optimised for cluster k is what was computed for cluster k *)
Theorem C12_optimise_keeps_statistics : forall K m la ba ops h s mrf h' s',
  run_ops (init K m la ba) ops = Some (h, s) -> phase_optimise h s mrf = (h', s') ->
  state_labels h' s' = state_labels h s /\
  forall k c, nth_error (state_clusters h s) k = Some c ->
    exists c', nth_error (state_clusters h' s') k = Some c' /\
      forall mem ec mean ti cc ic ld, get h c = Some (OCluster mem ec mean ti cc ic ld) ->
        exists mem' ti' cc' ld', get h' c' = Some (OCluster mem' ec mean (Some ti') (Some cc') ic ld') /\
          get_list h' mem' = get_list h mem /\
          get h' ti' = Some (OArr (3 :: mrf k)) /\ (forall l, ec = Some l -> get h' l = get h l) /\ (forall l, mean = Some l -> get h' l = get h l).
Proof. exact optimise_keeps_statistics_reachable. Qed.
Print Assumptions C12_optimise_keeps_statistics.

(* the covariance divides by the number of windows for the biased estimator, by one less otherwise
   (a single window always gets the biased estimate, see repair 94bb091) *)
Theorem C12_estimator : forall n, divisor true n = n /\ (2 <= n -> divisor false n = n - 1) /\ divisor false 1 = 1.
Proof.
  intros n. unfold divisor. split; [reflexivity|]. split; [|reflexivity].
  intros H. destruct (Nat.ltb_spec n 2) as [H1|H1]; [exfalso; apply (Nat.lt_irrefl 2); eapply Nat.le_lt_trans; eassumption|reflexivity].
Qed.
Print Assumptions C12_estimator.
