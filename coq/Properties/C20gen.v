(* C20 on the control flow of main_loop.fit_stacked_data AS TRANSLATED from /repo's current source (skeleton mode of
   vcheck/py2coq.py, Gen/G_main_loop.v, regenerated on every run).  Whatever any phase does - return or raise, in any
   round, depending on anything that happened before - once the task pool exists the call ends by releasing it:
   close; join when it returns, terminate; join when it raises, and the exception that leaves is the one that was raised.
   Moving a call out of the try block, dropping the handler or the join changes the generated text and breaks this proof.
   Statements only; proofs in Proofs/GenEquivML.v. *)
From Coq Require Import String.
From Coq Require Import ZArith List Bool Arith Lia.
From Ticc Require Import Gen.PyRt Gen.PySkel Gen.G_main_loop Model.MainLoopV Proofs.GenEquivML.
Import ListNotations.

Section C20gen.
  Variable V : Type.
  Variable vnone : V.
  Variable vint : Z -> V.
  Variable as_int : V -> option Z.
  Variable veq : V -> V -> bool.
  Variable getattr : V -> string -> V.
  Variable oracle : list (event V) -> string -> list V -> res V.
  Notation gfit := (g_fit_stacked_data V vnone as_int veq getattr oracle).

  Theorem C20_code_pool_released : forall (user_args data : V) r log,
    (forall l f args, (f = f_pool \/ f = f_terminate \/ f = f_join \/ f = f_close) -> exists v, oracle l f args = Ret v) ->
    gfit user_args data [] = (r, log) ->
    (1 <= count_fn V f_pool log)%nat ->
    exists pre p,
      log = pre ++ [Ev (if (match r with Ret _ => true | Raise _ => false end) then f_close else f_terminate) [p]; Ev f_join [p]]
      /\ count_fn V f_pool pre = 1%nat
      /\ count_fn V f_close pre = 0%nat /\ count_fn V f_terminate pre = 0%nat /\ count_fn V f_join pre = 0%nat.
  Proof.
    intros ua data r log Hp H Hc. rewrite (g_fit_stacked_data_eq V vnone as_int veq getattr oracle) in H.
    exact (fit_pool_released V vnone as_int veq getattr oracle ua data r log Hp H Hc).
  Qed.

  (* the translated code is the model *)
  Theorem C20_code_is_model : forall (user_args data : V) (log : list (event V)),
    gfit user_args data log = fitV V vnone as_int veq getattr oracle user_args data log.
  Proof. exact (g_fit_stacked_data_eq V vnone as_int veq getattr oracle). Qed.
End C20gen.
Print Assumptions C20_code_pool_released.
Print Assumptions C20_code_is_model.

(* ---- the two front ends AS TRANSLATED in skeleton mode (Gen/G_front_single.v, Gen/G_front_joint.v; facts:
   Proofs/GenEquivFE.v): given the other front end's kind of input - the stacking step then raises AttributeError
   (single) / IndexError (joint) - the call raises TypeError and the main loop is never entered; an error of the main loop
   surfaces as itself ---- *)
From Ticc Require Import Gen.G_front_single Gen.G_front_joint Proofs.GenEquivFE.
Theorem C20_code_single_wrong_input : forall (V : Type) (getattr : V -> string -> V)
    (oracle : list (event V) -> string -> list V -> res V)
    (data W K lam beta lim eps procs m biased params : V) (log : list (event V)),
  oracle log f_args [W; K; lam; beta; lim; eps; procs; m; biased] = Ret params ->
  oracle (log ++ [Ev f_args [W; K; lam; beta; lim; eps; procs; m; biased]])%list f_stack [data; W] = Raise "AttributeError"%string ->
  g_ticc_labels V getattr oracle data W K lam beta lim eps procs m biased log
  = (Raise "TypeError"%string, (log ++ [Ev f_args [W; K; lam; beta; lim; eps; procs; m; biased]; Ev f_stack [data; W]])%list).
Proof. exact single_wrong_input. Qed.
Print Assumptions C20_code_single_wrong_input.

Theorem C20_code_joint_wrong_input : forall (V : Type) (veq : V -> V -> bool) (getattr : V -> string -> V)
    (oracle : list (event V) -> string -> list V -> res V)
    (data W K lam beta lim eps procs m biased lst : V) (log : list (event V)),
  oracle log "list"%string [data] = Ret lst ->
  oracle (log ++ [Ev "list"%string [data]])%list f_stack_multi [lst; W] = Raise "IndexError"%string ->
  g_ticc_joint_labels V veq getattr oracle data W K lam beta lim eps procs m biased log
  = (Raise "TypeError"%string, (log ++ [Ev "list"%string [data]; Ev f_stack_multi [lst; W]])%list).
Proof. exact joint_wrong_input. Qed.
Print Assumptions C20_code_joint_wrong_input.

Theorem C20_code_single_main_loop_error_surfaces : forall (V : Type) (getattr : V -> string -> V)
    (oracle : list (event V) -> string -> list V -> res V)
    (data W K lam beta lim eps procs m biased params stacked : V) (e : string) (log : list (event V)),
  oracle log f_args [W; K; lam; beta; lim; eps; procs; m; biased] = Ret params ->
  oracle (log ++ [Ev f_args [W; K; lam; beta; lim; eps; procs; m; biased]])%list f_stack [data; W] = Ret stacked ->
  oracle (log ++ [Ev f_args [W; K; lam; beta; lim; eps; procs; m; biased]; Ev f_stack [data; W]])%list f_fit [params; stacked] = Raise e ->
  fst (g_ticc_labels V getattr oracle data W K lam beta lim eps procs m biased log) = Raise e.
Proof. exact single_fit_error_propagates. Qed.
Print Assumptions C20_code_single_main_loop_error_surfaces.
