(* C01 - label assignment returns a globally minimum-cost label sequence.
   Statements only.  The model is Model/Viterbi.v instantiated at the reals
   (Rltb is the decidable strict order); the same model text instantiated at
   binary64 is what the correspondence compares bit for bit with the kernel. *)
From Coq Require Import List Arith NArith Reals Lra PrimFloat.
Import ListNotations.
From Ticc Require Import Model.Viterbi Model.InstR Model.InstF Proofs.ViterbiShape Proofs.ViterbiR Corr.RunViterbi.
From Ticc Require Proofs.ViterbiZ.
From Coq Require Import ZArith.

(* exactly one label per point, every label an integer in [0,K) - for EVERY
   carrier and comparison (so also for binary64 with NaN / inf / -0) *)
Theorem C01_shape : forall (A : Type) (zero : A) (add sub : A -> A -> A) (ltb : A -> A -> bool)
    (K : nat) (rows : list (list A)) (betas : list A),
  (0 < K)%nat -> rows <> [] -> wf_rows K rows ->
  length (fst (viterbi zero add sub ltb K rows betas)) = length rows /\
  wf_path K (fst (viterbi zero add sub ltb K rows betas)).
Proof. intros. apply viterbi_shape; assumption. Qed.
Print Assumptions C01_shape.

(* the reported cost is the total cost of exactly the returned sequence *)
Theorem C01_cost_is_path_cost : forall (K : nat) (rows : list (list R)) (betas : list R),
  (0 < K)%nat -> (N.of_nat K <= 65536)%N -> rows <> [] -> wf_rows K rows -> Forall (fun b => 0 <= b)%R betas ->
  snd (viterbi 0%R Rplus Rminus Rltb K rows betas)
  = pcost 0%R Rplus rows betas (fst (viterbi 0%R Rplus Rminus Rltb K rows betas)).
Proof. intros. apply viterbi_cost_is_path_cost; assumption. Qed.
Print Assumptions C01_cost_is_path_cost.

(* ... and it is the minimum over all K^T label sequences *)
Theorem C01_optimal : forall (K : nat) (rows : list (list R)) (betas : list R),
  (0 < K)%nat -> (N.of_nat K <= 65536)%N -> rows <> [] -> wf_rows K rows -> Forall (fun b => 0 <= b)%R betas ->
  forall path : list nat, length path = length rows -> wf_path K path ->
  (snd (viterbi 0%R Rplus Rminus Rltb K rows betas) <= pcost 0%R Rplus rows betas path)%R.
Proof. intros. apply viterbi_optimal; assumption. Qed.
Print Assumptions C01_optimal.

(* the cost being minimised is: chosen assignment costs + beta_i for every
   consecutive pair (i,i+1) that carries different labels *)
Theorem C01_cost_definition : forall (rows : list (list R)) (betas : list R) (path : list nat),
  length path = length rows ->
  pcost 0%R Rplus rows betas path
  = (assign_sum 0%R Rplus rows path + switch_sum 0%R Rplus betas path)%R.
Proof. intros. apply pcost_is_assign_plus_switch; assumption. Qed.
Print Assumptions C01_cost_definition.

(* one number beta = the constant vector; optimality for the scalar form *)
Theorem C01_scalar : forall (K : nat) (rows : list (list R)) (beta : R),
  (0 < K)%nat -> (N.of_nat K <= 65536)%N -> rows <> [] -> wf_rows K rows -> (0 <= beta)%R ->
  forall path : list nat, length path = length rows -> wf_path K path ->
  (snd (viterbi_scalar 0%R Rplus Rminus Rltb K rows beta)
   <= pcost 0%R Rplus rows (repeat beta (length rows)) path)%R.
Proof.
  intros K rows beta HK HK16 Hne Hwf Hb path Hl Hp. rewrite viterbi_scalar_is_vector.
  apply viterbi_optimal; try assumption. apply Forall_repeat. exact Hb.
Qed.
Print Assumptions C01_scalar.

(* the same two theorems over the integers (an executable carrier) *)
Theorem C01_optimal_Z : forall (K : nat) (rows : list (list Z)) (betas : list Z),
  (0 < K)%nat -> (N.of_nat K <= 65536)%N -> rows <> [] -> wf_rows K rows -> Forall (fun b => 0 <= b)%Z betas ->
  snd (viterbi 0%Z Z.add Z.sub Z.ltb K rows betas) = pcost 0%Z Z.add rows betas (fst (viterbi 0%Z Z.add Z.sub Z.ltb K rows betas)) /\
  forall path : list nat, length path = length rows -> wf_path K path ->
  (snd (viterbi 0%Z Z.add Z.sub Z.ltb K rows betas) <= pcost 0%Z Z.add rows betas path)%Z.
Proof.
  intros K rows betas HK HK16 Hne Hwf Hb. split.
  - apply ViterbiZ.viterbi_cost_is_path_cost; assumption.
  - intros path Hl Hp. apply ViterbiZ.viterbi_optimal; assumption.
Qed.
Print Assumptions C01_optimal_Z.

(* ... on which theorem and computation can be put side by side: for a 3x2 table with a tie the
   reported cost is the cost of the returned labels and no larger than the cost of any of the 8 paths *)
Example C01_example_Z :
  let rows := [[1; 1]; [0; 2]; [3; 0]]%Z in let betas := [1; 1; 1]%Z in
  let r := viterbi 0%Z Z.add Z.sub Z.ltb 2 rows betas in
  r = ([0; 0; 1]%nat, 2%Z) /\
  forallb (fun p => Z.leb (snd r) (pcost 0%Z Z.add rows betas p))
          [[0;0;0];[0;0;1];[0;1;0];[0;1;1];[1;0;0];[1;0;1];[1;1;0];[1;1;1]]%nat = true.
Proof. vm_compute. split; reflexivity. Qed.
Print Assumptions C01_example_Z.

(* why beta >= 0 is a hypothesis: with beta = -1 the kernel reports a cost that
   is not the cost of the labels it returns (binary64 instance, computed) *)
Example C01_negative_beta_refuted :
  let rows := [[0; 0]; [0; 0]]%float in
  let r := viterbiF 2 rows [(-1)%float; (-1)%float] in
  fst r = [0; 0]%nat /\ feqb (snd r) (-1)%float = true /\ feqb (pcostF rows [(-1)%float; (-1)%float] (fst r)) 0%float = true.
Proof. vm_compute. repeat split. Qed.
Print Assumptions C01_negative_beta_refuted.

(* why K <= 65536 is a hypothesis: the path matrix is uint16 *)
Example C01_uint16_wraps : forall n : nat, (N.of_nat n = 65536)%N -> wrap16 n = 0%nat.
Proof. intros n H. unfold wrap16. rewrite H. reflexivity. Qed.
Print Assumptions C01_uint16_wraps.

(* non-vacuity: a 3x2 table with a tie satisfies the hypotheses, and the
   binary64 instance returns an optimal labelling for it *)
Example C01_example :
  let rows := [[1; 1]; [0; 2]; [3; 0]]%R in
  (0 < 2)%nat /\ (N.of_nat 2 <= 65536)%N /\ rows <> [] /\ wf_rows 2 rows /\ Forall (fun b => 0 <= b)%R [1; 1; 1]%R.
Proof.
  cbv zeta. split; [auto|]. split; [vm_compute; discriminate|]. split; [discriminate|].
  split; [repeat constructor|repeat constructor; lra].
Qed.
Print Assumptions C01_example.

Example C01_example_run :
  viterbiF 2 [[1; 1]; [0; 2]; [3; 0]]%float [1; 1; 1]%float = ([0; 0; 1]%nat, 2%float).
Proof. vm_compute. reflexivity. Qed.
Print Assumptions C01_example_run.
