(* C05 - reported log-likelihoods are exact Gaussian log-densities (PARTIAL).
   Proved: the formula is the log-density; the table uses, for cell (p,c), point p and exactly
   cluster c's quantities.  NOT proved: accuracy of the BLAS quadratic form and of LAPACK's
   slogdet (oracles); a refutation of the pre-repair log(det) is in C03. *)
From Coq Require Import List Arith Reals.
Import ListNotations.
From Ticc Require Import Model.Accounting Proofs.AccountingP.

(* 0.5*(log det Theta - q - n log 2pi) is the log of the N(mu, Theta^-1) density at a point whose
   quadratic form is q, for every D = det Theta > 0 and every dimension n = NW *)
Theorem C05_density : forall (D q : R) (n : nat), (0 < D)%R ->
  ln (sqrt (D / (2 * PI) ^ n) * exp (- q / 2)) = llR (ln D) q (INR n * ln (2 * PI)).
Proof. exact ll_is_log_density. Qed.
Print Assumptions C05_density.

(* no cross-talk in the table: any number of points / clusters, any carrier *)
Theorem C05_table_plumbing : forall (A : Type) (half : A) (sub mul : A -> A -> A) (of_nat : nat -> A)
    (T K nw : nat) (log2pi : A) (logdet : nat -> A) (quad : nat -> nat -> A) (p c : nat) (d : A),
  p < T -> c < K ->
  nth c (nth p (ll_table half sub mul of_nat T K nw log2pi logdet quad) []) d
  = ll half sub mul (logdet c) (quad p c) (nw_log_2pi mul of_nat nw log2pi) /\
  length (ll_table half sub mul of_nat T K nw log2pi logdet quad) = T.
Proof. exact (@ll_table_cell). Qed.
Print Assumptions C05_table_plumbing.

(* the per-point values reported in the result are the values of each point under ITS cluster:
   bucket k holds exactly the values of the points labelled k, in point order *)
Theorem C05_result_values : forall (A : Type) (K : nat) (labels : list nat) (val : nat -> A) (k : nat) (d : list A),
  k < K -> nth k (buckets K labels val) d = map val (Repop.members labels k).
Proof. exact (@buckets_cluster). Qed.
Print Assumptions C05_result_values.
