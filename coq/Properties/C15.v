(* C15 - Numba acceleration is semantically transparent (PARTIAL: the Numba compiler itself is
   not modelled; "each execution mode = the model" is established by the correspondence only).
   Statements only. *)
From Coq Require Import List Arith Permutation.
Import ListNotations.
From Ticc Require Import Model.Sched Proofs.SchedP.

(* the parallel likelihood loop writes disjoint cells from immutable inputs: the table is the
   same for every order of the iterations, hence for every thread count and chunking *)
Theorem C15_prange_order_independent : forall (Cell : Type) (g : nat -> nat -> Cell) (K T : nat) (iters : list nat),
  Permutation iters (seq 0 T) ->
  read_table (run_iters g K iters) T = map (fun p => Some (map (g p) (seq 0 K))) (seq 0 T).
Proof. exact (@prange_order_independent). Qed.
Print Assumptions C15_prange_order_independent.

Theorem C15_any_two_orders : forall (Cell : Type) (g : nat -> nat -> Cell) (K T : nat) (i1 i2 : list nat),
  Permutation i1 (seq 0 T) -> Permutation i2 (seq 0 T) ->
  read_table (run_iters g K i1) T = read_table (run_iters g K i2) T.
Proof. exact (@prange_any_two_orders). Qed.
Print Assumptions C15_any_two_orders.

Example C15_example : read_table (run_iters (fun p c => p * 10 + c) 2 [2; 0; 1]) 3
                      = [Some [0; 1]; Some [10; 11]; Some [20; 21]].
Proof. reflexivity. Qed.
Print Assumptions C15_example.
