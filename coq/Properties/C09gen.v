(* C09 on the control flow of main_loop.fit_stacked_data AS TRANSLATED from /repo's current source by the skeleton mode
   of vcheck/py2coq.py (Gen/G_main_loop.v, regenerated on every run; every callee is an uninterpreted oracle that may
   return or raise and may depend on the whole history of calls; semantic table Gen/PySkel.v).  Proofs/GenEquivML.v
   proves the translated code equal to the hand model Model/MainLoopV.fitV and the claims below on that model; here they
   are stated for the translated code itself.  A change of the loop structure - the bound, the position of the
   convergence test, the repopulation gate, the order of the phases - changes the generated text and breaks these proofs.
   Statements only. *)
From Coq Require Import String.
From Coq Require Import ZArith List Bool Arith Lia.
From Ticc Require Import Gen.PyRt Gen.PySkel Gen.G_main_loop Model.MainLoopV Proofs.GenEquivML.
Import ListNotations.

Section C09gen.
  Variable V : Type.
  Variable vnone : V.
  Variable vint : Z -> V.
  Variable as_int : V -> option Z.
  Variable veq : V -> V -> bool.
  Variable getattr : V -> string -> V.
  Variable oracle : list (event V) -> string -> list V -> res V.
  Notation gfit := (g_fit_stacked_data V vnone as_int veq getattr oracle).

  (* in every round the calls are (repopulate, from the second round on) -> statistics -> optimise -> relabel, in this
     order, cut short only where a call raised; in particular nothing repopulates before the first relabelling *)
  Theorem C09_code_phase_order : forall (user_args data : V) r log,
    gfit user_args data [] = (r, log) -> phases_ok false 1%nat (phases V log) = true.
  Proof.
    intros ua data r log H. rewrite (g_fit_stacked_data_eq V vnone as_int veq getattr oracle) in H.
    exact (fit_phase_order V vnone as_int veq getattr oracle ua data r log H).
  Qed.

  (* at least one and at most iteration_limit relabellings *)
  Theorem C09_code_rounds_bound : forall (user_args data : V) r log lim,
    as_int (getattr user_args "iteration_limit") = Some lim ->
    (forall st, as_int (getattr (getattr st "arguments") "iteration_limit") = Some lim) ->
    gfit user_args data [] = (r, log) ->
    (Z.of_nat (count_fn V f_label log) <= Z.max lim 0)%Z /\
    ((exists st, r = Ret st) -> (1 <= count_fn V f_label log)%nat).
  Proof.
    intros ua data r log lim H1 H2 H. rewrite (g_fit_stacked_data_eq V vnone as_int veq getattr oracle) in H.
    exact (fit_rounds_bound V vnone as_int veq getattr oracle ua data r log lim H1 H2 H).
  Qed.

  (* a non-positive limit is rejected before anything is called *)
  Theorem C09_code_rejects_nonpositive_limit : forall (user_args data : V) lim,
    as_int (getattr user_args "iteration_limit") = Some lim -> (lim <= 0)%Z ->
    gfit user_args data [] = (Raise "AssertionError"%string, []).
  Proof.
    intros ua data lim H1 H2. rewrite (g_fit_stacked_data_eq V vnone as_int veq getattr oracle).
    exact (fit_rejects_nonpositive_limit V vnone as_int veq getattr oracle ua data lim H1 H2).
  Qed.
End C09gen.
Print Assumptions C09_code_phase_order.
Print Assumptions C09_code_rounds_bound.
Print Assumptions C09_code_rejects_nonpositive_limit.

(* ---- the LABELLING STEP AS TRANSLATED in skeleton mode (Gen/G_la_predict.v; facts: Proofs/GenEquivPH.v): the labelling kernel is
   called on the NEGATED likelihood table of the given model and data with the model's own switching cost (a real number passed
   through float, anything else as it is), and the state returned carries, on a copy of the given one, the labels [0] and the
   cost [1] OF THAT SAME kernel answer - what the step reports is what it scored ---- *)
From Ticc Require Import Gen.PySkel Gen.G_la_predict Proofs.GenEquivPH.
Section SkelPH09.
  Local Open Scope string_scope.
  Variable V : Type.
  Variable vnone : V.
  Variable vint : Z -> V.
  Variable as_int : V -> option Z.
  Variable veq : V -> V -> bool.
  Variable getattr : V -> string -> V.
  Variable truthy : V -> bool.
  Variable is_none : V -> bool.
  Variables vtrue vfalse : V.
  Variable as_list : V -> list V.
  Variable vglobal : string -> V.
  Variable oracle : list (event V) -> string -> list V -> res V.
  Theorem C09_code_relabel_plumbing (model data r : V) (log log' : list (event V)) :
    g_predict_cluster_labels V getattr truthy vglobal oracle model data log = (Ret r, log') ->
    let beta := getattr (getattr model "arguments") "label_switching_cost" in
    exists table neg isr beta' lab m0 cl m1 m2,
      let pre := (log ++ [Ev f_table [model; data]; Ev "op:neg" [table];
                          Ev "isinstance" [beta; vglobal "numbers.Real"]]
                      ++ (if truthy isr then [Ev "float" [beta]] else []))%list in
      log' = (pre ++ [Ev f_assign [neg; beta'];
                      Ev "method:shallow_copy" [model];
                      Ev f_deep_new [m0];
                      Ev "setattr:clusters" [m0; cl];
                      Ev "setattr:point_labels" [m1; getattr lab "[0]"];
                      Ev "setattr:label_assignment_cost" [m2; getattr lab "[1]"]])%list /\
      oracle log f_table [model; data] = Ret table /\
      oracle (log ++ [Ev f_table [model; data]])%list "op:neg" [table] = Ret neg /\
      oracle (log ++ [Ev f_table [model; data]; Ev "op:neg" [table]])%list
             "isinstance" [beta; vglobal "numbers.Real"] = Ret isr /\
      (if truthy isr
       then oracle (log ++ [Ev f_table [model; data]; Ev "op:neg" [table];
                            Ev "isinstance" [beta; vglobal "numbers.Real"]])%list "float" [beta] = Ret beta'
       else beta' = beta) /\
      oracle pre f_assign [neg; beta'] = Ret lab /\
      oracle (pre ++ [Ev f_assign [neg; beta'];
                      Ev "method:shallow_copy" [model];
                      Ev f_deep_new [m0];
                      Ev "setattr:clusters" [m0; cl];
                      Ev "setattr:point_labels" [m1; getattr lab "[0]"]])%list
             "setattr:label_assignment_cost" [m2; getattr lab "[1]"] = Ret r.
  Proof. intros; eapply predict_returns; eassumption. Qed.
End SkelPH09.
Print Assumptions C09_code_relabel_plumbing.

(* ---- the OBSERVATION HOOKS AS TRANSLATED (src/fast_ticc/_verif.py, Gen/G_vh_*.v; facts: Proofs/GenEquivRM.v): with the guard off a hook makes
   NO call at all and returns None; with it on, it snapshots the listener list and calls each listener once, in order, with the
   event and the payload, and returns None - it hands nothing back into the library ---- *)
From Ticc Require Import Gen.PySkel Gen.G_vh_emit Gen.G_vh_add Gen.G_vh_clear Proofs.GenEquivRM.
Section SkelRM09.
  Local Open Scope string_scope.
  Variable V : Type.
  Variable vnone : V.
  Variable vint : Z -> V.
  Variable as_int : V -> option Z.
  Variable veq : V -> V -> bool.
  Variable getattr : V -> string -> V.
  Variable truthy : V -> bool.
  Variable is_none : V -> bool.
  Variables vtrue vfalse : V.
  Variable as_list : V -> list V.
  Variable vglobal : string -> V.
  Variable oracle : list (event V) -> string -> list V -> res V.
  Theorem C09_code_hook_disabled (evt payload r : V) (log log' : list (event V)) :
    truthy (vglobal "ENABLED") = false ->
    g_emit V vnone truthy as_list vglobal oracle evt payload log = (Ret r, log') ->
    log' = log /\ r = vnone.
  Proof. intros; eapply emit_disabled; eassumption. Qed.
  Theorem C09_code_hook_enabled (evt payload r : V) (log log' : list (event V)) :
    truthy (vglobal "ENABLED") = true ->
    g_emit V vnone truthy as_list vglobal oracle evt payload log = (Ret r, log') ->
    exists ls,
      let snap := Ev "list" [vglobal "_LISTENERS"] in
      let evs := map (fun l => Ev "apply" [l; evt; payload]) (as_list ls) in
      log' = (log ++ snap :: evs)%list /\
      length evs = length (as_list ls) /\
      oracle log "list" [vglobal "_LISTENERS"] = Ret ls /\
      (forall k, (k < length (as_list ls))%nat ->
         exists a, oracle (log ++ snap :: firstn k evs)%list "apply" [nth k (as_list ls) vnone; evt; payload] = Ret a) /\
      r = vnone.
  Proof. intros; eapply emit_enabled; eassumption. Qed.
  Theorem C09_code_hook_add (listener r : V) (log log' : list (event V)) :
    g_add_listener V vnone oracle listener log = (Ret r, log') ->
    log' = (log ++ [Ev "_LISTENERS.append" [listener]])%list /\
    (exists a, oracle log "_LISTENERS.append" [listener] = Ret a) /\
    r = vnone.
  Proof. intros; eapply add_listener_returns; eassumption. Qed.
  Theorem C09_code_hook_clear (r : V) (log log' : list (event V)) :
    g_clear_listeners V vnone oracle log = (Ret r, log') ->
    log' = (log ++ [Ev f_clear []])%list /\
    (exists a, oracle log f_clear [] = Ret a) /\
    r = vnone.
  Proof. intros; eapply clear_listeners_returns; eassumption. Qed.
End SkelRM09.
Print Assumptions C09_code_hook_disabled.
Print Assumptions C09_code_hook_enabled.
Print Assumptions C09_code_hook_add.
Print Assumptions C09_code_hook_clear.

(* ---- fit_stacked_data AS A WHOLE (Gen/G_main_loop_full.v, translated independently of its two parts) is its translated prefix - the
   loop, returning the final state - followed by its translated suffix - the result assembly - for every log and whatever the
   oracles answer (Proofs/GenEquivMF.v): the facts about the two parts (C09_code_*, C06_code_result_fields, C04_code_result_labels)
   are facts about the function, and the place where the translator cuts it is not trusted ---- *)
From Ticc Require Import Gen.G_main_loop Gen.G_main_loop_suffix Gen.G_main_loop_full Proofs.GenEquivMF.
Theorem C09_code_whole_is_loop_then_assembly : forall (V : Type) (vnone : V) (vint : Z -> V) (as_int : V -> option Z) (veq : V -> V -> bool)
    (getattr : V -> string -> V) (oracle : list (event V) -> string -> list V -> res V) (user_args data : V) (log : list (event V)),
  g_fit_stacked_data_full V vnone vint as_int veq getattr oracle user_args data log =
  mbind (g_fit_stacked_data V vnone as_int veq getattr oracle user_args data)
        (fun st => g_fit_stacked_data_result V vint as_int getattr oracle st data (getattr (getattr data "shape"%string) "[0]"%string)) log.
Proof. exact full_is_prefix_then_suffix. Qed.
Print Assumptions C09_code_whole_is_loop_then_assembly.

Theorem C09_code_whole_returns_split : forall (V : Type) (vnone : V) (vint : Z -> V) (as_int : V -> option Z) (veq : V -> V -> bool)
    (getattr : V -> string -> V) (oracle : list (event V) -> string -> list V -> res V) (user_args data : V) (log log' : list (event V)) (r : V),
  g_fit_stacked_data_full V vnone vint as_int veq getattr oracle user_args data log = (Ret r, log') ->
  exists (st : V) (log1 : list (event V)),
    g_fit_stacked_data V vnone as_int veq getattr oracle user_args data log = (Ret st, log1) /\
    g_fit_stacked_data_result V vint as_int getattr oracle st data (getattr (getattr data "shape"%string) "[0]"%string) log1 = (Ret r, log').
Proof. exact full_returns_split. Qed.
Print Assumptions C09_code_whole_returns_split.

(* ---- the LABELLING STEP's control skeleton INTERPRETED by the hand model of the kernel (Proofs/InterpPredict.v; any carrier, any
   likelihood table function): as translated, predict_cluster_labels returns the state it was given with exactly two fields replaced -
   the labels and the cost that Model/Viterbi computes on the NEGATED table of THAT state and THAT data with the state's own switching
   cost(s).  Over the reals, by C01_optimal: the stored labelling is a minimum-cost labelling of that table and the stored cost is its
   cost.  (The kernel as translated is that model kernel: C01_code_*.)  What the step reports is what it scored, and it is optimal. ---- *)
From Coq Require Import Reals.
From Ticc Require Import Model.Viterbi Model.InstR Gen.G_la_predict Proofs.InterpPredict.
Theorem C09_code_relabel_interpreted : forall (A : Type) (zero : A) (add sub : A -> A -> A) (ltb : A -> A -> bool) (neg : A -> A)
    (St Dat : Type) (table_of : St -> Dat -> list (list A)) (K : nat) (s : St) (d : Dat) (lab0 : option (list nat)) (cost0 : option A) (bs : list A),
  exists log',
    g_predict_cluster_labels (val A St Dat) (@InterpPredict.getattr A St Dat) (@InterpPredict.truthy A St Dat) (@InterpPredict.vglobal A St Dat)
        (oracle_model A zero add sub ltb neg St Dat table_of K) (VModel s (VVector bs) lab0 cost0) (VData d) []
    = (Ret (let r := viterbi zero add sub ltb K (map (map neg) (table_of s d)) bs in VModel s (VVector bs) (Some (fst r)) (Some (snd r))), log').
Proof. intros. apply predict_skeleton_vector. Qed.
Print Assumptions C09_code_relabel_interpreted.

Theorem C09_code_relabel_optimal : forall (St Dat : Type) (table_of : St -> Dat -> list (list R)) (K : nat)
    (s : St) (d : Dat) (lab0 : option (list nat)) (cost0 : option R) (betas : list R),
  let rows := map (map Ropp) (table_of s d) in
  (0 < K)%nat -> (N.of_nat K <= 65536)%N -> rows <> [] -> wf_rows K rows -> Forall (fun b => 0 <= b)%R betas ->
  exists (log' : list (event (val R St Dat))) (labels : list nat) (cost : R),
    g_predict_cluster_labels (val R St Dat) (@InterpPredict.getattr R St Dat) (@InterpPredict.truthy R St Dat) (@InterpPredict.vglobal R St Dat)
        (oracle_model R 0%R Rplus Rminus Rltb Ropp St Dat table_of K)
        (VModel s (VVector betas) lab0 cost0) (VData d) []
    = (Ret (VModel s (VVector betas) (Some labels) (Some cost)), log') /\
    length labels = length rows /\ wf_path K labels /\
    cost = pcost 0%R Rplus rows betas labels /\
    forall path : list nat, length path = length rows -> wf_path K path ->
      (cost <= pcost 0%R Rplus rows betas path)%R.
Proof. exact predict_skeleton_optimal_R. Qed.
Print Assumptions C09_code_relabel_optimal.
