(* C09 on the control flow of main_loop.fit_stacked_data AS TRANSLATED from /repo's current source by the skeleton mode
   of vcheck/py2coq.py (Gen/G_main_loop.v, regenerated on every run; every callee is an uninterpreted oracle that may
   return or raise and may depend on the whole history of calls; semantic table Gen/PySkel.v).  Proofs/GenEquivML.v
   proves the translated code equal to the hand model Model/MainLoopV.fitV and the claims below on that model; here they
   are stated for the translated code itself.  A change of the loop structure - the bound, the position of the
   convergence test, the repopulation gate, the order of the phases - changes the generated text and breaks these proofs.
   Statements only. *)
From Coq Require Import String.
From Coq Require Import ZArith List Bool Arith Lia.
From Ticc Require Import Gen.PyRt Gen.PySkel Gen.G_main_loop Model.MainLoopV Proofs.GenEquivML.
Import ListNotations.

Section C09gen.
  Variable V : Type.
  Variable vnone : V.
  Variable vint : Z -> V.
  Variable as_int : V -> option Z.
  Variable veq : V -> V -> bool.
  Variable getattr : V -> string -> V.
  Variable oracle : list (event V) -> string -> list V -> res V.
  Notation gfit := (g_fit_stacked_data V vnone as_int veq getattr oracle).

  (* in every round the calls are (repopulate, from the second round on) -> statistics -> optimise -> relabel, in this
     order, cut short only where a call raised; in particular nothing repopulates before the first relabelling *)
  Theorem C09_code_phase_order : forall (user_args data : V) r log,
    gfit user_args data [] = (r, log) -> phases_ok false 1%nat (phases V log) = true.
  Proof.
    intros ua data r log H. rewrite (g_fit_stacked_data_eq V vnone as_int veq getattr oracle) in H.
    exact (fit_phase_order V vnone as_int veq getattr oracle ua data r log H).
  Qed.

  (* at least one and at most iteration_limit relabellings *)
  Theorem C09_code_rounds_bound : forall (user_args data : V) r log lim,
    as_int (getattr user_args "iteration_limit") = Some lim ->
    (forall st, as_int (getattr (getattr st "arguments") "iteration_limit") = Some lim) ->
    gfit user_args data [] = (r, log) ->
    (Z.of_nat (count_fn V f_label log) <= Z.max lim 0)%Z /\
    ((exists st, r = Ret st) -> (1 <= count_fn V f_label log)%nat).
  Proof.
    intros ua data r log lim H1 H2 H. rewrite (g_fit_stacked_data_eq V vnone as_int veq getattr oracle) in H.
    exact (fit_rounds_bound V vnone as_int veq getattr oracle ua data r log lim H1 H2 H).
  Qed.

  (* a non-positive limit is rejected before anything is called *)
  Theorem C09_code_rejects_nonpositive_limit : forall (user_args data : V) lim,
    as_int (getattr user_args "iteration_limit") = Some lim -> (lim <= 0)%Z ->
    gfit user_args data [] = (Raise "AssertionError"%string, []).
  Proof.
    intros ua data lim H1 H2. rewrite (g_fit_stacked_data_eq V vnone as_int veq getattr oracle).
    exact (fit_rejects_nonpositive_limit V vnone as_int veq getattr oracle ua data lim H1 H2).
  Qed.
End C09gen.
Print Assumptions C09_code_phase_order.
Print Assumptions C09_code_rounds_bound.
Print Assumptions C09_code_rejects_nonpositive_limit.
