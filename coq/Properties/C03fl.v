(* C03 on IEEE binary64 (Coq's primitive floats): for the default step parameter rho = 1, the eigenvalue the repaired
   X update assigns is a STRICTLY POSITIVE FINITE double for every finite input of magnitude below 2^500 - the
   floating-point counterpart of C03_theta_positive (which is over R), proved through Flocq
   (Proofs/FloatTheta.v: every intermediate stays between two powers of two, so rounding can neither overflow
   nor flush to zero).  The pre-repair formula fails this statement (C03_theta_legacy_refuted: exactly 0 at d = -1e9).
   Statements only.  Depends on the standard library's specification axioms of the primitive floats and, through
   Flocq's real semantics, on the real-number axioms (named by Print Assumptions below). *)
From Coq Require Import PrimFloat.
From Ticc Require Import Corr.RunAdmm Proofs.FloatTheta.

Theorem C03_theta_positive_binary64 : forall d : float,
  PrimFloat.is_finite d = true ->
  PrimFloat.ltb (PrimFloat.abs d) 0x1p+500%float = true ->
  PrimFloat.ltb 0%float (thetaF 1%float d) = true /\ PrimFloat.is_finite (thetaF 1%float d) = true.
Proof. exact thetaF_positive. Qed.
Print Assumptions C03_theta_positive_binary64.
