(* C03 / C02 on admm/solver.x_update_prox AS TRANSLATED from /repo's current source by vcheck/py2coq.py (Gen/G_solver.v,
   regenerated on every run; equivalence with the model: Proofs/GenEquivSV.v).  np.linalg.eigh, the matrix products,
   np.diag and compress_matrix are uninterpreted symbols of the translation.  Statements only. *)
From Coq Require Import String.
From Coq Require Import List Arith ZArith Reals Lra.
Import ListNotations.
From Ticc Require Import Gen.PyRt Gen.G_solver Model.Viterbi Model.Admm Model.InstR Proofs.AdmmP Proofs.GenEquivSV.

(* the translated X update IS: eigendecompose rho (Z - U) - S, map every eigenvalue through the model's scalar map
   (the repaired, cancellation-free form), reassemble, scale by 1/(2 rho), compress - for every carrier *)
Theorem C03_code_x_update : forall (F : Type) (zero one two four : F) (add sub mul div : F -> F -> F) (sqrt : F -> F)
    (ltb : F -> F -> bool) (of_int : Z -> F) (flit : string -> F) (M : Type) (np_eigh : M -> list F * M)
    (np_matmul : M -> M -> M) (np_transpose : M -> M) (np_mat_sub : M -> M -> M) (np_mat_scale : F -> M -> M)
    (np_diag : list F -> M) (compress : M -> list F),
  of_int 0%Z = zero -> of_int 1%Z = one -> of_int 2%Z = two -> of_int 4%Z = four ->
  forall (S zmu : M) (rho : F),
  let dq := np_eigh (np_mat_sub (np_mat_scale rho zmu) S) in
  g_x_update_prox F one add sub mul div ltb of_int flit M sqrt np_eigh np_matmul np_transpose np_mat_sub np_mat_scale np_diag compress S zmu rho
  = Ret (compress (np_mat_scale (rho_scale one mul div two rho)
                     (np_matmul (np_matmul (snd dq) (np_diag (map (theta_num zero one add sub mul div sqrt ltb four rho) (fst dq))))
                                (np_transpose (snd dq))))).
Proof. exact g_x_update_prox_eq. Qed.
Print Assumptions C03_code_x_update.

(* over the reals with rho > 0: whatever eigh returns, every eigenvalue the code as translated gives the new Theta,
   (1/(2 rho)) * theta_num(d_i), is strictly positive and solves rho t - 1/t = d_i (so, with an orthogonal q, Theta is
   positive definite and stationary for the X sub-problem: Properties/C03mx.v, C02mx.v) *)
Theorem C03_code_eigenvalues_positive : forall (flit : string -> R) (M : Type) (np_eigh : M -> list R * M)
    (np_matmul : M -> M -> M) (np_transpose : M -> M) (np_mat_sub : M -> M -> M) (np_mat_scale : R -> M -> M)
    (np_diag : list R -> M) (compress : M -> list R) (S zmu : M) (rho : R),
  (0 < rho)%R ->
  let dq := np_eigh (np_mat_sub (np_mat_scale rho zmu) S) in
  exists nums : list R,
    g_x_update_prox R 1%R Rplus Rminus Rmult Rdiv Rltb IZR flit M sqrt np_eigh np_matmul np_transpose np_mat_sub np_mat_scale np_diag compress S zmu rho
    = Ret (compress (np_mat_scale (1 / (2 * rho))%R (np_matmul (np_matmul (snd dq) (np_diag nums)) (np_transpose (snd dq))))) /\
    length nums = length (fst dq) /\
    forall i, (i < length nums)%nat ->
      let t := (1 / (2 * rho) * nth i nums 0)%R in
      (0 < t)%R /\ (rho * t - / t = nth i (fst dq) 0)%R.
Proof.
  intros flit M eigh mm tr msub mscale dg compress S zmu rho Hrho dq.
  exists (map (theta_num 0%R 1%R Rplus Rminus Rmult Rdiv sqrt Rltb 4%R rho) (fst dq)).
  split; [| split].
  - exact (g_x_update_prox_eq R 0%R 1%R 2%R 4%R Rplus Rminus Rmult Rdiv sqrt Rltb IZR flit M eigh mm tr msub mscale dg compress
                              eq_refl eq_refl eq_refl eq_refl S zmu rho).
  - apply map_length.
  - intros i Hi t. rewrite map_length in Hi.
    assert (Ht : t = thetaR rho (nth i (fst dq) 0%R)).
    { unfold t, thetaR, theta, rho_scale.
      rewrite (nth_indep _ 0%R (theta_num 0%R 1%R Rplus Rminus Rmult Rdiv sqrt Rltb 4%R rho 0%R)) by (rewrite map_length; exact Hi).
      rewrite map_nth. reflexivity. }
    rewrite Ht. exact (theta_prox rho (nth i (fst dq) 0%R) Hrho).
Qed.
Print Assumptions C03_code_eigenvalues_positive.

(* ---- the covariance floor graphical_lasso._zero_small_elements and _reconstruct_optimized_matrix AS TRANSLATED
   (Gen/G_graphical_lasso.v; equivalence with the model's elementwise filter: Proofs/GenEquivGL.v) ---- *)
From Ticc Require Import Gen.G_graphical_lasso Proofs.GenEquivGL.

Theorem C03_code_floor_is_model : forall (F : Type) (zero : F) (sub : F -> F -> F) (ltb : F -> F -> bool) (of_int : Z -> F),
  of_int 0%Z = zero ->
  forall (a : arr2 F) (eps : F) (copy : bool),
  g_zero_small_elements F sub ltb of_int a eps copy = Ret (arr2_map (zero_small zero sub ltb eps) a).
Proof. exact g_zero_small_elements_eq. Qed.
Print Assumptions C03_code_floor_is_model.

Theorem C03_code_reconstruction_is_model : forall (F : Type) (zero : F) (sub : F -> F -> F) (ltb : F -> F -> bool) (of_int : Z -> F),
  of_int 0%Z = zero ->
  forall (reinflate : list F -> arr2 F) (eps : F) (v : list F),
  g_reconstruct_optimized_matrix F sub ltb of_int reinflate (mk_gl_model (mk_gl_args eps)) v
  = Ret (arr2_map (zero_small zero sub ltb eps) (reinflate v)).
Proof. exact g_reconstruct_optimized_matrix_eq. Qed.
Print Assumptions C03_code_reconstruction_is_model.

(* over the reals: the matrix the translated filter returns has the shape of its argument, every entry is the argument's
   entry or 0, no entry has a magnitude strictly between 0 and a positive eps, and entries of magnitude >= eps are kept *)
Theorem C03_code_floor : forall (a : arr2 R) (eps : R) (copy : bool),
  exists out : arr2 R,
    g_zero_small_elements R Rminus Rltb IZR a eps copy = Ret out /\
    a_rows out = a_rows a /\ a_cols out = a_cols a /\ length (a_cells out) = length (a_cells a) /\
    forall i j : nat,
      let x := nth j (nth i (a_cells a) []) 0%R in
      let y := nth j (nth i (a_cells out) []) 0%R in
      (y = 0%R \/ y = x) /\ ((0 < eps)%R -> ~ (0 < Rabs y < eps)%R) /\ ((eps <= Rabs x)%R -> y = x).
Proof.
  intros a eps copy. exists (arr2_map (zero_small 0%R Rminus Rltb eps) a).
  split; [exact (g_zero_small_elements_eq R 0%R Rminus Rltb IZR eq_refl a eps copy)|].
  unfold arr2_map. cbn [a_rows a_cols a_cells]. rewrite map_length.
  repeat (split; [reflexivity|]).
  intros i j.
  set (x := nth j (nth i (a_cells a) []) 0%R).
  assert (Hz : zero_small 0%R Rminus Rltb eps 0%R = 0%R).
  { unfold zero_small. destruct (Rltb 0 eps && Rltb (0 - eps) 0)%bool; reflexivity. }
  assert (Hy : nth j (nth i (map (map (zero_small 0%R Rminus Rltb eps)) (a_cells a)) []) 0%R = zero_small 0%R Rminus Rltb eps x).
  { unfold x. clear x. generalize (a_cells a) as cells. intros cells. revert i.
    induction cells as [|row rows IH]; intros i.
    - destruct i; destruct j; cbn [map nth]; symmetry; exact Hz.
    - destruct i as [|i]; cbn [map nth]; [|apply IH].
      transitivity (nth j (map (zero_small 0%R Rminus Rltb eps) row) (zero_small 0%R Rminus Rltb eps 0%R)).
      + rewrite Hz. reflexivity.
      + apply map_nth. }
  rewrite Hy. destruct (zero_small_R eps x) as [H1 [H2 [H3 _]]]. fold (zero_smallR eps x).
  repeat split; assumption.
Qed.
Print Assumptions C03_code_floor.

(* ---- the X STEP AS TRANSLATED (Gen/G_admm_x.v; facts: Proofs/GenEquivGU.v): x_update_prox(S, reinflate(z - u), rho) and nothing else ---- *)
From Ticc Require Import Gen.PySkel Gen.G_admm_x Proofs.GenEquivGU.
Section SkelGU03.
  Local Open Scope string_scope.
  Variable V : Type.
  Variable vnone : V.
  Variable vint : Z -> V.
  Variable as_int : V -> option Z.
  Variable veq : V -> V -> bool.
  Variable getattr : V -> string -> V.
  Variable truthy : V -> bool.
  Variable is_none : V -> bool.
  Variables vtrue vfalse : V.
  Variable as_list : V -> list V.
  Variable vglobal : string -> V.
  Variable oracle : list (event V) -> string -> list V -> res V.
  Theorem C03_code_x_step (args u z empirical_covariance r : V) (log log' : list (event V)) :
    g_admm_update_x V getattr oracle args u z empirical_covariance log = (Ret r, log') ->
    exists d full,
      log' = (log ++ [Ev "op:-" [z; u]; Ev f_reinflate [d];
                      Ev "x_update_prox" [empirical_covariance; full; getattr args "rho"]])%list /\
      oracle log "op:-" [z; u] = Ret d /\
      oracle (log ++ [Ev "op:-" [z; u]]) f_reinflate [d] = Ret full /\
      oracle (log ++ [Ev "op:-" [z; u]; Ev f_reinflate [d]])
             "x_update_prox" [empirical_covariance; full; getattr args "rho"] = Ret r.
  Proof. intros; eapply admm_x_returns; eassumption. Qed.
End SkelGU03.
Print Assumptions C03_code_x_step.
