(* C09 - main loop: bounded, stops only at a fixed point, returns what it scored.
   Statements only.  The loop is Model/MainLoop.v over arbitrary phase functions
   repopF (repopulation; None = error), fitF (statistics + MRFs for a labelling)
   and labelF (relabelling); every statement holds for all of them. *)
From Coq Require Import List Arith NArith Reals.
Import ListNotations.
From Ticc Require Import Model.Viterbi Model.InstR Model.MainLoop Proofs.MainLoopP Proofs.MainLoopOpt.

Section C09.
  Context {M C : Type}.
  Variables (repopF : list nat -> option (list nat)) (fitF : list nat -> option M) (labelF : M -> list nat * C).

  (* at least one and at most iteration_limit rounds; a limit of 0 is an error before any phase *)
  Theorem C09_rounds : forall limit init t e p,
    run repopF fitF labelF limit init = Some (Done t e p) -> 1 <= length t <= limit.
  Proof. exact (run_rounds repopF fitF labelF). Qed.
  Theorem C09_limit_zero : forall init, run repopF fitF labelF 0 init = None.
  Proof. exact (run_zero repopF fitF labelF). Qed.

  (* each round fits statistics and MRFs to the current labels (after repopulation, which is
     not attempted in round 0) BEFORE relabelling, and the next round starts from its labels *)
  Theorem C09_order : forall limit init t e p,
    run repopF fitF labelF limit init = Some (Done t e p) -> Chain repopF fitF labelF 0 init t.
  Proof. exact (run_chain repopF fitF labelF). Qed.

  (* it stops early only when two consecutive rounds produced identical labellings, it does
     stop at the first such agreement, and otherwise uses up the limit *)
  Theorem C09_early_stop : forall limit init t e p,
    run repopF fitF labelF limit init = Some (Done t e p) ->
    (e = true -> 2 <= length t /\ agree_at (outs t) (length t - 2)) /\
    (e = false -> length t = limit) /\
    (forall j, S (S j) < length t -> ~ agree_at (outs t) j).
  Proof. exact (run_early_stop repopF fitF labelF). Qed.

  (* labels, cost and model returned are those of the last round, and the labels are the
     relabelling of exactly the returned model *)
  Theorem C09_returns_last : forall limit init t e p,
    run repopF fitF labelF limit init = Some (Done t e p) ->
    exists r, last_error t = Some r /\ result_of t = Some (r_out r, r_cost r, r_model r) /\
              fitF (r_fit_on r) = Some (r_model r) /\ labelF (r_model r) = (r_out r, r_cost r).
  Proof. exact (run_result repopF fitF labelF). Qed.

  (* on early stop the returned labelling is a fixed point of repopulate; fit; relabel
     (of fit; relabel when that round's repopulation was the identity, repopF l = Some l) *)
  Theorem C09_fixed_point : forall limit init t p,
    run repopF fitF labelF limit init = Some (Done t true p) ->
    exists l l1 m c, result_of t = Some (l, c, m) /\ repopF l = Some l1 /\ fitF l1 = Some m /\ fst (labelF m) = l.
  Proof. exact (run_fixed_point repopF fitF labelF). Qed.
End C09.
Print Assumptions C09_rounds.
Print Assumptions C09_limit_zero.
Print Assumptions C09_order.
Print Assumptions C09_early_stop.
Print Assumptions C09_returns_last.
Print Assumptions C09_fixed_point.

(* with the labelling kernel as relabelling step: the returned labelling is a minimum-cost
   labelling for the returned model, and the returned cost is its cost *)
Theorem C09_optimal_for_returned_model :
  forall (M : Type) (repopF : list nat -> option (list nat)) (fitF : list nat -> option M)
         (score : M -> list (list R)) (K : nat) (betas : list R) (limit : nat) (init : list nat)
         (t : list (@round_rec M R)) (e : bool) (p : pool_state),
  (0 < K)%nat -> (N.of_nat K <= 65536)%N -> Forall (fun b => 0 <= b)%R betas ->
  (forall m, score m <> [] /\ wf_rows K (score m)) ->
  run repopF fitF (fun m => viterbi 0%R Rplus Rminus Rltb K (score m) betas) limit init = Some (Done t e p) ->
  exists l c m,
    result_of t = Some (l, c, m) /\ (exists lf, fitF lf = Some m) /\
    c = pcost 0%R Rplus (score m) betas l /\
    forall path, length path = length (score m) -> wf_path K path ->
                 (c <= pcost 0%R Rplus (score m) betas path)%R.
Proof. exact returned_labels_optimal. Qed.
Print Assumptions C09_optimal_for_returned_model.

(* the trace acceptor evaluated on hook traces of real runs is sound: acceptance implies
   the round bound, the chaining of rounds, the repopulation gate (not in round 0; identity
   unless some cluster has < 2 points), no missed stop, early stop only on agreement, and
   that the returned labels are the last round's *)
Theorem C09_acceptor_sound : forall K limit init t res,
  accept_c09 K limit init t res = true -> Spec3 K limit init t res.
Proof. exact accept_c09_sound. Qed.
Print Assumptions C09_acceptor_sound.

(* ... and it accepts every run of the model whose repopulation obeys the gate *)
Theorem C09_acceptor_complete_on_model :
  forall (M C : Type) (repopF : list nat -> option (list nat)) (fitF : list nat -> option M)
         (labelF : M -> list nat * C) (K limit : nat) (init : list nat) (t : list round_rec) (e : bool) (p : pool_state),
  (forall l, has_small_cluster K l = false -> repopF l = Some l) ->
  run repopF fitF labelF limit init = Some (Done t e p) ->
  forall l c m, result_of t = Some (l, c, m) -> accept_c09 K limit init (map proj t) l = true.
Proof. exact (@accept_c09_complete_on_model). Qed.
Print Assumptions C09_acceptor_complete_on_model.

(* non-vacuity: a run that converges in the third round *)
Example C09_example :
  let fitF := fun l : list nat => Some (length (filter (Nat.eqb 0) l)) in
  let labelF := fun m : nat => (if Nat.ltb m 3 then [0;1;1] else [0;0;1], m) in
  match run (fun l => Some l) fitF labelF 5 [0;0;0] with
  | Some (Done t e p) => length t = 3 /\ e = true /\ p = PoolClosedJoined /\ result_of t = Some ([0;1;1], 1, 1)
  | _ => False
  end.
Proof. vm_compute. repeat split. Qed.
Print Assumptions C09_example.
