(* C17 - Calinski-Harabasz index matches its definition.  OPEN KNOWN FINDING: the code centres
   the between-cluster dispersion on ONE scalar (the mean of all entries of the stacked data)
   instead of the per-column centroid.  Statements only. *)
From Coq Require Import List Arith Reals Permutation.
Import ListNotations.
From Ticc Require Import Model.Viterbi Model.Accounting Proofs.AccountingP.

(* the implemented index differs from the definition (4 windows in 2-D, two clusters: 66 vs 50) *)
Theorem C17_refuted : ch_implR 2 ex_data ex_mems ex_mu <> ch_defR 2 ex_data ex_mems ex_mu.
Proof. exact ch_impl_differs_from_def. Qed.
Print Assumptions C17_refuted.
Theorem C17_refuted_values : ch_defR 2 ex_data ex_mems ex_mu = 50%R /\ ch_implR 2 ex_data ex_mems ex_mu = 66%R.
Proof. split; [exact ex_ch_def|exact ex_ch_impl]. Qed.
Print Assumptions C17_refuted_values.

(* exactly how it differs: B_impl = B_def + T * |centroid - g0 1|^2 for ANY centre vector g0 1,
   when the member lists partition the points and the stored means are the member means *)
Theorem C17_gap : forall (K : nat) (data : list (list R)) (mems : nat -> list nat) (mu : nat -> list R),
  1 <= length data ->
  Permutation (concat (map mems (seq 0 K))) (seq 0 (length data)) ->
  (forall k, k < K -> mems k <> [] -> mu k = member_meanR data (mems k)) ->
  forall g0v : list R, length g0v = length (hd [] data) ->
  ch_betweenR K mems mu g0v
  = (ch_betweenR K mems mu (centroidR data) + INR (length data) * sqR (vsubR (centroidR data) g0v))%R.
Proof. exact ch_between_gap. Qed.
Print Assumptions C17_gap.

(* everything else in the formula is right: the implemented value equals the definition exactly
   when all column means coincide with the scalar centre *)
Theorem C17_equal_iff_centred : forall (K : nat) (data : list (list R)) (mems : nat -> list nat) (mu : nat -> list R),
  1 <= length data ->
  Permutation (concat (map mems (seq 0 K))) (seq 0 (length data)) ->
  (forall k, k < K -> mems k <> [] -> mu k = member_meanR data (mems k)) ->
  2 <= K -> K < length data -> (0 < ch_withinR K data mems mu)%R ->
  (ch_implR K data mems mu = ch_defR K data mems mu <->
   forall j, j < length (hd [] data) -> col_meanR data j = grand_scalarR data).
Proof. exact ch_impl_eq_def_iff_centred. Qed.
Print Assumptions C17_equal_iff_centred.

(* the DEFINITION does not change when a constant is added to any sensor (any shift vector) *)
Theorem C17_def_translation_invariant : forall (K d : nat) (data : list (list R)) (mems : nat -> list nat)
    (mu : nat -> list R) (tv : list R),
  data <> [] -> Forall (fun r => length r = d) data -> length tv = d ->
  ch_defR K (map (fun r => map2 Rplus r tv) data) mems (fun k => map2 Rplus (mu k) tv) = ch_defR K data mems mu.
Proof. exact ch_def_translation_invariant. Qed.
Print Assumptions C17_def_translation_invariant.
