(* C01 on the labelling kernel AS TRANSLATED from /repo's current source by vcheck/py2coq.py
   (cluster_label_assignment.assign_point_cluster_labels -> Gen/G_cluster_label_assignment.v, regenerated on every run;
   equivalence with the model: Proofs/GenEquivLA.v).  Statements only. *)
From Coq Require Import String.
From Coq Require Import List Arith NArith ZArith Reals Lra.
Import ListNotations.
From Ticc Require Import Gen.PyRt Gen.G_cluster_label_assignment Model.Viterbi Model.InstR
     Proofs.ViterbiShape Proofs.ViterbiR Proofs.GenEquivLA.

(* the translated kernel IS the model, for every carrier (binary64 included), every table with T >= 1 rows of K >= 1
   columns and every per-pair switching-cost vector of length T ... *)
Theorem C01_code_is_model_vector : forall (F : Type) (f0 : F) (fadd fsub : F -> F -> F) (fltb : F -> F -> bool)
    (T K : nat) (rows : list (list F)) (betas : list F),
  (1 <= T)%nat -> (1 <= K)%nat -> wf_table F T K rows -> length betas = T ->
  g_assign_point_cluster_labels F f0 fadd fsub fltb (mk_arr2 (Z.of_nat T) (Z.of_nat K) rows) (NdVec betas)
  = Ret (model_result F f0 fadd fsub fltb K rows betas).
Proof. exact g_assign_vec_eq. Qed.
Print Assumptions C01_code_is_model_vector.

(* ... and every scalar switching cost *)
Theorem C01_code_is_model_scalar : forall (F : Type) (f0 : F) (fadd fsub : F -> F -> F) (fltb : F -> F -> bool)
    (T K : nat) (rows : list (list F)) (beta : F),
  (1 <= T)%nat -> (1 <= K)%nat -> wf_table F T K rows ->
  g_assign_point_cluster_labels F f0 fadd fsub fltb (mk_arr2 (Z.of_nat T) (Z.of_nat K) rows) (NdScalar beta)
  = Ret (let r := viterbi_scalar f0 fadd fsub fltb K rows beta in (map Z.of_nat (fst r), snd r)).
Proof. exact g_assign_scalar_eq. Qed.
Print Assumptions C01_code_is_model_scalar.

(* hence, over the reals, the code as translated never raises on a well-formed table, returns one label in [0,K) per
   point, reports the cost of exactly the sequence it returns, and that cost is the minimum over all K^T sequences *)
Theorem C01_code_optimal : forall (T K : nat) (rows : list (list R)) (betas : list R),
  (1 <= T)%nat -> (1 <= K)%nat -> (N.of_nat K <= 65536)%N -> wf_table R T K rows -> length betas = T ->
  Forall (fun b => 0 <= b)%R betas ->
  exists (labels : list nat) (cost : R),
    g_assign_point_cluster_labels R 0%R Rplus Rminus Rltb (mk_arr2 (Z.of_nat T) (Z.of_nat K) rows) (NdVec betas)
      = Ret (map Z.of_nat labels, cost) /\
    length labels = T /\ wf_path K labels /\
    cost = pcost 0%R Rplus rows betas labels /\
    forall path : list nat, length path = T -> wf_path K path -> (cost <= pcost 0%R Rplus rows betas path)%R.
Proof.
  intros T K rows betas HT HK HK16 Hwf Hb Hnn.
  destruct Hwf as [Hlen Hrows].
  assert (Hne : rows <> []) by (destruct rows; [simpl in Hlen; subst T; inversion HT | discriminate]).
  exists (fst (viterbi 0%R Rplus Rminus Rltb K rows betas)), (snd (viterbi 0%R Rplus Rminus Rltb K rows betas)).
  split; [| split; [| split; [| split]]].
  - rewrite (g_assign_vec_eq R 0%R Rplus Rminus Rltb T K rows betas HT HK (conj Hlen Hrows) Hb). reflexivity.
  - rewrite <- Hlen. apply viterbi_shape; [exact HK | exact Hne | exact Hrows].
  - apply viterbi_shape; [exact HK | exact Hne | exact Hrows].
  - apply viterbi_cost_is_path_cost; assumption.
  - intros path Hl Hp. apply viterbi_optimal; try assumption. rewrite Hl. symmetry. exact Hlen.
Qed.
Print Assumptions C01_code_optimal.

Theorem C01_code_optimal_scalar : forall (T K : nat) (rows : list (list R)) (beta : R),
  (1 <= T)%nat -> (1 <= K)%nat -> (N.of_nat K <= 65536)%N -> wf_table R T K rows -> (0 <= beta)%R ->
  exists (labels : list nat) (cost : R),
    g_assign_point_cluster_labels R 0%R Rplus Rminus Rltb (mk_arr2 (Z.of_nat T) (Z.of_nat K) rows) (NdScalar beta)
      = Ret (map Z.of_nat labels, cost) /\
    length labels = T /\ wf_path K labels /\
    cost = pcost 0%R Rplus rows (repeat beta T) labels /\
    forall path : list nat, length path = T -> wf_path K path -> (cost <= pcost 0%R Rplus rows (repeat beta T) path)%R.
Proof.
  intros T K rows beta HT HK HK16 Hwf Hnn.
  destruct Hwf as [Hlen Hrows].
  assert (Hne : rows <> []) by (destruct rows; [simpl in Hlen; subst T; inversion HT | discriminate]).
  assert (Hbs : Forall (fun b => 0 <= b)%R (repeat beta (length rows))) by (apply Forall_repeat; exact Hnn).
  exists (fst (viterbi_scalar 0%R Rplus Rminus Rltb K rows beta)), (snd (viterbi_scalar 0%R Rplus Rminus Rltb K rows beta)).
  rewrite (g_assign_scalar_eq R 0%R Rplus Rminus Rltb T K rows beta HT HK (conj Hlen Hrows)).
  rewrite viterbi_scalar_is_vector. rewrite <- Hlen.
  split; [reflexivity | split; [| split; [| split]]].
  - apply viterbi_shape; [exact HK | exact Hne | exact Hrows].
  - apply viterbi_shape; [exact HK | exact Hne | exact Hrows].
  - apply viterbi_cost_is_path_cost; assumption.
  - intros path Hl Hp. apply viterbi_optimal; assumption.
Qed.
Print Assumptions C01_code_optimal_scalar.

(* non-vacuity: the translated kernel computed on an integer table (a tie in row 0), next to the model *)
Example C01_code_example :
  g_assign_point_cluster_labels Z 0%Z Z.add Z.sub Z.ltb (mk_arr2 3 2 [[1; 1]; [0; 2]; [3; 0]]%Z) (NdVec [1; 1; 1]%Z)
  = Ret ([0; 0; 1]%Z, 2%Z).
Proof. vm_compute. reflexivity. Qed.
Print Assumptions C01_code_example.
