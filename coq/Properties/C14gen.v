(* C14 on the gather step of the optimise phase AS TRANSLATED in skeleton mode from /repo's current source
   (graphical_lasso._retrieve_optimization_results -> Gen/G_gl_retrieve.v, regenerated on every run; every callee - the
   pool's AsyncResult.get included - an uninterpreted oracle that may return anything, in any order of completion, or
   raise; facts: Proofs/GenEquivGO.v).  Statements only. *)
From Coq Require Import String.
From Coq Require Import ZArith List Bool.
Import ListNotations.
From Ticc Require Import Gen.PyRt Gen.PySkel Gen.G_gl_retrieve Proofs.GenEquivGO.
Local Open Scope string_scope.

(* the results are gathered BY POSITION: a call that returns fetched task k's result and stored the cluster updated from it
   as the k-th element, for k = 0, 1, ... in the order of zip(model.clusters, optimization_tasks) - cluster k is paired with
   task k and with nothing else - whatever the oracles (hence whatever the order in which the worker processes finished);
   the value returned is the shallow copy of the model whose `clusters` is the list the results were appended to *)
Theorem C14_code_gather_by_position : forall (V : Type) (getattr : V -> string -> V) (is_none : V -> bool) (as_list : V -> list V)
    (oracle : list (event V) -> string -> list V -> res V) (model tasks r : V) (log log' : list (event V)),
  g_retrieve_optimization_results V getattr is_none as_list oracle model tasks log = (Ret r, log') ->
  exists updated z gots upds m1,
    length gots = length (as_list z) /\ length upds = length (as_list z) /\
    log' = (log ++ [Ev "expr:[]" []; Ev "zip" [getattr model "clusters"; tasks]]
                ++ gather_events V getattr model updated (as_list z) gots upds
                ++ [Ev "method:shallow_copy" [model]; Ev "setattr:clusters" [m1; updated]])%list /\
    oracle (log ++ [Ev "expr:[]" []])%list "zip" [getattr model "clusters"; tasks] = Ret z /\
    Forall (fun item => is_none (getattr item "[1]") = false) (as_list z).
Proof. exact retrieve_returns. Qed.
Print Assumptions C14_code_gather_by_position.
