(* C14 on the gather step of the optimise phase AS TRANSLATED in skeleton mode from /repo's current source
   (graphical_lasso._retrieve_optimization_results -> Gen/G_gl_retrieve.v, regenerated on every run; every callee - the
   pool's AsyncResult.get included - an uninterpreted oracle that may return anything, in any order of completion, or
   raise; facts: Proofs/GenEquivGO.v).  Statements only. *)
From Coq Require Import String.
From Coq Require Import ZArith List Bool.
Import ListNotations.
From Ticc Require Import Gen.PyRt Gen.PySkel Gen.G_gl_retrieve Proofs.GenEquivGO.
Local Open Scope string_scope.

(* the results are gathered BY POSITION: a call that returns fetched task k's result and stored the cluster updated from it
   as the k-th element, for k = 0, 1, ... in the order of zip(model.clusters, optimization_tasks) - cluster k is paired with
   task k and with nothing else - whatever the oracles (hence whatever the order in which the worker processes finished);
   the value returned is the shallow copy of the model whose `clusters` is the list the results were appended to *)
Theorem C14_code_gather_by_position : forall (V : Type) (getattr : V -> string -> V) (is_none : V -> bool) (as_list : V -> list V)
    (oracle : list (event V) -> string -> list V -> res V) (model tasks r : V) (log log' : list (event V)),
  g_retrieve_optimization_results V getattr is_none as_list oracle model tasks log = (Ret r, log') ->
  exists updated z gots upds m1,
    length gots = length (as_list z) /\ length upds = length (as_list z) /\
    log' = (log ++ [Ev "expr:[]" []; Ev "zip" [getattr model "clusters"; tasks]]
                ++ gather_events V getattr model updated (as_list z) gots upds
                ++ [Ev "method:shallow_copy" [model]; Ev "setattr:clusters" [m1; updated]])%list /\
    oracle (log ++ [Ev "expr:[]" []])%list "zip" [getattr model "clusters"; tasks] = Ret z /\
    Forall (fun item => is_none (getattr item "[1]") = false) (as_list z).
Proof. exact retrieve_returns. Qed.
Print Assumptions C14_code_gather_by_position.

(* ---- the INITIAL LABELLING AS TRANSLATED (Gen/G_la_initial.v; facts: Proofs/GenEquivLW.v): one Gaussian mixture with num_clusters
   components, fitted on and predicting for the same training data; the function itself consults no other source ---- *)
From Ticc Require Import Gen.PySkel Gen.G_la_initial Proofs.GenEquivLW.
Section SkelLW14.
  Local Open Scope string_scope.
  Variable V : Type.
  Variable vnone : V.
  Variable vint : Z -> V.
  Variable as_int : V -> option Z.
  Variable veq : V -> V -> bool.
  Variable getattr : V -> string -> V.
  Variable truthy : V -> bool.
  Variable is_none : V -> bool.
  Variables vtrue vfalse : V.
  Variable as_list : V -> list V.
  Variable vglobal : string -> V.
  Variable oracle : list (event V) -> string -> list V -> res V.
  Theorem C14_code_initial_labels (num_clusters training_data r : V) (log log' : list (event V)) :
    g_build_initial_clusters V oracle num_clusters training_data log = (Ret r, log') ->
    exists cov_type gmm fitted labels,
      log' = (log ++ [Ev "expr:'full'" [];
                      Ev f_gmm [num_clusters; cov_type];
                      Ev "method:fit" [gmm; training_data];
                      Ev "method:predict" [gmm; training_data];
                      Ev f_pylist [labels]])%list /\
      oracle log "expr:'full'" [] = Ret cov_type /\
      oracle (log ++ [Ev "expr:'full'" []])%list f_gmm [num_clusters; cov_type] = Ret gmm /\
      oracle (log ++ [Ev "expr:'full'" []; Ev f_gmm [num_clusters; cov_type]])%list "method:fit" [gmm; training_data] = Ret fitted /\
      oracle (log ++ [Ev "expr:'full'" []; Ev f_gmm [num_clusters; cov_type]; Ev "method:fit" [gmm; training_data]])%list
             "method:predict" [gmm; training_data] = Ret labels /\
      oracle (log ++ [Ev "expr:'full'" []; Ev f_gmm [num_clusters; cov_type]; Ev "method:fit" [gmm; training_data];
                      Ev "method:predict" [gmm; training_data]])%list
             f_pylist [labels] = Ret r.
  Proof. intros; eapply initial_returns; eassumption. Qed.
End SkelLW14.
Print Assumptions C14_code_initial_labels.

(* ---- the WORKER POOL AS TRANSLATED (Gen/G_pool.v; facts: Proofs/GenEquivGU.v): the caller's process count reaches the pool only when
   CUPCAKE_ENABLE_MULTIPROCESSING is set and non-empty; otherwise the pool has exactly one process ---- *)
From Ticc Require Import Gen.PySkel Gen.G_pool Proofs.GenEquivGU.
Section SkelGU14.
  Local Open Scope string_scope.
  Variable V : Type.
  Variable vnone : V.
  Variable vint : Z -> V.
  Variable as_int : V -> option Z.
  Variable veq : V -> V -> bool.
  Variable getattr : V -> string -> V.
  Variable truthy : V -> bool.
  Variable is_none : V -> bool.
  Variables vtrue vfalse : V.
  Variable as_list : V -> list V.
  Variable vglobal : string -> V.
  Variable oracle : list (event V) -> string -> list V -> res V.
  Theorem C14_code_pool_size (num_processes r : V) (log log' : list (event V)) :
    g_init_task_pool V vnone vint as_int is_none oracle num_processes log = (Ret r, log') ->
    exists key env,
      let pre := (log ++ [Ev f_envkey []; Ev f_envget [key; vnone]])%list in
      oracle log f_envkey [] = Ret key /\
      oracle (log ++ [Ev f_envkey []]) f_envget [key; vnone] = Ret env /\
      if is_none env
      then log' = (pre ++ [Ev f_pool [vint 1]])%list /\
           oracle pre f_pool [vint 1] = Ret r
      else exists lenv n,
           oracle pre "len" [env] = Ret lenv /\ as_int lenv = Some n /\
           let p := if (n >? 0)%Z then num_processes else vint 1 in
           log' = (pre ++ [Ev "len" [env]; Ev f_pool [p]])%list /\
           oracle (pre ++ [Ev "len" [env]]) f_pool [p] = Ret r.
  Proof. intros; eapply pool_returns; eassumption. Qed.
End SkelGU14.
Print Assumptions C14_code_pool_size.
