(* C16 - Bayesian information criterion matches its definition. Statements only. *)
From Coq Require Import List Arith Reals.
Import ListNotations.
From Ticc Require Import Model.Viterbi Model.Accounting Proofs.AccountingP.

(* P adds the parameter count of a cluster exactly once per maximal run of equal consecutive
   labels (the -1 sentinel of the loop never equals a label) *)
Theorem C16_runs : forall (params : nat -> nat) (labels : list nat),
  run_params params labels = list_sum (map params (runs labels)).
Proof. exact run_params_is_runs. Qed.
Print Assumptions C16_runs.

Theorem C16_runs_are_maximal : forall labels : list nat,
  (forall i, S i < length (runs labels) -> nth i (runs labels) 0 <> nth (S i) (runs labels) 0) /\
  (labels <> [] -> runs labels <> [] /\ hd 0 (runs labels) = hd 0 labels).
Proof. exact runs_spec. Qed.
Print Assumptions C16_runs_are_maximal.

(* value = P ln T - 2 sum_k (ln det Theta_k - tr(Theta_k S_k)) over all K clusters *)
Theorem C16_formula : forall (P : nat) (lnT : R) (lds trs : list R), length lds = length trs ->
  bicR P lnT lds trs = (INR P * lnT - 2 * fold_right Rplus 0 (map2 Rminus lds trs))%R.
Proof. exact bic_formula. Qed.
Print Assumptions C16_formula.

(* non-vacuity: single run, alternating runs, unused cluster *)
Example C16_example :
  runs [1;1;1] = [1] /\ runs [0;1;0;1] = [0;1;0;1] /\ runs [2;2;0;0;0;2] = [2;0;2] /\
  run_params (fun k => 10 + k) [2;2;0;0;0;2] = 34.
Proof. repeat split; reflexivity. Qed.
Print Assumptions C16_example.
