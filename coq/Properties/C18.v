(* C18 - equivalent parameter forms give identical results. Statements only. *)
From Coq Require Import List Arith NArith Reals Lra PrimFloat.
Import ListNotations.
From Ticc Require Import Model.Viterbi Model.TriIndex Model.Admm Model.InstR Model.InstF
     Proofs.ViterbiR Proofs.AdmmP Corr.RunAdmm Corr.RunViterbi.

(* a scalar switching cost and the vector filled with it are the same computation:
   the kernel broadcasts the scalar first (definitional, any carrier) *)
Theorem C18_beta_forms : forall (A : Type) (zero : A) (add sub : A -> A -> A) (ltb : A -> A -> bool)
    (K : nat) (rows : list (list A)) (beta : A),
  viterbi_scalar zero add sub ltb K rows beta = viterbi zero add sub ltb K rows (repeat beta (length rows)).
Proof. reflexivity. Qed.
Print Assumptions C18_beta_forms.

(* a scalar sparsity weight and the matrix filled with it give the same class weight Q
   in every Toeplitz class (exact arithmetic) *)
Theorem C18_lambda_forms_exact : forall (lam : R) (b r c N W : nat),
  lambda_sum_matrix fsumR (fun _ _ => lam) b r c N W = lambda_sum_scalar Rmult INR lam b W.
Proof. exact lambda_forms_agree_R. Qed.
Print Assumptions C18_lambda_forms_exact.

(* FIXED DEFECT (470ed3f): in binary64 NumPy's sum of six copies of 0.3 is 1.8 but 0.3*6 is
   1.7999999999999998, so the two forms differed in the last bit; the exactly rounded sum
   (math.fsum) reproduces the product *)
Example C18_lambda_legacy_refuted :
  let l := repeat 0x1.3333333333333p-2%float 6 in
  feqb (np_sumF l) (0x1.3333333333333p-2 * 6)%float = false /\
  feqb (fsumF l) (0x1.3333333333333p-2 * 6)%float = true.
Proof. vm_compute. split; reflexivity. Qed.
Print Assumptions C18_lambda_legacy_refuted.

(* the exactly rounded sum of n copies equals the correctly rounded product on a corpus of
   (value, n) pairs, n <= 14 (computed; the general binary64 statement is not proved) *)
Example C18_lambda_new_on_witnesses :
  forallb (fun x => forallb (fun n => feqb (fsumF (repeat x n)) (x * of_natF n)%float) (seq 1 14))
          [0x1.3333333333333p-2; 0x1.c28f5c28f5c29p-4; 0x1.6666666666666p-1; 0x1.0624dd2f1a9fcp-10; 5; 1;
           0x1.999999999999ap-4; 0x1.5555555555555p-2; 0x1.fffffffffffffp+0; 0x1p-1074]%float = true.
Proof. vm_compute. reflexivity. Qed.
Print Assumptions C18_lambda_new_on_witnesses.
