(* C06 - result fields are mutually consistent (cost and likelihood accounting). Statements only. *)
From Coq Require Import List Arith NArith Reals Permutation.
Import ListNotations.
From Ticc Require Import Model.Viterbi Model.InstR Model.Accounting Proofs.AccountingP Proofs.AccountingCost.

(* cost = - (sum of the chosen log-likelihoods) + switching cost of every consecutive pair with
   different labels (the kernel minimises over the table of NEGATED log-likelihoods) *)
Theorem C06_cost_identity : forall (K : nat) (lltab : list (list R)) (betas : list R),
  (0 < K)%nat -> (N.of_nat K <= 65536)%N -> lltab <> [] -> wf_rows K lltab -> Forall (fun b => 0 <= b)%R betas ->
  let r := viterbi 0%R Rplus Rminus Rltb K (neg_table lltab) betas in
  snd r = (- assign_sum 0%R Rplus lltab (fst r) + switch_sum 0%R Rplus betas (fst r))%R.
Proof. exact cost_identity. Qed.
Print Assumptions C06_cost_identity.

(* the per-point list has exactly one entry per labelled point: it is a permutation of the values
   of all points (hence same length, sum, mean, median) *)
Theorem C06_one_entry_per_point : forall (A : Type) (K : nat) (labels : list nat) (val : nat -> A),
  Forall (fun c => (c < K)%nat) labels ->
  Permutation (flatten (buckets K labels val)) (map val (seq 0 (length labels))) /\
  length (flatten (buckets K labels val)) = length labels.
Proof. intros. split; [apply buckets_permutation|apply flatten_buckets_length]; assumption. Qed.
Print Assumptions C06_one_entry_per_point.

Theorem C06_overall_sum_mean : forall (K : nat) (labels : list nat) (val : nat -> R),
  Forall (fun c => (c < K)%nat) labels ->
  sumR (flatten (buckets K labels val)) = sumR (map val (seq 0 (length labels))) /\
  meanR (flatten (buckets K labels val)) = meanR (map val (seq 0 (length labels))).
Proof. intros. split; [apply sum_flatten_buckets|apply mean_flatten_buckets]; assumption. Qed.
Print Assumptions C06_overall_sum_mean.

(* each cluster's aggregates are taken over exactly the points labelled with it; 0 if it has none *)
Theorem C06_cluster_aggregates : forall (A : Type) (zero : A) (f : list A -> A) (K : nat) (labels : list nat) (val : nat -> A) (k : nat),
  (k < K)%nat ->
  nth k (buckets K labels val) [] = map val (Repop.members labels k) /\
  (Repop.members labels k = [] -> agg0 zero f (nth k (buckets K labels val) []) = zero).
Proof.
  intros A zero f K labels val k Hk. split; [apply buckets_cluster; exact Hk|].
  intros He. rewrite (buckets_cluster K labels val k [] Hk), He. reflexivity.
Qed.
Print Assumptions C06_cluster_aggregates.

(* FIXED DEFECT (9ba1397): a placeholder 0 per empty cluster made the list longer than the
   number of labelled points; with K = 2 and all three points in cluster 0 the repaired
   bucketing has 3 entries (the old one had 4) *)
Example C06_legacy_phantom_example :
  flatten (buckets 2 [0;0;0]%nat (fun p => (p + 10)%nat)) = [10;11;12]%nat /\
  length (flatten (map (fun b : list nat => match b with [] => [0]%nat | _ => b end)
                       (buckets 2 [0;0;0]%nat (fun p => (p + 10)%nat)))) = 4%nat.
Proof. split; reflexivity. Qed.
Print Assumptions C06_legacy_phantom_example.
