(* C10 on the code AS TRANSLATED from /repo's current source by vcheck/py2coq.py (Gen/G_data_preparation.v,
   regenerated on every run).  The generated definitions are proved equal to the model of Model/Stacking.v
   in Proofs/GenEquivDP.v, so the theorems of C10.v are theorems about what the source text says now;
   a change of the source that alters these functions breaks the proofs below.
   Statements only.  Trusted: the translator and its semantic table Gen/PyRt.v. *)
From Coq Require Import String.
From Coq Require Import List Arith ZArith Lia.
Import ListNotations.
From Ticc Require Import Gen.PyRt Gen.G_data_preparation Model.Stacking Proofs.StackingP Proofs.GenEquivDP.

(* stack_training_data returns the model's stacking, with shape (T-W+1, N*W) *)
Theorem C10_code_stack : forall (F : Type) (f0 : F) (data : list (list F)) (N W : nat),
  Forall (fun row => length row = N) data -> 1 <= W -> W <= length data + 1 ->
  g_stack_training_data F f0 (mk_arr2 (Z.of_nat (length data)) (Z.of_nat N) data) (Z.of_nat W)
  = Ret (mk_arr2 (Z.of_nat (num_windows W (length data))) (Z.of_nat (N * W)) (stack W data)).
Proof. exact g_stack_training_data_eq. Qed.
Print Assumptions C10_code_stack.

(* hence the cell law holds for what the code returns: columns [jN,(j+1)N) of row i are row i+j of the input *)
Theorem C10_code_cell : forall (F : Type) (f0 : F) (data : list (list F)) (N W : nat),
  Forall (fun row => length row = N) data -> 1 <= W -> W <= length data + 1 ->
  exists out, g_stack_training_data F f0 (mk_arr2 (Z.of_nat (length data)) (Z.of_nat N) data) (Z.of_nat W) = Ret out /\
    a_rows out = Z.of_nat (length data + 1 - W) /\ a_cols out = Z.of_nat (N * W) /\
    length (a_cells out) = length data + 1 - W /\
    forall i j k d, i < length data + 1 - W -> j < W -> k < N ->
      nth (j * N + k) (nth i (a_cells out) []) d = nth k (nth (i + j) data []) d.
Proof.
  intros F f0 data N W Hrows HW HT. eexists. split; [apply g_stack_training_data_eq; assumption|].
  cbn [a_rows a_cols a_cells]. unfold num_windows. split; [reflexivity|]. split; [reflexivity|].
  split; [apply stack_length|]. intros i j k d Hi Hj Hk. apply stack_cell; assumption.
Qed.
Print Assumptions C10_code_cell.

(* several series: the row-wise concatenation, in input order, of the individual stackings *)
Theorem C10_code_multi : forall (F : Type) (f0 : F) (series : list (list (list F))) (N W : nat),
  series <> [] ->
  Forall (fun data => Forall (fun row => length row = N) data /\ W <= length data + 1) series ->
  1 <= W ->
  g_stack_training_data_multiple_series F f0
    (map (fun data => mk_arr2 (Z.of_nat (length data)) (Z.of_nat N) data) series) (Z.of_nat W)
  = Ret (mk_arr2 (Z.of_nat (list_sum (map (fun data => num_windows W (length data)) series)))
                 (Z.of_nat (N * W)) (concat (map (stack W) series))).
Proof. exact g_stack_training_data_multiple_series_eq. Qed.
Print Assumptions C10_code_multi.

(* split_joint_labels / pad_missing_labels are the model's split_by / pad *)
Theorem C10_code_split : forall (lens : list nat) (l : list Z),
  length l = list_sum lens -> g_split_joint_labels l (map Z.of_nat lens) = Ret (split_by lens l).
Proof. exact g_split_joint_labels_eq. Qed.
Print Assumptions C10_code_split.

Theorem C10_code_pad : forall (l : list Z) (W : nat),
  1 <= W -> g_pad_missing_labels l (Z.of_nat W) = Ret (pad (-1)%Z W l).
Proof. exact g_pad_missing_labels_eq. Qed.
Print Assumptions C10_code_pad.

(* ---- the SPLITTING OF A JOINT RESULT AS TRANSLATED (Gen/G_front_split.v; facts: Proofs/GenEquivGU.v): the master labels are split by the
   stacked sizes, every part is padded for the master result's window size and checked against ITS OWN series' length, in order,
   and every other field of the joint result is the master result's field unchanged ---- *)
From Ticc Require Import Gen.PySkel Gen.G_front_split Proofs.GenEquivGU.
Section SkelGU10.
  Local Open Scope string_scope.
  Variable V : Type.
  Variable vnone : V.
  Variable vint : Z -> V.
  Variable as_int : V -> option Z.
  Variable veq : V -> V -> bool.
  Variable getattr : V -> string -> V.
  Variable truthy : V -> bool.
  Variable is_none : V -> bool.
  Variables vtrue vfalse : V.
  Variable as_list : V -> list V.
  Variable vglobal : string -> V.
  Variable oracle : list (event V) -> string -> list V -> res V.
  Let split_iter := GenEquivGU.split_iter V vint veq getattr oracle.
  Theorem C10_code_split_result (master_result stacked_data_sizes data_series r : V) (log log' : list (event V)) :
    g_split_combined_result V vint veq getattr as_list oracle master_result stacked_data_sizes data_series log = (Ret r, log') ->
    exists parts acc en evs,
      let pre := (log ++ [Ev f_split [getattr master_result "point_labels"; stacked_data_sizes];
                          Ev "expr:[]" [];
                          Ev "enumerate" [parts]])%list in
      let ctor_args := [getattr master_result "bayesian_information_criterion";
                        getattr master_result "calinski_harabasz_index";
                        getattr master_result "label_assignment_cost";
                        acc;
                        getattr master_result "markov_random_fields";
                        getattr master_result "num_clusters";
                        getattr master_result "window_size";
                        getattr master_result "all_log_likelihood";
                        getattr master_result "overall_log_likelihood";
                        getattr master_result "overall_log_likelihood_mean";
                        getattr master_result "overall_log_likelihood_median";
                        getattr master_result "cluster_log_likelihood_mean";
                        getattr master_result "cluster_log_likelihood_median"] in
      log' = (pre ++ evs ++ [Ev f_multi ctor_args])%list /\
      length evs = (5 * length (as_list en))%nat /\
      (forall k, (k < length (as_list en))%nat ->
         split_iter master_result acc data_series pre evs k (nth k (as_list en) vnone)) /\
      oracle log f_split [getattr master_result "point_labels"; stacked_data_sizes] = Ret parts /\
      oracle (log ++ [Ev f_split [getattr master_result "point_labels"; stacked_data_sizes]]) "expr:[]" [] = Ret acc /\
      oracle (log ++ [Ev f_split [getattr master_result "point_labels"; stacked_data_sizes]; Ev "expr:[]" []])
             "enumerate" [parts] = Ret en /\
      oracle (pre ++ evs) f_multi ctor_args = Ret r.
  Proof. intros; eapply split_returns; eassumption. Qed.
End SkelGU10.
Print Assumptions C10_code_split_result.
