(* C07 on the code AS TRANSLATED from /repo's current source by vcheck/py2coq.py (label_switching_cost_template,
   stack_training_data_multiple_series; Gen/G_data_preparation.v, regenerated on every run).  Statements only. *)
From Coq Require Import String.
From Coq Require Import List Arith ZArith Lia.
Import ListNotations.
From Ticc Require Import Gen.PyRt Gen.G_data_preparation Model.Stacking Proofs.StackingP Proofs.GenEquivDP.

(* the mask helper: ones, with zeros on exactly the boundary pairs (entry i prices the pair (i, i+1)) *)
Theorem C07_code_mask_exact : forall (F : Type) (f0 f1 : F) (lens : list nat),
  f0 <> f1 -> lens <> [] -> Forall (fun n => 1 <= n) lens ->
  exists out, g_label_switching_cost_template F f0 f1 (map Z.of_nat lens) = Ret out /\
    length out = list_sum lens /\
    forall i, i < list_sum lens ->
      (nth i out f1 = f0 <-> exists j, S j < length lens /\ i + 1 = list_sum (firstn (S j) lens)) /\
      (nth i out f1 = f0 \/ nth i out f1 = f1).
Proof.
  intros F f0 f1 lens Hne Hnil Hpos. eexists. split; [apply g_label_switching_cost_template_eq; assumption|].
  split; [rewrite map_length; apply template_length|].
  intros i Hi.
  assert (Hnth : nth i (map (fun b : bool => if b then f1 else f0) (template lens)) f1
                 = if nth i (template lens) true then f1 else f0).
  { apply (map_nth (fun b : bool => if b then f1 else f0) (template lens) true i). }
  rewrite Hnth. split.
  - rewrite <- (template_zero_iff lens i Hpos Hi).
    destruct (nth i (template lens) true); split; intro H; try reflexivity; try discriminate.
    exfalso. apply Hne. symmetry. exact H.
  - destruct (nth i (template lens) true); [right|left]; reflexivity.
Qed.
Print Assumptions C07_code_mask_exact.

(* no stacked window of the joint stacking mixes rows of two series *)
Theorem C07_code_no_mixed_window : forall (F : Type) (f0 : F) (series : list (list (list F))) (N W : nat),
  series <> [] ->
  Forall (fun data => Forall (fun row => length row = N) data /\ W <= length data + 1) series ->
  1 <= W ->
  exists out, g_stack_training_data_multiple_series F f0
      (map (fun data => mk_arr2 (Z.of_nat (length data)) (Z.of_nat N) data) series) (Z.of_nat W) = Ret out /\
    forall r, In r (a_cells out) -> exists s i, In s series /\ i + W <= length s /\ r = window W s i.
Proof.
  intros F f0 series N W Hnil Hs HW. eexists. split; [apply g_stack_training_data_multiple_series_eq; assumption|].
  cbn [a_cells]. intros r Hr.
  destruct (stack_multi_rows_within_series W series r Hr) as [s [i [H1 [H2 [_ H3]]]]]. exists s, i. auto.
Qed.
Print Assumptions C07_code_no_mixed_window.

(* ---- the joint front end AS TRANSLATED in skeleton mode (Gen/G_front_joint.v; facts: Proofs/GenEquivFE.v).
   SOURCE-LEVEL FORM OF THE KNOWN FINDING joint-unmasked-beta: a call that returns made exactly these calls in this order;
   the argument bundle the main loop receives (`args`) is what UserArguments(...) answered when called with the caller's own
   switching cost `beta`, BEFORE the mask was built; the masked product `beta * template` (`masked`) appears in no later
   call - it only feeds the length assertion.  (A repair moves the bundling after the masking; this statement then no
   longer holds of the translated text and has to be replaced by its positive counterpart.) ---- *)
From Ticc Require Import Gen.PySkel Gen.G_front_joint Proofs.GenEquivFE.
Theorem C07_code_joint_call_sequence : forall (V : Type) (veq : V -> V -> bool) (getattr : V -> string -> V)
    (oracle : list (event V) -> string -> list V -> res V)
    (data W K lam beta lim eps procs m biased r : V) (log log' : list (event V)),
  g_ticc_joint_labels V veq getattr oracle data W K lam beta lim eps procs m biased log = (Ret r, log') ->
  exists lst combined sizes args template masked total master,
    log' = (log ++ [Ev "list"%string [data];
                    Ev f_stack_multi [lst; W];
                    Ev f_sizes [lst; W];
                    Ev f_args [W; K; lam; beta; lim; eps; procs; m; biased];
                    Ev f_template [sizes];
                    Ev "op:*"%string [beta; template];
                    Ev "sum"%string [sizes];
                    Ev f_fit [args; combined];
                    Ev f_split [master; sizes; lst]])%list /\
    oracle (log ++ [Ev "list"%string [data]; Ev f_stack_multi [lst; W]; Ev f_sizes [lst; W]])%list
           f_args [W; K; lam; beta; lim; eps; procs; m; biased] = Ret args /\
    oracle (log ++ [Ev "list"%string [data]; Ev f_stack_multi [lst; W]; Ev f_sizes [lst; W];
                    Ev f_args [W; K; lam; beta; lim; eps; procs; m; biased]; Ev f_template [sizes]])%list
           "op:*"%string [beta; template] = Ret masked /\
    veq (getattr (getattr masked "shape"%string) "[0]"%string) total = true.
Proof. exact joint_returns. Qed.
Print Assumptions C07_code_joint_call_sequence.
