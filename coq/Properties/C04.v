(* C04 - one label per input row; the unlabelled margin is exactly W-1 points.
   Statements only.  [labels] is what the main loop returns for the T-W+1
   stacked rows; that these are integers in [0,K) is C01_shape. *)
From Coq Require Import List Arith ZArith Lia.
Import ListNotations.
From Ticc Require Import Model.Stacking Model.TriIndex Proofs.StackingP Proofs.FrontLabelsP Proofs.TriIndexP.

(* single-series front end: exactly T labels, the first floor((W-1)/2) and the
   last (W-1)-floor((W-1)/2) are -1, all others in [0,K) *)
Theorem C04_single : forall W K T (labels : list Z),
  1 <= W -> W <= T -> length labels = T + 1 - W -> Forall (in_range K) labels ->
  margin_ok W K T (front_single_labels W labels) /\
  pad_front W = (W - 1) / 2 /\ pad_back W = (W - 1) - (W - 1) / 2 /\ pad_front W + pad_back W = W - 1.
Proof.
  intros W K T labels HW HT HL HR. split; [apply front_single_margin; assumption|].
  split; [reflexivity|]. split; [reflexivity|apply pad_front_back].
Qed.
Print Assumptions C04_single.

(* joint front end: one such list per series, in input order, each as long as
   its own series, even when the lengths differ *)
Theorem C04_joint : forall W K (lens : list nat) (labels : list Z),
  1 <= W -> Forall (fun T => W <= T) lens ->
  length labels = list_sum (map (fun T => T + 1 - W) lens) -> Forall (in_range K) labels ->
  Forall2 (margin_ok W K) lens (front_joint_labels W lens labels) /\
  map (@length Z) (front_joint_labels W lens labels) = lens /\
  concat (map (fun '(T, p) => firstn (T + 1 - W) (skipn (pad_front W) p))
              (combine lens (front_joint_labels W lens labels))) = labels.
Proof.
  intros W K lens labels HW Hl HL HR. split; [apply front_joint_margin; assumption|].
  split; [apply front_joint_lengths; assumption|apply front_joint_unpad; exact HL].
Qed.
Print Assumptions C04_joint.

(* every MRF is re-inflated from NW(NW+1)/2 numbers to exactly NW x NW *)
Theorem C04_mrf_shape : forall (A : Type) (zero : A) (add sub : A -> A -> A) (N W : nat) (v : list A),
  length v = (N * W) * (N * W + 1) / 2 ->
  let n := full_matrix_size (length v) in
  n = N * W /\ length (matrix_rows n (reinflate zero add sub v)) = N * W /\
  Forall (fun row => length row = N * W) (matrix_rows n (reinflate zero add sub v)).
Proof.
  intros A zero add sub N W v Hv n. assert (Hn : n = N * W) by (unfold n; rewrite Hv; apply full_matrix_size_inverse).
  split; [exact Hn|]. unfold matrix_rows. rewrite map_length, seq_length. split; [exact Hn|].
  apply Forall_forall. intros row Hrow. apply in_map_iff in Hrow. destruct Hrow as [r [<- _]].
  rewrite map_length, seq_length. exact Hn.
Qed.
Print Assumptions C04_mrf_shape.

(* non-vacuity: W = 1, 2, 3, 10 *)
Example C04_example :
  front_single_labels 1 [0;1]%Z = [0;1]%Z /\ front_single_labels 2 [0;1]%Z = [0;1;-1]%Z /\
  front_single_labels 3 [0;1]%Z = [-1;0;1;-1]%Z /\
  front_single_labels 10 [2]%Z = [-1;-1;-1;-1;2;-1;-1;-1;-1;-1]%Z /\
  margin_ok 3 2 4 (front_single_labels 3 [0;1]%Z).
Proof.
  split; [reflexivity|]. split; [reflexivity|]. split; [reflexivity|]. split; [reflexivity|].
  apply front_single_margin; try lia; [reflexivity|].
  repeat constructor; unfold in_range; simpl; lia.
Qed.
Print Assumptions C04_example.
