(* C05 on the likelihood kernels AS TRANSLATED from /repo's current source by vcheck/py2coq.py
   (likelihood.point_log_likelihood_fast, all_points_all_clusters_log_likelihood_fast -> Gen/G_likelihood.v, regenerated
   on every run; equivalence with the model: Proofs/GenEquivLK.v).  Uninterpreted symbols of the translation:
     np_quad_form v m w = v.T @ m @ w (BLAS),  np_log = np.log,  math_pi = math.pi,  flit "0.5" = the literal 0.5.
   Statements only. *)
From Coq Require Import String.
From Coq Require Import List Arith ZArith Reals Lra.
Import ListNotations.
From Ticc Require Import Gen.PyRt Gen.G_likelihood Model.Viterbi Model.Accounting Proofs.AccountingP Proofs.GenEquivLK.

(* the per-point kernel IS the model formula on the centred point, for every carrier *)
Theorem C05_code_point_formula : forall (F : Type) (half two : F) (sub mul : F -> F -> F) (of_nat : nat -> F) (of_int : Z -> F)
    (M : Type) (flit : string -> F) (math_pi : F) (np_log : F -> F) (np_quad_form : list F -> M -> list F -> F),
  flit "0.5"%string = half -> of_int 2%Z = two -> (forall n : nat, of_int (Z.of_nat n) = of_nat n) ->
  forall (point mu : list F) (theta : M) (ld : F) (W N : nat),
  length point = length mu ->
  g_point_log_likelihood_fast F sub mul of_int M flit math_pi np_log np_quad_form point mu theta ld (Z.of_nat W) (Z.of_nat N)
  = Ret (ll half sub mul ld (np_quad_form (centred F sub point mu) theta (centred F sub point mu))
            (nw_log_2pi mul of_nat (W * N) (log2pi F two mul math_pi np_log))).
Proof. exact g_point_ll_eq. Qed.
Print Assumptions C05_code_point_formula.

(* the table: T x K, cell (p, c) = the model formula with point p and exactly cluster c's mean, matrix and log-det *)
Theorem C05_code_table : forall (F : Type) (zero half two : F) (sub mul : F -> F -> F) (of_nat : nat -> F) (of_int : Z -> F)
    (M : Type) (dm : M) (flit : string -> F) (math_pi : F) (np_log : F -> F) (np_quad_form : list F -> M -> list F -> F),
  flit "0.5"%string = half -> of_int 2%Z = two -> (forall n : nat, of_int (Z.of_nat n) = of_nat n) ->
  forall (T K NW W : nat) (data mus : list (list F)) (thetas : list M) (lds : list F),
  1 <= W ->
  length data = T -> Forall (fun r => length r = NW) data ->
  length mus = K -> Forall (fun r => length r = NW) mus ->
  length thetas = K -> length lds = K ->
  g_all_points_all_clusters_log_likelihood_fast F zero sub mul of_int M flit math_pi np_log np_quad_form
     (Z.of_nat W) (Z.of_nat K) (mk_arr2 (Z.of_nat K) (Z.of_nat NW) mus) thetas lds (mk_arr2 (Z.of_nat T) (Z.of_nat NW) data)
  = Ret (mk_arr2 (Z.of_nat T) (Z.of_nat K)
           (ll_table half sub mul of_nat T K (W * (NW / W)) (log2pi F two mul math_pi np_log) (fun c => nth c lds zero)
                     (quad_of F sub M dm np_quad_form data mus thetas))).
Proof. exact g_ll_table_eq. Qed.
Print Assumptions C05_code_table.

(* over the reals, with np.log = ln, math.pi = PI, the literal 0.5 = 1/2 and int -> float exact: the value the translated
   per-point kernel returns for a point whose centred quadratic form is q under a matrix with determinant D > 0
   (log_det_theta = ln D) is the log of the N(mu, Theta^-1) density in dimension n = W * N *)
Theorem C05_code_point_is_log_density : forall (M : Type) (flit : string -> R) (np_quad_form : list R -> M -> list R -> R),
  flit "0.5"%string = (1 / 2)%R ->
  forall (point mu : list R) (theta : M) (D : R) (W N : nat),
  length point = length mu -> (0 < D)%R ->
  let q := np_quad_form (centred R Rminus point mu) theta (centred R Rminus point mu) in
  g_point_log_likelihood_fast R Rminus Rmult IZR M flit PI ln np_quad_form point mu theta (ln D) (Z.of_nat W) (Z.of_nat N)
  = Ret (ln (sqrt (D / (2 * PI) ^ (W * N)) * exp (- q / 2))).
Proof.
  intros M flit qf Hhalf point mu theta D W N Hlen HD q.
  rewrite (g_point_ll_eq R (1 / 2)%R 2%R Rminus Rmult INR IZR M flit PI ln qf Hhalf eq_refl
                         (fun n => eq_sym (INR_IZR_INZ n)) point mu theta (ln D) W N Hlen).
  f_equal. fold q. symmetry. unfold log2pi, nw_log_2pi. apply (ll_is_log_density D q (W * N) HD).
Qed.
Print Assumptions C05_code_point_is_log_density.

(* ---- the likelihood WRAPPERS AS TRANSLATED in skeleton mode (Gen/G_ll_point.v, Gen/G_ll_table.v; facts: Proofs/GenEquivLW.v): the
   kernel of one point gets the cluster's own stored mean, inverse covariance and log-determinant; for the table, every cluster
   0 .. K-1, once and in order, has its inverse covariance set to its train_inverse and its log-determinant to component [1] of
   slogdet OF THAT SAME matrix, and the table kernel gets the stacks built from the so-updated model and the caller's data ---- *)
From Ticc Require Import Gen.PySkel Gen.G_ll_point Gen.G_ll_table Proofs.GenEquivLW.
Section SkelLW05.
  Local Open Scope string_scope.
  Variable V : Type.
  Variable vnone : V.
  Variable vint : Z -> V.
  Variable as_int : V -> option Z.
  Variable veq : V -> V -> bool.
  Variable getattr : V -> string -> V.
  Variable truthy : V -> bool.
  Variable is_none : V -> bool.
  Variables vtrue vfalse : V.
  Variable as_list : V -> list V.
  Variable vglobal : string -> V.
  Variable oracle : list (event V) -> string -> list V -> res V.
  Let table_run := GenEquivLW.table_run V vint getattr oracle.
  Theorem C05_code_point_wrapper (point cluster window_size num_data_series r : V) (log log' : list (event V)) :
    g_point_log_likelihood V getattr oracle point cluster window_size num_data_series log = (Ret r, log') ->
    log' = (log ++ [Ev "point_log_likelihood_fast"
                       [point; getattr cluster "stacked_data_mean"; getattr cluster "inverse_covariance";
                        getattr cluster "log_determinant"; window_size; num_data_series]])%list /\
    oracle log "point_log_likelihood_fast"
           [point; getattr cluster "stacked_data_mean"; getattr cluster "inverse_covariance";
            getattr cluster "log_determinant"; window_size; num_data_series] = Ret r.
  Proof. intros; eapply ll_point_returns; eassumption. Qed.
  Theorem C05_code_table_wrapper (model stacked_training_data r : V) (log log' : list (event V)) (K : Z) :
    as_int (getattr (getattr model "arguments") "num_clusters") = Some K ->
    g_all_points_all_clusters_log_likelihood V vint as_int getattr oracle model stacked_training_data log = (Ret r, log') ->
    exists evs mK mus thetas logdets,
      table_run (Z.to_nat K) 0 model log evs mK /\
      length evs = (4 * Z.to_nat K)%nat /\
      log' = (log ++ evs
                  ++ [Ev f_mus [mK]; Ev f_thetas [mK]; Ev f_logdets [mK];
                      Ev f_table_fast [getattr (getattr mK "arguments") "window_size";
                                       getattr (getattr mK "arguments") "num_clusters";
                                       mus; thetas; logdets; stacked_training_data]])%list /\
      oracle (log ++ evs)%list f_mus [mK] = Ret mus /\
      oracle (log ++ evs ++ [Ev f_mus [mK]])%list f_thetas [mK] = Ret thetas /\
      oracle (log ++ evs ++ [Ev f_mus [mK]; Ev f_thetas [mK]])%list f_logdets [mK] = Ret logdets /\
      oracle (log ++ evs ++ [Ev f_mus [mK]; Ev f_thetas [mK]; Ev f_logdets [mK]])%list f_table_fast
             [getattr (getattr mK "arguments") "window_size"; getattr (getattr mK "arguments") "num_clusters";
              mus; thetas; logdets; stacked_training_data] = Ret r.
  Proof. intros; eapply ll_table_returns; eassumption. Qed.
End SkelLW05.
Print Assumptions C05_code_point_wrapper.
Print Assumptions C05_code_table_wrapper.

(* ---- the LIKELIHOOD TABLE WRAPPER END TO END for the code AS TRANSLATED (Proofs/InterpLikelihood.v): its skeleton interpreted over
   abstract matrices / vectors and arbitrary kernels.  Whatever the scoring caches of the clusters held before (stale or empty): the
   table is the table kernel applied to the clusters' stored means, their TRAIN_INVERSE matrices (the fitted MRFs) and the
   log-determinants OF THOSE VERY MATRICES, every cluster in order, with the data of the call.  (table_wrapper_stores in the same file:
   the only stores into the model given are, per cluster, inverse_covariance := train_inverse and log_determinant := logdet of it.) ---- *)
From Ticc Require Import Gen.G_ll_table Proofs.InterpLikelihood.
Theorem C05_code_table_wrapper_end_to_end : forall (Mx Vec Num Dt Tab : Type) (logdet : Mx -> Num)
    (table_fast : nat -> nat -> list Vec -> list Mx -> list Num -> Dt -> Tab)
    (point_fast : Vec -> Vec -> Mx -> Num -> nat -> nat -> Num)
    (cs : list (Cluster Mx Vec Num)) (W : nat) (d : Dt),
  exists log' : list (PySkel.event (InterpLikelihood.val Mx Vec Num Dt Tab)),
    g_all_points_all_clusters_log_likelihood (InterpLikelihood.val Mx Vec Num Dt Tab) (InterpLikelihood.VInt Mx Vec Num Dt Tab)
      (InterpLikelihood.as_int Mx Vec Num Dt Tab) (InterpLikelihood.getattr Mx Vec Num Dt Tab)
      (InterpLikelihood.oracle_model Mx Vec Num Dt Tab logdet table_fast point_fast)
      (InterpLikelihood.VModel Mx Vec Num Dt Tab cs W) (InterpLikelihood.VData Mx Vec Num Dt Tab d) nil
    = (PyRt.Ret (VTab Mx Vec Num Dt Tab
         (table_fast W (length cs) (List.map (mean Mx Vec Num) cs) (List.map (train_inverse Mx Vec Num) cs)
            (List.map (fun c : Cluster Mx Vec Num => logdet (train_inverse Mx Vec Num c)) cs) d)), log').
Proof. exact table_wrapper_end_to_end. Qed.
Print Assumptions C05_code_table_wrapper_end_to_end.
