(* C08 on the two core steps of cluster repopulation AS TRANSLATED from /repo's current source by vcheck/py2coq.py
   (cluster_maintenance._find_point_donor - a `while` loop, rendered on explicit fuel - and _move_random_points ->
   Gen/G_cluster_maintenance.v, regenerated on every run; equivalence with the model: Proofs/GenEquivCR.v).
   random.sample is an uninterpreted symbol `sample`.  Statements only. *)
From Coq Require Import String.
From Coq Require Import List Arith ZArith Lia.
Import ListNotations.
From Ticc Require Import Gen.PyRt Gen.G_cluster_maintenance Model.Repop Proofs.RepopP Proofs.GenEquivCR.

(* the donor search as translated IS the model's search - including the RuntimeError when no candidate holds 2m points and the
   (dead, see C08_dead_branch) branch that pops the last candidate although the first was tested - whenever the fuel exceeds
   the number of candidates; the loop therefore terminates within len(candidates) + 1 tests of its condition *)
Theorem C08_code_find_donor : forall (K m : nat) (labels rem : list nat) (fuel : nat),
  Forall (fun d => d < K) rem -> length rem < fuel ->
  g_find_point_donor fuel (rp_of K m labels) (map Z.of_nat rem)
  = donor_result (find_donor fuel m labels rem).
Proof. exact g_find_point_donor_eq. Qed.
Print Assumptions C08_code_find_donor.

(* the move as translated IS the model's move, for every draw of DISTINCT positions below the donor's size.
   (Without distinctness the statement is false of the code: a repeated position makes the loop revisit a point it has
   already relabelled and the assertion fails - the computed counterexample is GenEquivCR.move_counterexample;
   random.sample never repeats a position.) *)
Theorem C08_code_move : forall (sample : Z -> Z -> list Z) (K m : nat) (labels : list nat) (donor recipient : nat) (idxs : list nat),
  donor < K ->
  sample (Z.of_nat (size labels donor)) (Z.of_nat m) = map Z.of_nat idxs ->
  Forall (fun i => i < size labels donor) idxs ->
  NoDup idxs ->
  g_move_random_points sample (rp_of K m labels) (Z.of_nat donor) (Z.of_nat recipient)
  = Ret (map Z.of_nat (move labels donor recipient idxs)).
Proof. exact g_move_random_points_eq. Qed.
Print Assumptions C08_code_move.

(* non-vacuity: both steps computed on a labelling with a starved cluster (3) and one rich donor (1) *)
Example C08_code_example :
  let labels := [0;1;1;2;1;1;0;1;2;1;1] in
  g_find_point_donor 5 (rp_of 4 2 labels) (map Z.of_nat [1;0;2]) = Ret (1%Z, [1;0;2]%Z) /\
  g_move_random_points (fun _ _ => [5;0]%Z) (rp_of 4 2 labels) 1 3 = Ret [0;3;1;2;1;1;0;1;2;3;1]%Z.
Proof. vm_compute. split; reflexivity. Qed.
Print Assumptions C08_code_example.

(* ---- REPOPULATION AS TRANSLATED in skeleton mode (Gen/G_cm_repopulate.v; facts: Proofs/GenEquivPH.v): otherwise it works on a shallow
   copy whose clusters are deep copies, ranks the donors ONCE on that copy, and then for each under-populated cluster in order
   makes exactly the three calls  _find_point_donor(copy, remaining donors) ; _move_random_points(copy, that donor, the cluster) ;
   copy.point_labels = <the moved labelling>  - the remaining-donor list and the copy being threaded from one refill to the next ---- *)
From Ticc Require Import Gen.PySkel Gen.G_cm_repopulate Proofs.GenEquivPH.
Section SkelPH08.
  Local Open Scope string_scope.
  Variable V : Type.
  Variable vnone : V.
  Variable vint : Z -> V.
  Variable as_int : V -> option Z.
  Variable veq : V -> V -> bool.
  Variable getattr : V -> string -> V.
  Variable truthy : V -> bool.
  Variable is_none : V -> bool.
  Variables vtrue vfalse : V.
  Variable as_list : V -> list V.
  Variable vglobal : string -> V.
  Variable oracle : list (event V) -> string -> list V -> res V.
  Let scan_events := GenEquivPH.scan_events V as_int getattr.
  Let sized := GenEquivPH.sized V as_int getattr.
  Let move_events := GenEquivPH.move_events V getattr.
  Let last_state := GenEquivPH.last_state V.
  Let move_answers := GenEquivPH.move_answers V getattr oracle.
  Theorem C08_code_repopulate_moves (model r : V) (log log' : list (event V)) :
    g_repopulate_empty_clusters V as_int getattr as_list oracle model log = (Ret r, log') ->
    exists s en lenv n,
      let base := (log ++ [Ev "set" []; Ev "enumerate" [getattr model "clusters"]]
                       ++ scan_events s (as_list en) ++ [Ev "len" [s]])%list in
      oracle log "set" [] = Ret s /\
      oracle (log ++ [Ev "set" []])%list "enumerate" [getattr model "clusters"] = Ret en /\
      Forall sized (as_list en) /\
      oracle (log ++ [Ev "set" []; Ev "enumerate" [getattr model "clusters"]] ++ scan_events s (as_list en))%list
             "len" [s] = Ret lenv /\
      as_int lenv = Some n /\
      (n <> 0%Z ->
       exists m0 cl m1 donors ans,
        length ans = length (as_list s) /\
        log' = (base ++ [Ev "method:shallow_copy" [model]; Ev f_deep [model]; Ev "setattr:clusters" [m0; cl];
                         Ev "_find_ranked_donor_cluster_ids" [m1]]
                     ++ move_events donors m1 (as_list s) ans)%list /\
        oracle base "method:shallow_copy" [model] = Ret m0 /\
        oracle (base ++ [Ev "method:shallow_copy" [model]; Ev f_deep [model]])%list "setattr:clusters" [m0; cl] = Ret m1 /\
        oracle (base ++ [Ev "method:shallow_copy" [model]; Ev f_deep [model]; Ev "setattr:clusters" [m0; cl]])%list
               "_find_ranked_donor_cluster_ids" [m1] = Ret donors /\
        move_answers (base ++ [Ev "method:shallow_copy" [model]; Ev f_deep [model]; Ev "setattr:clusters" [m0; cl];
                               Ev "_find_ranked_donor_cluster_ids" [m1]])%list donors m1 (as_list s) ans /\
        r = last_state m1 ans).
  Proof. intros; eapply repopulate_moves; eassumption. Qed.
End SkelPH08.
Print Assumptions C08_code_repopulate_moves.

(* ---- the RANKING OF DONORS AS TRANSLATED (Gen/G_cm_ranked.v; facts: Proofs/GenEquivAR.v): `sorted`, descending, of exactly the candidates
   selected by  size >= 2 * min_cluster_size  on the model given, keyed by a function of the spreads computed on that same model ---- *)
From Ticc Require Import Gen.PySkel Gen.G_cm_ranked Proofs.GenEquivAR.
Section SkelAR08.
  Local Open Scope string_scope.
  Variable V : Type.
  Variable vnone : V.
  Variable vint : Z -> V.
  Variable as_int : V -> option Z.
  Variable veq : V -> V -> bool.
  Variable getattr : V -> string -> V.
  Variable truthy : V -> bool.
  Variable is_none : V -> bool.
  Variables vtrue vfalse : V.
  Variable as_list : V -> list V.
  Variable vglobal : string -> V.
  Variable oracle : list (event V) -> string -> list V -> res V.
  Let ranked_events := GenEquivAR.ranked_events V vtrue.
  Theorem C08_code_ranked_donors (model r : V) (log log' : list (event V)) :
    g_find_ranked_donor_cluster_ids V vtrue oracle model log = (Ret r, log') ->
    exists cands spreads keyfn,
      log' = (log ++ ranked_events model cands spreads keyfn)%list /\
      oracle log f_cands [model] = Ret cands /\
      oracle (log ++ firstn 1 (ranked_events model cands spreads keyfn))%list f_spreads [model] = Ret spreads /\
      oracle (log ++ firstn 2 (ranked_events model cands spreads keyfn))%list f_keyfn [spreads] = Ret keyfn /\
      oracle (log ++ firstn 3 (ranked_events model cands spreads keyfn))%list "sorted(key=,reverse=)" [cands; keyfn; vtrue] = Ret r.
  Proof. intros; eapply ranked_returns; eassumption. Qed.
End SkelAR08.
Print Assumptions C08_code_ranked_donors.

(* ---- the control skeleton INTERPRETED (Proofs/InterpRepop.v): with a concrete value type and every callee of the generated
   skeleton answered by the hand model's own helper (rank_donors, find_donor, move; the Python set iterates over `order`, the
   j-th refill uses the j-th draw), the skeleton of repopulate_empty_clusters AS TRANSLATED returns exactly what
   Model/Repop.repopulate returns and raises exactly when it is None - for every K, m, spread, order, draws and labelling.
   Together with C08_code_find_donor / C08_code_move (the helpers as translated = the model's helpers) the model's composition
   of the helpers - the refill loop - is the code's, not only the helpers themselves. ---- *)
From Ticc Require Import Gen.G_cm_repopulate Proofs.InterpRepop.
Theorem C08_code_skeleton_computes_model : forall (K m : nat) (spread : nat -> nat) (order : list nat) (draws : list (list nat)) (labels : list nat),
  match repopulate K m spread order draws labels with
  | Some out => exists log',
      g_repopulate_empty_clusters val as_int getattr as_list (oracle_model K m spread order draws) (VState labels) []
      = (Ret (VState out), log')
  | None => exists e log',
      g_repopulate_empty_clusters val as_int getattr as_list (oracle_model K m spread order draws) (VState labels) []
      = (Raise e, log')
  end.
Proof. exact repopulate_skeleton_is_model. Qed.
Print Assumptions C08_code_skeleton_computes_model.

(* hence the guarantees proved of the model (C08_ok) hold of whatever the interpreted skeleton returns *)
From Ticc Require Import Proofs.RepopP.
Theorem C08_code_skeleton_conserves : forall (K m : nat) (spread : nat -> nat) (order : list nat) (draws : list (list nat)) (labels : list nat) r log',
  Hyp K m spread order draws labels ->
  g_repopulate_empty_clusters val as_int getattr as_list (oracle_model K m spread order draws) (VState labels) [] = (Ret r, log') ->
  exists out, r = VState out /\
    length out = length labels /\ Forall (fun c => (c < K)%nat) out /\
    (forall k, In k order -> size out k = (size labels k + m)%nat) /\
    (forall k, (k < K)%nat -> ~ In k order ->
        exists j, size labels k = (size out k + j * m)%nat /\ ((0 < j)%nat -> (2 * m <= size labels k)%nat /\ (m <= size out k)%nat)).
Proof.
  intros K m spread order draws labels r log' HH Hrun.
  pose proof (repopulate_skeleton_is_model K m spread order draws labels) as Hm.
  destruct (repopulate K m spread order draws labels) as [out|] eqn:Hrep.
  - destruct Hm as [log2 Hm]. rewrite Hm in Hrun. injection Hrun as Hr _. exists out. split; [symmetry; exact Hr|].
    destruct (repop_ok K m spread order draws labels out HH Hrep) as (H1 & H2 & _ & H4 & H5).
    repeat split; assumption.
  - destruct Hm as [e [log2 Hm]]. rewrite Hm in Hrun. discriminate Hrun.
Qed.
Print Assumptions C08_code_skeleton_conserves.

(* ---- and with the two helper callees answered by the helpers AS TRANSLATED IN FULL (Gen/G_cluster_maintenance.v: g_find_point_donor,
   g_move_random_points, the j-th move drawing the j-th sample) instead of the model's (Proofs/InterpRepopCode.v): under the model's own
   well-formedness hypothesis (labels < K, `order` = the under-populated clusters without repetition, every draw a repetition-free
   list of positions within its donor) the control skeleton as translated computes Model/Repop.repopulate - glue AND helpers are the
   code's ---- *)
From Ticc Require Import Proofs.InterpRepopCode.
Theorem C08_code_skeleton_and_helpers_compute_model : forall (K m : nat) (spread : nat -> nat) (order : list nat) (draws : list (list nat)) (labels : list nat),
  Hyp K m spread order draws labels ->
  match repopulate K m spread order draws labels with
  | Some out => exists log',
      g_repopulate_empty_clusters val as_int getattr as_list (oracle_code K m spread order draws) (VState labels) []
      = (Ret (VState out), log')
  | None => exists e log',
      g_repopulate_empty_clusters val as_int getattr as_list (oracle_code K m spread order draws) (VState labels) []
      = (Raise e, log')
  end.
Proof. exact repopulate_code_is_model. Qed.
Print Assumptions C08_code_skeleton_and_helpers_compute_model.
