(* C03 - every MRF is a finite, symmetric, positive-definite precision matrix (PARTIAL).
   Proved: symmetry of the re-inflated matrix, the covariance-floor predicate, positivity of
   the eigenvalue map over R; computed refutations of the pre-repair code on binary64.
   NOT proved: positive definiteness of the floating-point product Q diag(theta) Q^T (LAPACK
   eigh and BLAS products are oracles); see MANIFEST level_note. *)
From Coq Require Import List Arith Reals Lra PrimFloat.
Import ListNotations.
From Ticc Require Import Model.TriIndex Model.Admm Model.InstR Model.InstF Proofs.TriIndexP Proofs.AdmmP Corr.RunAdmm.

(* every returned matrix is exactly symmetric (any carrier with commutative addition - true of binary64) *)
Theorem C03_reinflate_symmetric : forall (A : Type) (zero : A) (add sub : A -> A -> A) (v : list A),
  (forall x y, add x y = add y x) -> forall r c, reinflate zero add sub v r c = reinflate zero add sub v c r.
Proof. intros A zero add sub v H r c. apply reinflate_symmetric. exact H. Qed.
Print Assumptions C03_reinflate_symmetric.

(* covariance floor: with eps > 0 no returned entry has magnitude strictly between 0 and eps,
   every entry of magnitude >= eps is exactly what the optimiser produced; eps = 0 changes nothing *)
Theorem C03_floor : forall eps x : R,
  let y := zero_smallR eps x in
  (y = 0%R \/ y = x) /\ ((0 < eps)%R -> ~ (0 < Rabs y < eps)%R) /\ ((eps <= Rabs x)%R -> y = x) /\ ((eps <= 0)%R -> y = x).
Proof. exact zero_small_R. Qed.
Print Assumptions C03_floor.

(* for any carrier (binary64 incl. NaN): the filter returns the entry itself or zero, nothing else *)
Theorem C03_floor_generic : forall (A : Type) (zero : A) (sub : A -> A -> A) (ltb : A -> A -> bool) (eps x : A),
  zero_small zero sub ltb eps x = zero \/ zero_small zero sub ltb eps x = x.
Proof. exact (@zero_small_generic). Qed.
Print Assumptions C03_floor_generic.

(* every eigenvalue the X update assigns is positive (over R) *)
Theorem C03_theta_positive : forall rho d : R, (0 < rho)%R -> (0 < thetaR rho d)%R.
Proof. intros rho d H. apply (theta_prox rho d H). Qed.
Print Assumptions C03_theta_positive.

(* FIXED DEFECT (4926ecb): the original formula (d + sqrt(d^2+4rho))/(2rho) is exactly 0 in
   binary64 for d = -1e9, rho = 1 - a singular "precision matrix"; the repaired form is not *)
Example C03_theta_legacy_refuted :
  theta_legacyF 1%float (-0x1.dcd65p+29)%float = 0%float /\
  PrimFloat.ltb 0%float (thetaF 1%float (-0x1.dcd65p+29)%float) = true /\
  PrimFloat.ltb 0%float (thetaF 1%float (-0x1.d1a94a2p+39)%float) = true /\
  PrimFloat.ltb 0%float (thetaF 1%float (-0x1.4adf4b7320335p+99)%float) = true.
Proof. vm_compute. repeat split. Qed.
Print Assumptions C03_theta_legacy_refuted.

(* FIXED DEFECT (481b606): log(det) leaves the double range although log-det is moderate:
   the product of 100 pivots of 1e-4 is 0 in binary64 *)
Example C03_logdet_legacy_refuted :
  fold_left PrimFloat.mul (repeat 0x1.a36e2eb1c432dp-14%float 100) 1%float = 0%float.
Proof. vm_compute. reflexivity. Qed.
Print Assumptions C03_logdet_legacy_refuted.

(* over R the log-determinant is the sum of the logs of the (positive) pivots - what slogdet computes *)
Theorem C03_logdet_sum : forall ps : list R, Forall (fun p => (0 < p)%R) ps ->
  fold_right Rplus 0%R (map ln ps) = ln (fold_right Rmult 1%R ps).
Proof. exact sum_ln_is_ln_prod. Qed.
Print Assumptions C03_logdet_sum.
