(* C10 - window stacking is exact and never crosses a series boundary.
   Statements only; proofs are in Proofs/StackingP.v. *)
From Coq Require Import List Arith ZArith.
Import ListNotations.
From Ticc Require Import Model.Stacking Proofs.StackingP.

(* T-W+1 rows of N*W columns; the element type A is arbitrary: the model only
   copies, so this holds bit for bit for every float payload. *)
Theorem C10_shape : forall (A : Type) (W N : nat) (data : list (list A)),
  Forall (fun r => length r = N) data ->
  length (stack W data) = length data + 1 - W /\
  Forall (fun r => length r = W * N) (stack W data).
Proof. intros A W N data H. split; [apply stack_length | apply stack_row_length; exact H]. Qed.
Print Assumptions C10_shape.

(* columns [jN,(j+1)N) of row i are row i+j of the input *)
Theorem C10_cell : forall (A : Type) (W N : nat) (data : list (list A)) (i j k : nat) (d : A),
  Forall (fun r => length r = N) data ->
  i < length data + 1 - W -> j < W -> k < N ->
  nth (j * N + k) (nth i (stack W data) []) d = nth k (nth (i + j) data []) d.
Proof. intros. apply stack_cell; assumption. Qed.
Print Assumptions C10_cell.

(* several series: row-wise concatenation, in input order, of the individual stackings *)
Theorem C10_multi_is_concat : forall (A : Type) (W : nat) (series : list (list (list A))),
  stack_multi W series = concat (map (stack W) series) /\
  length (stack_multi W series) = list_sum (map (fun s => length s + 1 - W) series).
Proof. intros. split; [reflexivity | apply stack_multi_length]. Qed.
Print Assumptions C10_multi_is_concat.

(* every stacked row lies inside one series *)
Theorem C10_rows_within_series : forall (A : Type) (W : nat) (series : list (list (list A))) (r : list A),
  In r (stack_multi W series) ->
  exists s i, In s series /\ i + W <= length s /\ r = window W s i.
Proof.
  intros A W series r H. destruct (stack_multi_rows_within_series W series r H) as [s [i [H1 [H2 [_ H3]]]]].
  exists s, i. auto.
Qed.
Print Assumptions C10_rows_within_series.

(* splitting a concatenated label list by the stacked lengths and padding each
   part restores one list per series of the original length, and the labels
   themselves are recovered by un-padding *)
Theorem C10_split_pad_roundtrip : forall (W : nat) (lens : list nat) (labels : list Z),
  1 <= W -> Forall (fun T => W <= T) lens ->
  length labels = list_sum (map (num_windows W) lens) ->
  length (front_joint_labels W lens labels) = length lens /\
  map (@length Z) (front_joint_labels W lens labels) = lens /\
  concat (map (fun '(T, p) => firstn (num_windows W T) (skipn (pad_front W) p))
              (combine lens (front_joint_labels W lens labels))) = labels.
Proof.
  intros W lens labels HW Hl HL. split; [apply front_joint_count|].
  split; [apply front_joint_lengths; assumption | apply front_joint_unpad; exact HL].
Qed.
Print Assumptions C10_split_pad_roundtrip.

Theorem C10_split_concat : forall (A : Type) (parts : list (list A)),
  split_by (map (@length A) parts) (concat parts) = parts.
Proof. intros. apply split_by_concat. Qed.
Print Assumptions C10_split_concat.

(* non-vacuity: a 4x2 series, W = 3 *)
Example C10_example :
  stack 3 [[1;2];[3;4];[5;6];[7;8]] = [[1;2;3;4;5;6];[3;4;5;6;7;8]] /\
  front_joint_labels 3 [4;5] [0;1;2;3;4]%Z = [[-1;0;1;-1];[-1;2;3;4;-1]]%Z.
Proof. split; reflexivity. Qed.
Print Assumptions C10_example.
