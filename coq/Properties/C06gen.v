(* C06 on main_loop._compute_log_likelihood_by_cluster AS TRANSLATED from /repo's current source by vcheck/py2coq.py
   (Gen/G_main_loop_results.v, regenerated on every run; equivalence with the model: Proofs/GenEquivMR.v).
   likelihood.point_log_likelihood is an uninterpreted symbol `pll` of the translation.  Statements only. *)
From Coq Require Import String.
From Coq Require Import List Arith ZArith QArith Permutation.
Import ListNotations.
From Ticc Require Import Gen.PyRt Gen.G_main_loop_results Model.Repop Model.Viterbi Model.Accounting Proofs.AccountingP Proofs.GenEquivMR.
(* dependency-only (no names imported here): coqdep is not string-aware and stops seeing `Require`s after the label
   "expr:itertools.chain( *...)" below, so everything this file requires later is also named before that string *)
From Ticc Require Gen.PySkel Gen.G_main_loop_suffix Proofs.GenEquivRS Model.Accounting Model.Repop Proofs.InterpResult.
From Coq Require Permutation.

(* the translated function IS the model's bucketing: one list per cluster, holding the values of exactly the points
   labelled with it, in point order, each value computed from that point's row and that cluster's parameters *)
Theorem C06_code_is_buckets : forall (F CL : Type) (dcl : CL) (pll : list F -> CL -> Z -> Q -> F)
    (T K NW W : nat) (data : list (list F)) (cls : list CL) (labels : list nat),
  (1 <= W)%nat -> length data = T -> length labels = T -> length cls = K -> Forall (fun l => (l < K)%nat) labels ->
  g_compute_log_likelihood_by_cluster F CL pll (mk_arr2 (Z.of_nat T) (Z.of_nat NW) data)
     (mk_ll_model (mk_ll_args (Z.of_nat W) (Z.of_nat K)) cls (map Z.of_nat labels))
  = Ret (buckets K labels (value_of F CL dcl pll NW W data cls labels)).
Proof. exact g_buckets_eq. Qed.
Print Assumptions C06_code_is_buckets.

(* hence for the code as translated: exactly one entry per labelled point (the flattened lists are a permutation of the
   per-point values), and cluster k's list is the values of its own members - empty when it has none *)
Theorem C06_code_one_entry_per_point : forall (F CL : Type) (dcl : CL) (pll : list F -> CL -> Z -> Q -> F)
    (T K NW W : nat) (data : list (list F)) (cls : list CL) (labels : list nat),
  (1 <= W)%nat -> length data = T -> length labels = T -> length cls = K -> Forall (fun l => (l < K)%nat) labels ->
  exists bs : list (list F),
    g_compute_log_likelihood_by_cluster F CL pll (mk_arr2 (Z.of_nat T) (Z.of_nat NW) data)
       (mk_ll_model (mk_ll_args (Z.of_nat W) (Z.of_nat K)) cls (map Z.of_nat labels)) = Ret bs /\
    length bs = K /\
    Permutation (concat bs) (map (value_of F CL dcl pll NW W data cls labels) (seq 0 T)) /\
    length (concat bs) = T /\
    forall k, (k < K)%nat -> nth k bs [] = map (value_of F CL dcl pll NW W data cls labels) (members labels k).
Proof.
  intros F CL dcl pll T K NW W data cls labels HW Hd Hl Hc Hlab.
  exists (buckets K labels (value_of F CL dcl pll NW W data cls labels)).
  split; [apply g_buckets_eq; assumption|].
  split; [unfold buckets; rewrite map_length, seq_length; reflexivity|].
  split; [rewrite <- Hl; apply buckets_permutation; exact Hlab|].
  split; [rewrite <- Hl; apply flatten_buckets_length; exact Hlab|].
  intros k Hk. apply buckets_cluster. exact Hk.
Qed.
Print Assumptions C06_code_one_entry_per_point.

(* ---- the RESULT ASSEMBLY of main_loop.fit_stacked_data AS TRANSLATED in skeleton mode (Gen/G_main_loop_suffix.v: everything
   after the task pool is closed; every callee an oracle; facts: Proofs/GenEquivRS.v): a call that returns built the result
   from the final state's own label_assignment_cost, and from ONE list of per-point values - by_cluster =
   _compute_log_likelihood_by_cluster(data, FINAL state), chained in cluster order -: its np.sum is overall_log_likelihood,
   its np.mean / np.median the overall mean / median, the per-cluster means / medians are taken over that same by_cluster, and
   the chained list itself is all_log_likelihood.  No other call was made, so no other state, labelling or table can reach
   any of these fields ---- *)
From Ticc Require Import Gen.PySkel Gen.G_main_loop_suffix Proofs.GenEquivRS.
Theorem C06_code_result_fields : forall (V : Type) (vint : Z -> V) (as_int : V -> option Z) (getattr : V -> string -> V)
    (oracle : list (event V) -> string -> list V -> res V)
    (state data npoints r : V) (log log' : list (event V)) (T : Z),
  as_int (getattr (getattr data "shape"%string) "[0]"%string) = Some T ->
  g_fit_stacked_data_result V vint as_int getattr oracle state data npoints log = (Ret r, log') ->
  exists bic chi minus1 copies labelsT mrfs by_cluster chained all_ll total mean median cmean cmedian,
    log' = (log ++ [Ev "cluster_metrics.bayesian_information_criterion"%string [state];
                    Ev "cluster_metrics.calinski_harabasz_index"%string [data; state];
                    Ev "expr:[-1]"%string []; Ev "op:*"%string [minus1; npoints]]
                ++ copies
                ++ [Ev f_mrfs [state];
                    Ev "_compute_log_likelihood_by_cluster"%string [data; state];
                    Ev "expr:itertools.chain(*cluster_log_likelihood)"%string [by_cluster];
                    Ev "list"%string [chained];
                    Ev "np.sum"%string [all_ll]; Ev "np.mean"%string [all_ll]; Ev "np.median"%string [all_ll];
                    Ev f_cmean [by_cluster]; Ev f_cmedian [by_cluster];
                    Ev f_result [bic; chi; getattr state "label_assignment_cost"%string; total; mean; median; cmean; cmedian;
                                 all_ll; mrfs; getattr (getattr state "arguments"%string) "num_clusters"%string; labelsT;
                                 getattr (getattr state "arguments"%string) "window_size"%string]])%list /\
    length copies = (2 * Z.to_nat T)%nat /\
    (forall i, (i < Z.to_nat T)%nat -> exists lb v, firstn 2 (skipn (2 * i) copies) = copy_events V vint getattr state lb i v) /\
    oracle log "cluster_metrics.bayesian_information_criterion"%string [state] = Ret bic.
Proof. exact result_assembly. Qed.
Print Assumptions C06_code_result_fields.

(* ---- the RESULT ASSEMBLY's control skeleton INTERPRETED by the accounting model (Proofs/InterpResult.v; any carrier, any median): as
   translated, the assembly builds a result whose per-point list is the flattened per-cluster lists of the final state - a permutation of
   the per-point values, exactly one per point -, whose overall sum / mean / median are taken of THAT list, whose per-cluster mean / median
   are taken over exactly the points labelled with the cluster (zero for a cluster without points), whose labels are a copy of the final
   state's labels and whose cost is the final state's cost.  Property C06's accounting clauses for the code's own composition. ---- *)
From Coq Require Import Permutation.
From Ticc Require Import Model.Accounting Model.Repop Proofs.InterpResult.
Theorem C06_code_result_fields_consistent : forall (A : Type) (zero : A) (add div : A -> A -> A) (of_nat : nat -> A) (median : list A -> A)
    (Mrf : Type) (K W : nat) (labels : list nat) (cost : A) (mrfs : list Mrf) (value : nat -> A) (bic chi : A) (T : nat),
  T = length labels -> Forall (fun c : nat => (c < K)%nat) labels ->
  exists (r : result_data A Mrf) (log' : list (event (InterpResult.val A Mrf))),
    g_fit_stacked_data_result (InterpResult.val A Mrf) (InterpResult.VInt A Mrf) (InterpResult.as_int A Mrf)
      (InterpResult.getattr A Mrf K W labels cost)
      (InterpResult.oracle_model A zero add div of_nat median Mrf K labels mrfs value bic chi)
      (VState A Mrf) (VData A Mrf T) (InterpResult.VInt A Mrf (Z.of_nat T)) nil
    = (Ret (InterpResult.VResult A Mrf r), log') /\
    Permutation (r_all A Mrf r) (map value (seq 0 T)) /\ length (r_all A Mrf r) = T /\
    r_overall A Mrf r = Accounting.sum zero add (r_all A Mrf r) /\
    r_overall_mean A Mrf r = Accounting.mean zero add div of_nat (r_all A Mrf r) /\
    r_overall_median A Mrf r = median (r_all A Mrf r) /\
    length (r_cluster_mean A Mrf r) = K /\
    (forall k : nat, (k < K)%nat ->
       nth k (r_cluster_mean A Mrf r) zero = agg0 zero (Accounting.mean zero add div of_nat) (map value (members labels k)) /\
       nth k (r_cluster_median A Mrf r) zero = agg0 zero median (map value (members labels k))) /\
    (forall k : nat, (k < K)%nat -> members labels k = nil ->
       nth k (r_cluster_mean A Mrf r) zero = zero /\ nth k (r_cluster_median A Mrf r) zero = zero) /\
    r_labels A Mrf r = map Z.of_nat labels /\ length (r_labels A Mrf r) = T /\ r_cost A Mrf r = cost.
Proof. exact result_fields_consistent. Qed.
Print Assumptions C06_code_result_fields_consistent.
