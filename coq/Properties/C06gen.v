(* C06 on main_loop._compute_log_likelihood_by_cluster AS TRANSLATED from /repo's current source by vcheck/py2coq.py
   (Gen/G_main_loop_results.v, regenerated on every run; equivalence with the model: Proofs/GenEquivMR.v).
   likelihood.point_log_likelihood is an uninterpreted symbol `pll` of the translation.  Statements only. *)
From Coq Require Import String.
From Coq Require Import List Arith ZArith QArith Permutation.
Import ListNotations.
From Ticc Require Import Gen.PyRt Gen.G_main_loop_results Model.Repop Model.Viterbi Model.Accounting Proofs.AccountingP Proofs.GenEquivMR.

(* the translated function IS the model's bucketing: one list per cluster, holding the values of exactly the points
   labelled with it, in point order, each value computed from that point's row and that cluster's parameters *)
Theorem C06_code_is_buckets : forall (F CL : Type) (dcl : CL) (pll : list F -> CL -> Z -> Q -> F)
    (T K NW W : nat) (data : list (list F)) (cls : list CL) (labels : list nat),
  (1 <= W)%nat -> length data = T -> length labels = T -> length cls = K -> Forall (fun l => (l < K)%nat) labels ->
  g_compute_log_likelihood_by_cluster F CL pll (mk_arr2 (Z.of_nat T) (Z.of_nat NW) data)
     (mk_ll_model (mk_ll_args (Z.of_nat W) (Z.of_nat K)) cls (map Z.of_nat labels))
  = Ret (buckets K labels (value_of F CL dcl pll NW W data cls labels)).
Proof. exact g_buckets_eq. Qed.
Print Assumptions C06_code_is_buckets.

(* hence for the code as translated: exactly one entry per labelled point (the flattened lists are a permutation of the
   per-point values), and cluster k's list is the values of its own members - empty when it has none *)
Theorem C06_code_one_entry_per_point : forall (F CL : Type) (dcl : CL) (pll : list F -> CL -> Z -> Q -> F)
    (T K NW W : nat) (data : list (list F)) (cls : list CL) (labels : list nat),
  (1 <= W)%nat -> length data = T -> length labels = T -> length cls = K -> Forall (fun l => (l < K)%nat) labels ->
  exists bs : list (list F),
    g_compute_log_likelihood_by_cluster F CL pll (mk_arr2 (Z.of_nat T) (Z.of_nat NW) data)
       (mk_ll_model (mk_ll_args (Z.of_nat W) (Z.of_nat K)) cls (map Z.of_nat labels)) = Ret bs /\
    length bs = K /\
    Permutation (concat bs) (map (value_of F CL dcl pll NW W data cls labels) (seq 0 T)) /\
    length (concat bs) = T /\
    forall k, (k < K)%nat -> nth k bs [] = map (value_of F CL dcl pll NW W data cls labels) (members labels k).
Proof.
  intros F CL dcl pll T K NW W data cls labels HW Hd Hl Hc Hlab.
  exists (buckets K labels (value_of F CL dcl pll NW W data cls labels)).
  split; [apply g_buckets_eq; assumption|].
  split; [unfold buckets; rewrite map_length, seq_length; reflexivity|].
  split; [rewrite <- Hl; apply buckets_permutation; exact Hlab|].
  split; [rewrite <- Hl; apply flatten_buckets_length; exact Hlab|].
  intros k Hk. apply buckets_cluster. exact Hk.
Qed.
Print Assumptions C06_code_one_entry_per_point.
