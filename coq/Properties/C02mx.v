(* C02, the X update as a MATRIX map (solver.py: x_update_prox), with mathcomp matrices over any field.
   Statements only; proofs in Proofs/XUpdateMx.v.

   x_update_prox forms  A = rho (Z - U) - S,  takes  (d, Q) = eigh(A)  - so A = Q diag(d) Q^T with Q
   orthogonal - and returns  X = Q diag(theta) Q^T  with  theta_i = (d_i + sqrt(d_i^2 + 4 rho)) / (2 rho),
   i.e. the positive root of  rho t - 1/t = d_i  (C02_theta_prox).  The theorems say that this X is the
   stationary point of the X sub-problem   -log det X + tr(S X) + rho/2 |X - Z + U|_F^2,
   whose gradient is  S - X^-1 + rho (X - Z + U):   rho X - X^-1 = A.
   Hypotheses = the contract of the oracles (LAPACK eigh returns an orthogonal Q that diagonalises A) and
   the scalar fact proved in C02_theta_prox; nothing is assumed about X itself. *)
From mathcomp Require Import all_ssreflect all_algebra.
From Ticc Require Import Proofs.XUpdateMx.
Import GRing.Theory.
Local Open Scope ring_scope.

Theorem C02_x_update_stationary_matrix :
  forall (F : fieldType) (n : nat) (Q : 'M[F]_n) (d th : 'rV[F]_n) (rho : F),
  Q *m Q^T = 1%:M ->
  (forall i, th 0 i != 0) ->
  (forall i, rho * th 0 i - (th 0 i)^-1 = d 0 i) ->
  let A := Q *m diag_mx d *m Q^T in
  let X := Q *m diag_mx th *m Q^T in
  X \in unitmx /\ rho *: X - invmx X = A /\ X^T = X.
Proof.
move=> F n Q d th rho HQ Hu Hr /=; split; first exact: (mxX_unit HQ Hu).
split; first exact: (mxX_stationary HQ Hu Hr).
exact: mxX_sym.
Qed.
Print Assumptions C02_x_update_stationary_matrix.

(* the inverse of the update is explicit: Q diag(1/theta) Q^T *)
Theorem C02_x_update_inverse :
  forall (F : fieldType) (n : nat) (Q : 'M[F]_n) (th : 'rV[F]_n),
  Q *m Q^T = 1%:M -> (forall i, th 0 i != 0) ->
  invmx (Q *m diag_mx th *m Q^T) = Q *m diag_mx (map_mx GRing.inv th) *m Q^T.
Proof. move=> F n Q th HQ Hu; exact: (mxX_inv HQ Hu). Qed.
Print Assumptions C02_x_update_inverse.
