(* C18 on IEEE binary64 (Coq's primitive floats), for ALL values and all class sizes - the general form of the
   computed witnesses in C18.v: the exactly rounded sum (math.fsum, Model/InstF.fsumF) of n copies of a finite
   non-zero x is the correctly rounded product x * n, bit for bit, overflow included.  Hence the matrix branch of
   compute_lambda_sum on a matrix filled with lambda equals the scalar branch lambda * (W - b), in every Toeplitz class.
   Statements only; proof in Proofs/FloatFsum.v (Flocq: binary_normalize_correct, Bmult_correct).  Uses the
   standard-library axioms of the reals through Flocq and the specification axioms of the primitive floats / integers. *)
From Coq Require Import List Arith ZArith Lia.
From Coq Require Import PrimFloat.
Import ListNotations.
From Ticc Require Import Model.TriIndex Model.Admm Model.InstF Proofs.TriIndexP Proofs.FloatFsum Corr.RunAdmm.

Theorem C18_fsum_of_copies_binary64 : forall (x : float) (n : nat),
  PrimFloat.is_finite x = true -> PrimFloat.is_zero x = false ->
  (1 <= n)%nat -> (Z.of_nat n < 2 ^ 53)%Z ->
  fsumF (repeat x n) = PrimFloat.mul x (of_natF n).
Proof. exact fsum_copies_is_product. Qed.
Print Assumptions C18_fsum_of_copies_binary64.

(* both branches of compute_lambda_sum, binary64 instance of the model (the one compared bit for bit with solver.py) *)
Theorem C18_lambda_forms_binary64 : forall (lam : float) (b r c N W : nat),
  PrimFloat.is_finite lam = true -> PrimFloat.is_zero lam = false ->
  (b < W)%nat -> (Z.of_nat W < 2 ^ 53)%Z ->
  lam_matrixF (fun _ _ => lam) b r c N W = lam_scalarF lam b W.
Proof.
  intros lam b r c N W Hf Hz Hb HW.
  unfold lam_matrixF, lam_scalarF, lambda_sum_matrix, lambda_sum_scalar.
  assert (Hrep : map (fun RC : nat * nat => lam) (class_positions b r c N W) = repeat lam (W - b)).
  { rewrite <- (class_size b r c N W). induction (class_positions b r c N W) as [|p l IH]; cbn; [reflexivity|now rewrite IH]. }
  change (map (fun RC : nat * nat => (fun _ _ : nat => lam) (fst RC) (snd RC)) (class_positions b r c N W))
    with (map (fun RC : nat * nat => lam) (class_positions b r c N W)).
  rewrite Hrep. apply fsum_copies_is_product; try assumption; lia.
Qed.
Print Assumptions C18_lambda_forms_binary64.
