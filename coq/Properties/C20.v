(* C20 - failures surface as exceptions, never as a partial result.
   Statements only; the loop is Model/MainLoop.v (error monad, pool life-cycle). *)
From Coq Require Import List Arith.
Import ListNotations.
From Ticc Require Import Model.MainLoop Proofs.MainLoopP.

Section C20.
  Context {M C : Type}.
  Variables (repopF : list nat -> option (list nat)) (fitF : list nat -> option M) (labelF : M -> list nat * C).

  (* a run that returns a result never contains a failed phase: every round's model was
     produced by fitF, every repopulation succeeded *)
  Theorem C20_no_result_from_failure : forall limit init t e p,
    run repopF fitF labelF limit init = Some (Done t e p) ->
    forall r, In r t -> fitF (r_fit_on r) = Some (r_model r) /\ (r_index r <> 0 -> repopF (r_in r) = Some (r_fit_on r)).
  Proof. exact (run_no_result_from_failure repopF fitF labelF). Qed.

  (* the outcome is Failed exactly because the phase that was due next failed: all earlier rounds
     are intact, and either repopulation (no donor) or fitting (an optimisation task) returned an error *)
  Theorem C20_fault_propagates : forall limit init t p,
    run repopF fitF labelF limit init = Some (Failed t p) ->
    Chain repopF fitF labelF 0 init t /\ length t < limit /\
    (let cur := match last_error t with Some r => r_out r | None => init end in
     (t <> [] /\ repopF cur = None) \/
     (exists l1, (if Nat.eqb (length t) 0 then l1 = cur else repopF cur = Some l1) /\ fitF l1 = None)).
  Proof. exact (run_failed repopF fitF labelF). Qed.

  (* the pool is released on every path: closed+joined after a result, terminated+joined after a failure *)
  Theorem C20_pool_released : forall limit init o,
    run repopF fitF labelF limit init = Some o ->
    match o with Done _ _ p => p = PoolClosedJoined | Failed _ p => p = PoolTerminatedJoined end.
  Proof. exact (run_pool repopF fitF labelF). Qed.
End C20.
Print Assumptions C20_no_result_from_failure.
Print Assumptions C20_fault_propagates.
Print Assumptions C20_pool_released.

(* the loop as it was before the repair left the pool open when a task failed *)
Example C20_legacy_leak_refuted : exists fitF : list nat -> option nat,
  loop_legacy (fun l => Some l) fitF (fun m => ([m], 0)) 3 0 None [0] = PoolOpen.
Proof. exact legacy_pool_leak. Qed.
Print Assumptions C20_legacy_leak_refuted.

(* non-vacuity: a fault in the second round's optimisation surfaces as Failed with one intact round *)
Example C20_example :
  let fitF := fun l : list nat => if Nat.eqb (hd 0 l) 0 then Some 1 else None in
  match run (fun l => Some l) fitF (fun m : nat => ([m], m)) 5 [0] with
  | Some (Failed t p) => length t = 1 /\ p = PoolTerminatedJoined
  | _ => False
  end.
Proof. vm_compute. split; reflexivity. Qed.
Print Assumptions C20_example.
