(* C18 on admm/solver.compute_lambda_sum AS TRANSLATED from /repo's current source by vcheck/py2coq.py (Gen/G_solver.v,
   regenerated on every run; equivalence with the model: Proofs/GenEquivLS.v), composed with the binary64 theorem of
   Properties/C18fl.v.  Statements only. *)
From Coq Require Import String.
From Coq Require Import List Arith ZArith Lia.
From Coq Require Import PrimFloat.
From Coq Require Uint63.
Import ListNotations.
From Ticc Require Import Gen.PyRt Gen.G_solver Model.Viterbi Model.TriIndex Model.Admm Model.InstF
     Proofs.TriIndexP Proofs.FloatFsum Proofs.GenEquivLS Corr.RunAdmm.

(* the two branches of the translated function are the model's, for every carrier *)
Theorem C18_code_scalar_branch : forall (F : Type) (mul : F -> F -> F) (of_nat : nat -> F) (of_int : Z -> F) (fsum : list F -> F),
  (forall n : nat, of_int (Z.of_nat n) = of_nat n) ->
  forall (lam : F) (b r c N W : nat), b < W ->
  g_compute_lambda_sum F mul of_int fsum (LamScalar lam) (Z.of_nat b) (Z.of_nat r) (Z.of_nat c) (Z.of_nat N) (Z.of_nat W)
  = Ret (lambda_sum_scalar mul of_nat lam b W).
Proof. exact g_lambda_scalar_eq. Qed.
Print Assumptions C18_code_scalar_branch.

Theorem C18_code_matrix_branch : forall (F : Type) (mul : F -> F -> F) (of_int : Z -> F) (fsum : list F -> F)
    (lamM : nat -> nat -> F) (b r c N W : nat),
  b < W -> 1 <= N -> r < N -> c < N ->
  g_compute_lambda_sum F mul of_int fsum
     (LamArray (mk_arr2 (Z.of_nat (N * W)) (Z.of_nat (N * W)) (matrix_rows (N * W) lamM)))
     (Z.of_nat b) (Z.of_nat r) (Z.of_nat c) (Z.of_nat N) (Z.of_nat W)
  = Ret (lambda_sum_matrix fsum lamM b r c N W).
Proof. intros F mul of_int fsum. exact (g_lambda_matrix_eq F mul (fun n => of_int (Z.of_nat n)) of_int fsum (fun n => eq_refl)). Qed.
Print Assumptions C18_code_matrix_branch.

(* a value that is neither a real scalar nor an array is rejected with ValueError *)
Theorem C18_code_rejects_other : forall (F : Type) (mul : F -> F -> F) (of_int : Z -> F) (fsum : list F -> F) (b r c N W : Z),
  g_compute_lambda_sum F mul of_int fsum LamOther b r c N W = Raise "ValueError"%string.
Proof. exact g_lambda_other. Qed.
Print Assumptions C18_code_rejects_other.

(* ON BINARY64, for the code as translated: with math.fsum the exactly rounded sum (Model/InstF.fsumF) and int -> float the
   exact conversion, a scalar weight lam and the NW x NW matrix filled with lam give the SAME class weight, bit for bit, in
   every Toeplitz class of every geometry - for every finite non-zero lam *)
Definition of_intF (z : Z) : float := PrimFloat.of_uint63 (Uint63.of_Z z).
Theorem C18_code_forms_agree_binary64 : forall (lam : float) (b r c N W : nat),
  PrimFloat.is_finite lam = true -> PrimFloat.is_zero lam = false ->
  b < W -> (Z.of_nat W < 2 ^ 53)%Z -> 1 <= N -> r < N -> c < N ->
  g_compute_lambda_sum float PrimFloat.mul of_intF fsumF
     (LamArray (mk_arr2 (Z.of_nat (N * W)) (Z.of_nat (N * W)) (matrix_rows (N * W) (fun _ _ => lam))))
     (Z.of_nat b) (Z.of_nat r) (Z.of_nat c) (Z.of_nat N) (Z.of_nat W)
  = g_compute_lambda_sum float PrimFloat.mul of_intF fsumF (LamScalar lam)
     (Z.of_nat b) (Z.of_nat r) (Z.of_nat c) (Z.of_nat N) (Z.of_nat W).
Proof.
  intros lam b r c N W Hf Hz Hb HW HN Hr Hc.
  rewrite (g_lambda_matrix_eq float PrimFloat.mul of_natF of_intF fsumF (fun n => eq_refl) (fun _ _ => lam) b r c N W Hb HN Hr Hc).
  rewrite (g_lambda_scalar_eq float PrimFloat.mul of_natF of_intF fsumF (fun n => eq_refl) lam b r c N W Hb).
  f_equal. unfold lambda_sum_matrix, lambda_sum_scalar.
  assert (Hrep : map (fun RC : nat * nat => lam) (class_positions b r c N W) = repeat lam (W - b)).
  { rewrite <- (class_size b r c N W). induction (class_positions b r c N W) as [|p l IH]; cbn; [reflexivity|now rewrite IH]. }
  change (map (fun RC : nat * nat => (fun _ _ : nat => lam) (fst RC) (snd RC)) (class_positions b r c N W))
    with (map (fun RC : nat * nat => lam) (class_positions b r c N W)).
  rewrite Hrep. apply fsum_copies_is_product; try assumption; lia.
Qed.
Print Assumptions C18_code_forms_agree_binary64.
