(* C11 - compressed-matrix and Toeplitz-class index maps are exact bijections.
   Statements only; proofs in Proofs/TriIndexP.v.  All statements are for every
   size (no bound). *)
From Coq Require Import List Arith ZArith Lia Permutation Reals Lra.
Import ListNotations.
From Ticc Require Import Model.TriIndex Proofs.TriIndexP.

(* the closed-form compressed index of (r,c) is its row-major rank in the upper triangle *)
Theorem C11_index_is_rank : forall n r c, r <= c -> c < n ->
  nth (tri_index n r c) (triu n) (0, 0) = (r, c) /\ tri_index n r c < n * (n + 1) / 2.
Proof. exact tri_index_is_rank. Qed.
Print Assumptions C11_index_is_rank.

(* ... and a bijection from the upper triangle onto [0, n(n+1)/2) *)
Theorem C11_index_bijection : forall n,
  (forall r c r' c', r <= c < n -> r' <= c' < n -> tri_index n r c = tri_index n r' c' -> r = r' /\ c = c') /\
  (forall k, k < n * (n + 1) / 2 -> exists r c, r <= c < n /\ tri_index n r c = k) /\
  length (triu n) = n * (n + 1) / 2 /\ NoDup (triu n) /\
  (forall r c, In (r, c) (triu n) <-> r <= c < n).
Proof.
  intros n. split; [intros; eapply tri_index_inj; eassumption|].
  split; [apply tri_index_surj|]. split; [apply triu_length|]. split; [apply triu_NoDup|apply triu_In].
Qed.
Print Assumptions C11_index_bijection.

Theorem C11_size_inverse : forall n, full_matrix_size (n * (n + 1) / 2) = n.
Proof. exact full_matrix_size_inverse. Qed.
Print Assumptions C11_size_inverse.

(* compress o reinflate = id and reinflate o compress = id, for every carrier in
   which x+0-0 = x, 0+x-0 = x and (x+x)-x = x (true in Z, Q, R; true in binary64
   for every finite x with |x| < 2^1023 up to the sign of zero) *)
Theorem C11_reinflate_then_compress : forall (A : Type) (zero : A) (add sub : A -> A -> A),
  (forall x, sub (add x zero) zero = x) -> (forall x, sub (add zero x) zero = x) -> (forall x, sub (add x x) x = x) ->
  forall n (v : list A), length v = n * (n + 1) / 2 -> compress n (reinflate zero add sub v) = v.
Proof. intros A zero add sub H1 H2 H3 n v Hl. apply (compress_reinflate zero add sub H1 H2 H3). exact Hl. Qed.
Print Assumptions C11_reinflate_then_compress.

Theorem C11_compress_then_reinflate : forall (A : Type) (zero : A) (add sub : A -> A -> A),
  (forall x, sub (add x zero) zero = x) -> (forall x, sub (add zero x) zero = x) -> (forall x, sub (add x x) x = x) ->
  forall n (M : nat -> nat -> A), (forall r c, r < n -> c < n -> M r c = M c r) ->
  forall r c, r < n -> c < n -> reinflate zero add sub (compress n M) r c = M r c.
Proof. intros A zero add sub H1 H2 H3 n M Hs r c Hr Hc. apply (reinflate_compress zero add sub H1 H2 H3); assumption. Qed.
Print Assumptions C11_compress_then_reinflate.

(* the laws hold over the reals *)
Theorem C11_roundtrip_R : forall n (v : list R), length v = n * (n + 1) / 2 ->
  compress n (reinflate 0%R Rplus Rminus v) = v.
Proof. intros n v H. apply C11_reinflate_then_compress; try assumption; intros; lra. Qed.
Print Assumptions C11_roundtrip_R.

(* the class position lists partition the upper triangle: every position in exactly one class *)
Theorem C11_partition : forall N W,
  Permutation (concat (map (positions_of N W) (classes N W))) (triu (N * W)) /\
  NoDup (concat (map (positions_of N W) (classes N W))).
Proof. intros. split; [apply classes_partition|apply classes_positions_NoDup]. Qed.
Print Assumptions C11_partition.

(* each class holds exactly W - block positions *)
Theorem C11_class_size : forall b r c N W, length (class_positions b r c N W) = W - b.
Proof. exact class_size. Qed.
Print Assumptions C11_class_size.

(* two upper-triangle positions are in the same class iff they are equal under
   block-Toeplitz structure: same block offset, same in-block coordinates *)
Theorem C11_class_toeplitz : forall N W R C R' C', 0 < N -> R <= C < N * W -> R' <= C' < N * W ->
  ((exists brc, In brc (classes N W) /\ In (R, C) (positions_of N W brc) /\ In (R', C') (positions_of N W brc))
   <-> (C / N - R / N = C' / N - R' / N /\ R mod N = R' mod N /\ C mod N = C' mod N)).
Proof. exact class_toeplitz. Qed.
Print Assumptions C11_class_toeplitz.

(* the compressed and (row, column) forms of each list name the same positions *)
Theorem C11_forms_agree : forall b r c N W,
  locations_compressed b r c N W =
  map (fun RC => tri_index (N * W) (fst RC) (snd RC))
      (combine (fst (locations_slices b r c N W)) (snd (locations_slices b r c N W))).
Proof. exact forms_agree. Qed.
Print Assumptions C11_forms_agree.

(* non-vacuity *)
Example C11_example :
  triu 3 = [(0,0);(0,1);(0,2);(1,1);(1,2);(2,2)] /\
  map (fun rc => tri_index 3 (fst rc) (snd rc)) (triu 3) = [0;1;2;3;4;5] /\
  classes 2 2 = [(0,0,0);(0,0,1);(0,1,1);(1,0,0);(1,0,1);(1,1,0);(1,1,1)] /\
  class_positions 0 0 1 2 2 = [(0,1);(2,3)] /\ locations_compressed 0 0 1 2 2 = [1;8].
Proof. repeat split; reflexivity. Qed.
Print Assumptions C11_example.
