(* C13 on the label setter of containers/model_state.ModelState AS TRANSLATED from /repo's current source by vcheck/py2coq.py
   (ModelState.point_labels setter, ModelState._update_cluster_membership, ClusterParameters.member_points setter ->
   Gen/G_model_state.v, regenerated on every run; equivalence with the model: Proofs/GenEquivMS.v).  Statements only. *)
From Coq Require Import String.
From Coq Require Import List Arith ZArith.
Import ListNotations.
From Ticc Require Import Gen.PyRt Gen.G_model_state Model.Repop Proofs.GenEquivMS.

(* assigning a labelling re-derives membership immediately: after the setter returns, for EVERY K, every labelling with labels
   in [0,K) and whatever the member lists were before, cluster k's member list is exactly the ascending list of the points
   whose label is k (Model/Repop.members) - so the member lists partition the points (C13_partition in Properties/C13.v is
   about this very function `members`); assigning the labelling that is already stored changes nothing *)
Theorem C13_code_setter_rederives_membership : forall (K : nat) (old new : list nat) (mem : list (list nat)),
  length mem = K -> Forall (fun l => l < K) new ->
  g_point_labels_setter (state_of K old mem) (map Z.of_nat new)
  = Ret (if list_eq_dec Nat.eq_dec new old then state_of K old mem else state_of K new (derived K new)).
Proof. exact g_point_labels_setter_eq. Qed.
Print Assumptions C13_code_setter_rederives_membership.

Theorem C13_code_update_membership : forall (K : nat) (labels : list nat) (mem : list (list nat)),
  length mem = K -> Forall (fun l => l < K) labels ->
  g_update_cluster_membership (state_of K labels mem) = Ret (state_of K labels (derived K labels)).
Proof. exact g_update_cluster_membership_eq. Qed.
Print Assumptions C13_code_update_membership.

(* non-vacuity *)
Example C13_code_example :
  g_point_labels_setter (state_of 3 [0;0;0] [[0;1;2];[];[]]) (map Z.of_nat [2;0;2;1;0])
  = Ret (state_of 3 [2;0;2;1;0] [[1;4];[3];[0;2]]).
Proof. vm_compute. reflexivity. Qed.
Print Assumptions C13_code_example.

(* ---- REPOPULATION AS TRANSLATED in skeleton mode (Gen/G_cm_repopulate.v; facts: Proofs/GenEquivPH.v): when no cluster has fewer
   than two points the state given is returned ITSELF and nothing was copied, moved or assigned (the log holds only the scan) ---- *)
From Ticc Require Import Gen.PySkel Gen.G_cm_repopulate Proofs.GenEquivPH.
Section SkelPH13.
  Local Open Scope string_scope.
  Variable V : Type.
  Variable vnone : V.
  Variable vint : Z -> V.
  Variable as_int : V -> option Z.
  Variable veq : V -> V -> bool.
  Variable getattr : V -> string -> V.
  Variable truthy : V -> bool.
  Variable is_none : V -> bool.
  Variables vtrue vfalse : V.
  Variable as_list : V -> list V.
  Variable vglobal : string -> V.
  Variable oracle : list (event V) -> string -> list V -> res V.
  Let scan_events := GenEquivPH.scan_events V as_int getattr.
  Let sized := GenEquivPH.sized V as_int getattr.
  Theorem C13_code_repopulate_noop (model r : V) (log log' : list (event V)) :
    g_repopulate_empty_clusters V as_int getattr as_list oracle model log = (Ret r, log') ->
    exists s en lenv n,
      oracle log "set" [] = Ret s /\
      oracle (log ++ [Ev "set" []])%list "enumerate" [getattr model "clusters"] = Ret en /\
      Forall sized (as_list en) /\
      oracle (log ++ [Ev "set" []; Ev "enumerate" [getattr model "clusters"]] ++ scan_events s (as_list en))%list
             "len" [s] = Ret lenv /\
      as_int lenv = Some n /\
      (n = 0%Z ->
       r = model /\
       log' = (log ++ [Ev "set" []; Ev "enumerate" [getattr model "clusters"]]
                   ++ scan_events s (as_list en) ++ [Ev "len" [s]])%list).
  Proof. intros; eapply repopulate_noop; eassumption. Qed.
End SkelPH13.
Print Assumptions C13_code_repopulate_noop.

(* ---- the STATE CONTAINERS AS TRANSLATED in skeleton mode (Gen/G_cp_*.v, Gen/G_st_*.v; facts: Proofs/GenEquivCO.v): the constructor of
   ClusterParameters stores `sorted` of the member list it is given; a SHALLOW copy hands every field on as it is (the state's only
   call is list(clusters): a new outer list of the same cluster objects); a DEEP copy passes every array field through np.copy, the
   member list and the label list through list(), the clusters through their own deep_copy and the arguments through theirs - no
   array, list or container field of the copy is the source's own field; only the immutable numbers are handed on ---- *)
From Ticc Require Import Gen.PySkel Gen.G_cp_init Gen.G_cp_empty Gen.G_cp_shallow Gen.G_cp_deep Gen.G_st_init Gen.G_st_empty Gen.G_st_shallow Gen.G_st_deep Proofs.GenEquivCO.
Section SkelCO13.
  Local Open Scope string_scope.
  Variable V : Type.
  Variable vnone : V.
  Variable vint : Z -> V.
  Variable as_int : V -> option Z.
  Variable veq : V -> V -> bool.
  Variable getattr : V -> string -> V.
  Variable truthy : V -> bool.
  Variable is_none : V -> bool.
  Variables vtrue vfalse : V.
  Variable as_list : V -> list V.
  Variable vglobal : string -> V.
  Variable oracle : list (event V) -> string -> list V -> res V.
  Let init_sets := GenEquivCO.init_sets V.
  Let init_lit := GenEquivCO.init_lit V is_none.
  Let cp_deep_copies := GenEquivCO.cp_deep_copies V getattr.
  Let st_init_sets := GenEquivCO.st_init_sets V.
  Let st_deep_copies := GenEquivCO.st_deep_copies V getattr.
  Theorem C13_code_cluster_constructor (self cc ec glc ic ld member_points sdm ti r : V) (log log' : list (event V)) :
    g_ClusterParameters__init_ V is_none oracle self cc ec glc ic ld member_points sdm ti log = (Ret r, log') ->
    exists s1 s2 s3 s4 s5 s6 s7 members sorted_members,
      log' = (log ++ init_sets self cc ec glc ic ld sdm ti s1 s2 s3 s4 s5 s6
                  ++ init_lit member_points
                  ++ [Ev "sorted" [members]; Ev "setattr:_member_points" [s7; sorted_members]])%list /\
      oracle log "setattr:computed_covariance" [self; cc] = Ret s1 /\
      oracle (log ++ firstn 1 (init_sets self cc ec glc ic ld sdm ti s1 s2 s3 s4 s5 s6))%list
             "setattr:empirical_covariance" [s1; ec] = Ret s2 /\
      oracle (log ++ firstn 2 (init_sets self cc ec glc ic ld sdm ti s1 s2 s3 s4 s5 s6))%list
             "setattr:graphical_lasso_cost" [s2; glc] = Ret s3 /\
      oracle (log ++ firstn 3 (init_sets self cc ec glc ic ld sdm ti s1 s2 s3 s4 s5 s6))%list
             "setattr:inverse_covariance" [s3; ic] = Ret s4 /\
      oracle (log ++ firstn 4 (init_sets self cc ec glc ic ld sdm ti s1 s2 s3 s4 s5 s6))%list
             "setattr:log_determinant" [s4; ld] = Ret s5 /\
      oracle (log ++ firstn 5 (init_sets self cc ec glc ic ld sdm ti s1 s2 s3 s4 s5 s6))%list
             "setattr:stacked_data_mean" [s5; sdm] = Ret s6 /\
      oracle (log ++ firstn 6 (init_sets self cc ec glc ic ld sdm ti s1 s2 s3 s4 s5 s6))%list
             "setattr:train_inverse" [s6; ti] = Ret s7 /\
      (if is_none member_points
       then oracle (log ++ init_sets self cc ec glc ic ld sdm ti s1 s2 s3 s4 s5 s6)%list "expr:[]" [] = Ret members
       else members = member_points) /\
      oracle (log ++ init_sets self cc ec glc ic ld sdm ti s1 s2 s3 s4 s5 s6 ++ init_lit member_points)%list
             "sorted" [members] = Ret sorted_members /\
      oracle (log ++ init_sets self cc ec glc ic ld sdm ti s1 s2 s3 s4 s5 s6 ++ init_lit member_points
                  ++ [Ev "sorted" [members]])%list
             "setattr:_member_points" [s7; sorted_members] = Ret r.
  Proof. intros; eapply cp_init_returns; eassumption. Qed.
  Theorem C13_code_cluster_empty (r : V) (log log' : list (event V)) :
    g_ClusterParameters_empty_cluster V vnone oracle log = (Ret r, log') ->
    exists members,
      log' = (log ++ [Ev "expr:[]" [];
                      Ev f_cp_ctor_empty [members; vnone; vnone; vnone; vnone; vnone; vnone]])%list /\
      oracle log "expr:[]" [] = Ret members /\
      oracle (log ++ [Ev "expr:[]" []])%list f_cp_ctor_empty [members; vnone; vnone; vnone; vnone; vnone; vnone] = Ret r.
  Proof. intros; eapply cp_empty_returns; eassumption. Qed.
  Theorem C13_code_cluster_shallow_copy (self r : V) (log log' : list (event V)) :
    g_ClusterParameters_shallow_copy V getattr oracle self log = (Ret r, log') ->
    log' = (log ++ [Ev f_cp_ctor
                       [getattr self "computed_covariance"; getattr self "empirical_covariance";
                        getattr self "graphical_lasso_cost"; getattr self "inverse_covariance";
                        getattr self "log_determinant"; getattr self "member_points";
                        getattr self "stacked_data_mean"; getattr self "train_inverse"]])%list /\
    oracle log f_cp_ctor
           [getattr self "computed_covariance"; getattr self "empirical_covariance";
            getattr self "graphical_lasso_cost"; getattr self "inverse_covariance";
            getattr self "log_determinant"; getattr self "member_points";
            getattr self "stacked_data_mean"; getattr self "train_inverse"] = Ret r.
  Proof. intros; eapply cp_shallow_returns; eassumption. Qed.
  Theorem C13_code_cluster_deep_copy (self r : V) (log log' : list (event V)) :
    g_ClusterParameters_deep_copy V getattr oracle self log = (Ret r, log') ->
    exists cc' ec' ic' mp' sdm' ti',
      log' = (log ++ cp_deep_copies self
                  ++ [Ev f_cp_ctor [cc'; ec'; getattr self "graphical_lasso_cost"; ic'; getattr self "log_determinant";
                                    mp'; sdm'; ti']])%list /\
      oracle log "np.copy" [getattr self "computed_covariance"] = Ret cc' /\
      oracle (log ++ firstn 1 (cp_deep_copies self))%list "np.copy" [getattr self "empirical_covariance"] = Ret ec' /\
      oracle (log ++ firstn 2 (cp_deep_copies self))%list "np.copy" [getattr self "inverse_covariance"] = Ret ic' /\
      oracle (log ++ firstn 3 (cp_deep_copies self))%list "list" [getattr self "member_points"] = Ret mp' /\
      oracle (log ++ firstn 4 (cp_deep_copies self))%list "np.copy" [getattr self "stacked_data_mean"] = Ret sdm' /\
      oracle (log ++ firstn 5 (cp_deep_copies self))%list "np.copy" [getattr self "train_inverse"] = Ret ti' /\
      oracle (log ++ cp_deep_copies self)%list f_cp_ctor
             [cc'; ec'; getattr self "graphical_lasso_cost"; ic'; getattr self "log_determinant"; mp'; sdm'; ti'] = Ret r.
  Proof. intros; eapply cp_deep_returns; eassumption. Qed.
  Theorem C13_code_state_constructor (self arguments clusters label_assignment_cost point_labels point_log_likelihood stacked_training_data r : V)
                          (log log' : list (event V)) :
    g_ModelState__init_ V oracle self arguments clusters label_assignment_cost point_labels point_log_likelihood
                        stacked_training_data log = (Ret r, log') ->
    exists s1 s2 s3 s4 s5,
      log' = (log ++ st_init_sets self arguments clusters label_assignment_cost point_labels point_log_likelihood
                                  stacked_training_data s1 s2 s3 s4 s5)%list /\
      oracle log "setattr:arguments" [self; arguments] = Ret s1 /\
      oracle (log ++ firstn 1 (st_init_sets self arguments clusters label_assignment_cost point_labels point_log_likelihood
                                            stacked_training_data s1 s2 s3 s4 s5))%list
             "setattr:clusters" [s1; clusters] = Ret s2 /\
      oracle (log ++ firstn 2 (st_init_sets self arguments clusters label_assignment_cost point_labels point_log_likelihood
                                            stacked_training_data s1 s2 s3 s4 s5))%list
             "setattr:label_assignment_cost" [s2; label_assignment_cost] = Ret s3 /\
      oracle (log ++ firstn 3 (st_init_sets self arguments clusters label_assignment_cost point_labels point_log_likelihood
                                            stacked_training_data s1 s2 s3 s4 s5))%list
             "setattr:_point_labels" [s3; point_labels] = Ret s4 /\
      oracle (log ++ firstn 4 (st_init_sets self arguments clusters label_assignment_cost point_labels point_log_likelihood
                                            stacked_training_data s1 s2 s3 s4 s5))%list
             "setattr:point_log_likelihood" [s4; point_log_likelihood] = Ret s5 /\
      oracle (log ++ firstn 5 (st_init_sets self arguments clusters label_assignment_cost point_labels point_log_likelihood
                                            stacked_training_data s1 s2 s3 s4 s5))%list
             "setattr:stacked_training_data" [s5; stacked_training_data] = Ret r.
  Proof. intros; eapply st_init_returns; eassumption. Qed.
  Theorem C13_code_state_empty (user_args stacked_training_data r : V) (log log' : list (event V)) :
    g_ModelState_empty_model V oracle user_args stacked_training_data log = (Ret r, log') ->
    exists clusters,
      log' = (log ++ [Ev f_empty_clusters [user_args];
                      Ev f_st_ctor_empty [user_args; clusters; stacked_training_data]])%list /\
      oracle log f_empty_clusters [user_args] = Ret clusters /\
      oracle (log ++ [Ev f_empty_clusters [user_args]])%list f_st_ctor_empty [user_args; clusters; stacked_training_data] = Ret r.
  Proof. intros; eapply st_empty_returns; eassumption. Qed.
  Theorem C13_code_state_shallow_copy (self r : V) (log log' : list (event V)) :
    g_ModelState_shallow_copy V getattr oracle self log = (Ret r, log') ->
    exists clusters',
      log' = (log ++ [Ev "list" [getattr self "clusters"];
                      Ev f_st_ctor [getattr self "arguments"; clusters'; getattr self "label_assignment_cost";
                                    getattr self "_point_labels"; getattr self "point_log_likelihood";
                                    getattr self "stacked_training_data"]])%list /\
      oracle log "list" [getattr self "clusters"] = Ret clusters' /\
      oracle (log ++ [Ev "list" [getattr self "clusters"]])%list f_st_ctor
             [getattr self "arguments"; clusters'; getattr self "label_assignment_cost";
              getattr self "_point_labels"; getattr self "point_log_likelihood";
              getattr self "stacked_training_data"] = Ret r.
  Proof. intros; eapply st_shallow_returns; eassumption. Qed.
  Theorem C13_code_state_deep_copy (self r : V) (log log' : list (event V)) :
    g_ModelState_deep_copy V getattr oracle self log = (Ret r, log') ->
    exists new_clusters args' labels' pll' data',
      log' = (log ++ st_deep_copies self
                  ++ [Ev f_st_ctor [args'; new_clusters; getattr self "label_assignment_cost"; labels'; pll'; data']])%list /\
      oracle log f_deep_clusters [self] = Ret new_clusters /\
      oracle (log ++ firstn 1 (st_deep_copies self))%list "method:deep_copy" [getattr self "arguments"] = Ret args' /\
      oracle (log ++ firstn 2 (st_deep_copies self))%list "list" [getattr self "_point_labels"] = Ret labels' /\
      oracle (log ++ firstn 3 (st_deep_copies self))%list "np.copy" [getattr self "point_log_likelihood"] = Ret pll' /\
      oracle (log ++ firstn 4 (st_deep_copies self))%list "np.copy" [getattr self "stacked_training_data"] = Ret data' /\
      oracle (log ++ st_deep_copies self)%list f_st_ctor
             [args'; new_clusters; getattr self "label_assignment_cost"; labels'; pll'; data'] = Ret r.
  Proof. intros; eapply st_deep_returns; eassumption. Qed.
End SkelCO13.
Print Assumptions C13_code_cluster_constructor.
Print Assumptions C13_code_cluster_empty.
Print Assumptions C13_code_cluster_shallow_copy.
Print Assumptions C13_code_cluster_deep_copy.
Print Assumptions C13_code_state_constructor.
Print Assumptions C13_code_state_empty.
Print Assumptions C13_code_state_shallow_copy.
Print Assumptions C13_code_state_deep_copy.

(* ---- the USER ARGUMENTS' copies AS TRANSLATED (Gen/G_ua_*.v; facts: Proofs/GenEquivAR.v): the deep copy is the shallow copy with the two
   fields that may be arrays (sparsity weight, switching cost) replaced by copy.deepcopy OF THE SOURCE'S OWN fields ---- *)
From Ticc Require Import Gen.PySkel Gen.G_ua_shallow Gen.G_ua_deep Proofs.GenEquivAR.
Section SkelAR13.
  Local Open Scope string_scope.
  Variable V : Type.
  Variable vnone : V.
  Variable vint : Z -> V.
  Variable as_int : V -> option Z.
  Variable veq : V -> V -> bool.
  Variable getattr : V -> string -> V.
  Variable truthy : V -> bool.
  Variable is_none : V -> bool.
  Variables vtrue vfalse : V.
  Variable as_list : V -> list V.
  Variable vglobal : string -> V.
  Variable oracle : list (event V) -> string -> list V -> res V.
  Let ua_fields := GenEquivAR.ua_fields V getattr.
  Let ua_deep_events := GenEquivAR.ua_deep_events V getattr.
  Theorem C13_code_arguments_shallow_copy (self r : V) (log log' : list (event V)) :
    g_UserArguments_shallow_copy V getattr oracle self log = (Ret r, log') ->
    log' = (log ++ [Ev f_ua_ctor (ua_fields self)])%list /\
    oracle log f_ua_ctor (ua_fields self) = Ret r.
  Proof. intros; eapply ua_shallow_returns; eassumption. Qed.
  Theorem C13_code_arguments_deep_copy (self r : V) (log log' : list (event V)) :
    g_UserArguments_deep_copy V getattr oracle self log = (Ret r, log') ->
    exists c0 w c1 b,
      log' = (log ++ ua_deep_events self c0 w c1 b)%list /\
      oracle log "method:shallow_copy" [self] = Ret c0 /\
      oracle (log ++ firstn 1 (ua_deep_events self c0 w c1 b))%list "copy.deepcopy" [getattr self "sparsity_weight"] = Ret w /\
      oracle (log ++ firstn 2 (ua_deep_events self c0 w c1 b))%list "setattr:sparsity_weight" [c0; w] = Ret c1 /\
      oracle (log ++ firstn 3 (ua_deep_events self c0 w c1 b))%list "copy.deepcopy" [getattr self "label_switching_cost"] = Ret b /\
      oracle (log ++ firstn 4 (ua_deep_events self c0 w c1 b))%list "setattr:label_switching_cost" [c1; b] = Ret r.
  Proof. intros; eapply ua_deep_returns; eassumption. Qed.
End SkelAR13.
Print Assumptions C13_code_arguments_shallow_copy.
Print Assumptions C13_code_arguments_deep_copy.

(* ---- the PROPERTY GETTERS AS TRANSLATED (Gen/G_cp_size.v, G_cp_members.v, G_st_labels.v; facts: Proofs/GenEquivRM.v): labels and members are
   the stored private fields themselves (no copy: whoever reads them holds the state's own lists), size is len(members) or 0 ---- *)
From Ticc Require Import Gen.PySkel Gen.G_cp_size Gen.G_cp_members Gen.G_st_labels Proofs.GenEquivRM.
Section SkelRM13.
  Local Open Scope string_scope.
  Variable V : Type.
  Variable vnone : V.
  Variable vint : Z -> V.
  Variable as_int : V -> option Z.
  Variable veq : V -> V -> bool.
  Variable getattr : V -> string -> V.
  Variable truthy : V -> bool.
  Variable is_none : V -> bool.
  Variables vtrue vfalse : V.
  Variable as_list : V -> list V.
  Variable vglobal : string -> V.
  Variable oracle : list (event V) -> string -> list V -> res V.
  Theorem C13_code_size_getter (self r : V) (log log' : list (event V)) :
    g_ClusterParameters_size_getter V vint getattr is_none oracle self log = (Ret r, log') ->
    if is_none (getattr self "member_points")
    then log' = log /\ r = vint 0
    else log' = (log ++ [Ev "len" [getattr self "member_points"]])%list /\
         oracle log "len" [getattr self "member_points"] = Ret r.
  Proof. intros; eapply size_getter_returns; eassumption. Qed.
  Theorem C13_code_members_getter (self r : V) (log log' : list (event V)) :
    g_ClusterParameters_member_points_getter V getattr self log = (Ret r, log') ->
    log' = log /\ r = getattr self "_member_points".
  Proof. intros; eapply members_getter_returns; eassumption. Qed.
  Theorem C13_code_labels_getter (self r : V) (log log' : list (event V)) :
    g_ModelState_point_labels_getter V getattr self log = (Ret r, log') ->
    log' = log /\ r = getattr self "_point_labels".
  Proof. intros; eapply labels_getter_returns; eassumption. Qed.
End SkelRM13.
Print Assumptions C13_code_size_getter.
Print Assumptions C13_code_members_getter.
Print Assumptions C13_code_labels_getter.
