(* C13 on the label setter of containers/model_state.ModelState AS TRANSLATED from /repo's current source by vcheck/py2coq.py
   (ModelState.point_labels setter, ModelState._update_cluster_membership, ClusterParameters.member_points setter ->
   Gen/G_model_state.v, regenerated on every run; equivalence with the model: Proofs/GenEquivMS.v).  Statements only. *)
From Coq Require Import String.
From Coq Require Import List Arith ZArith.
Import ListNotations.
From Ticc Require Import Gen.PyRt Gen.G_model_state Model.Repop Proofs.GenEquivMS.

(* assigning a labelling re-derives membership immediately: after the setter returns, for EVERY K, every labelling with labels
   in [0,K) and whatever the member lists were before, cluster k's member list is exactly the ascending list of the points
   whose label is k (Model/Repop.members) - so the member lists partition the points (C13_partition in Properties/C13.v is
   about this very function `members`); assigning the labelling that is already stored changes nothing *)
Theorem C13_code_setter_rederives_membership : forall (K : nat) (old new : list nat) (mem : list (list nat)),
  length mem = K -> Forall (fun l => l < K) new ->
  g_point_labels_setter (state_of K old mem) (map Z.of_nat new)
  = Ret (if list_eq_dec Nat.eq_dec new old then state_of K old mem else state_of K new (derived K new)).
Proof. exact g_point_labels_setter_eq. Qed.
Print Assumptions C13_code_setter_rederives_membership.

Theorem C13_code_update_membership : forall (K : nat) (labels : list nat) (mem : list (list nat)),
  length mem = K -> Forall (fun l => l < K) labels ->
  g_update_cluster_membership (state_of K labels mem) = Ret (state_of K labels (derived K labels)).
Proof. exact g_update_cluster_membership_eq. Qed.
Print Assumptions C13_code_update_membership.

(* non-vacuity *)
Example C13_code_example :
  g_point_labels_setter (state_of 3 [0;0;0] [[0;1;2];[];[]]) (map Z.of_nat [2;0;2;1;0])
  = Ret (state_of 3 [2;0;2;1;0] [[1;4];[3];[0;2]]).
Proof. vm_compute. reflexivity. Qed.
Print Assumptions C13_code_example.

(* ---- REPOPULATION AS TRANSLATED in skeleton mode (Gen/G_cm_repopulate.v; facts: Proofs/GenEquivPH.v): when no cluster has fewer
   than two points the state given is returned ITSELF and nothing was copied, moved or assigned (the log holds only the scan) ---- *)
From Ticc Require Import Gen.PySkel Gen.G_cm_repopulate Proofs.GenEquivPH.
Section SkelPH13.
  Local Open Scope string_scope.
  Variable V : Type.
  Variable vnone : V.
  Variable vint : Z -> V.
  Variable as_int : V -> option Z.
  Variable veq : V -> V -> bool.
  Variable getattr : V -> string -> V.
  Variable truthy : V -> bool.
  Variable is_none : V -> bool.
  Variables vtrue vfalse : V.
  Variable as_list : V -> list V.
  Variable vglobal : string -> V.
  Variable oracle : list (event V) -> string -> list V -> res V.
  Let scan_events := GenEquivPH.scan_events V as_int getattr.
  Let sized := GenEquivPH.sized V as_int getattr.
  Theorem C13_code_repopulate_noop (model r : V) (log log' : list (event V)) :
    g_repopulate_empty_clusters V as_int getattr as_list oracle model log = (Ret r, log') ->
    exists s en lenv n,
      oracle log "set" [] = Ret s /\
      oracle (log ++ [Ev "set" []])%list "enumerate" [getattr model "clusters"] = Ret en /\
      Forall sized (as_list en) /\
      oracle (log ++ [Ev "set" []; Ev "enumerate" [getattr model "clusters"]] ++ scan_events s (as_list en))%list
             "len" [s] = Ret lenv /\
      as_int lenv = Some n /\
      (n = 0%Z ->
       r = model /\
       log' = (log ++ [Ev "set" []; Ev "enumerate" [getattr model "clusters"]]
                   ++ scan_events s (as_list en) ++ [Ev "len" [s]])%list).
  Proof. intros; eapply repopulate_noop; eassumption. Qed.
End SkelPH13.
Print Assumptions C13_code_repopulate_noop.
