(* C07 - jointly labelled series are independent across series boundaries.
   Statements only. *)
From Coq Require Import List Arith NArith Reals Lra PrimFloat.
Import ListNotations.
From Ticc Require Import Model.Viterbi Model.InstR Model.InstF Model.Stacking
     Proofs.ViterbiShape Proofs.ViterbiR Proofs.StackingP Proofs.SeparableP Corr.RunViterbi.

(* no stacked window mixes rows of two series *)
Theorem C07_no_mixed_window : forall (A : Type) (W : nat) (series : list (list (list A))) (r : list A),
  In r (stack_multi W series) ->
  exists s i, In s series /\ (i + W <= length s)%nat /\ r = window W s i.
Proof.
  intros A W series r H. destruct (stack_multi_rows_within_series W series r H) as [s [i [H1 [H2 [_ H3]]]]].
  exists s, i. auto.
Qed.
Print Assumptions C07_no_mixed_window.

(* the mask helper puts its zeros on exactly the boundary pairs: entry i prices
   the pair (i,i+1); it is zero iff point i is the last point of a series other
   than the last one *)
Theorem C07_mask_exact : forall (lens : list nat) (i : nat),
  Forall (fun n => (1 <= n)%nat) lens -> (i < list_sum lens)%nat ->
  length (template lens) = list_sum lens /\
  (nth i (template lens) true = false <->
   exists j, (S j < length lens)%nat /\ (i + 1 = list_sum (firstn (S j) lens))%nat).
Proof. intros lens i Hp Hi. split; [apply template_length|apply template_zero_iff; assumption]. Qed.
Print Assumptions C07_mask_exact.

(* the tree before the repair zeroed the pair AFTER the boundary *)
Example C07_mask_legacy_refuted :
  template_legacy [2; 2]%nat = [true; true; false; true] /\ template [2; 2]%nat = [true; false; true; true].
Proof. split; reflexivity. Qed.
Print Assumptions C07_mask_legacy_refuted.

(* under the masked switching costs the cost of a joint labelling is the sum of
   the per-series costs (boundary switches are free) ... *)
Theorem C07_masked_cost_splits : forall (tables : list (list (list R))) (paths : list (list nat)) (b : R),
  Forall (fun t => t <> []) tables ->
  Forall2 (fun t p => length p = length t) tables paths ->
  pcost 0%R Rplus (concat tables) (masked_betas b (map (@length (list R)) tables)) (concat paths)
  = fold_right Rplus 0%R (map (fun tp => pcost 0%R Rplus (fst tp) (repeat b (length (fst tp))) (snd tp)) (combine tables paths)).
Proof. exact pcost_masked_split. Qed.
Print Assumptions C07_masked_cost_splits.

(* ... and the joint optimum is the sum of the per-series optima: the mechanism
   is right when the mask reaches the labelling step *)
Theorem C07_masked_is_separable : forall (K : nat) (tables : list (list (list R))) (b : R),
  (0 < K)%nat -> (N.of_nat K <= 65536)%N -> (0 <= b)%R -> tables <> [] ->
  Forall (fun t => t <> [] /\ wf_rows K t) tables ->
  snd (viterbi 0%R Rplus Rminus Rltb K (concat tables) (masked_betas b (map (@length (list R)) tables)))
  = fold_right Rplus 0%R (map (fun t => snd (viterbi 0%R Rplus Rminus Rltb K t (repeat b (length t)))) tables).
Proof. exact masked_separable. Qed.
Print Assumptions C07_masked_is_separable.

(* joint labelling of a single series is the single-series computation *)
Theorem C07_single_series_joint : forall (K : nat) (t : list (list R)) (b : R),
  viterbi 0%R Rplus Rminus Rltb K (concat [t]) (masked_betas b (map (@length (list R)) [t]))
  = viterbi 0%R Rplus Rminus Rltb K t (repeat b (length t)).
Proof. exact masked_single. Qed.
Print Assumptions C07_single_series_joint.

(* KNOWN FINDING (front_end.ticc_joint_labels builds its arguments before the
   mask is applied, so the scalar reaches the labelling step): with the scalar
   beta = 1 two one-window series with different best labels cost 1, although
   labelling them separately costs 0 + 0 (binary64 instance, computed) *)
Example C07_joint_refuted :
  snd (viterbiF 2 [[0; 5]; [5; 0]]%float [1; 1]%float) = 1%float /\
  snd (viterbiF 2 [[0; 5]]%float [1]%float) = 0%float /\ snd (viterbiF 2 [[5; 0]]%float [1]%float) = 0%float /\
  snd (viterbiF 2 [[0; 5]; [5; 0]]%float [0; 1]%float) = 0%float.
Proof. vm_compute. repeat split. Qed.
Print Assumptions C07_joint_refuted.
