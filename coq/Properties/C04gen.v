(* C04 on the code AS TRANSLATED from /repo's current source by vcheck/py2coq.py (pad_missing_labels,
   split_joint_labels; Gen/G_data_preparation.v, regenerated on every run).  Statements only. *)
From Coq Require Import String.
From Coq Require Import List Arith ZArith Lia.
Import ListNotations.
From Ticc Require Import Gen.PyRt Gen.G_data_preparation Model.Stacking Proofs.StackingP Proofs.FrontLabelsP Proofs.GenEquivDP.

(* pad_missing_labels applied to the main loop's T-W+1 labels gives exactly T labels with the margins of the property *)
Theorem C04_code_single : forall W K T (labels : list Z),
  1 <= W -> W <= T -> length labels = T + 1 - W -> Forall (in_range K) labels ->
  exists out, g_pad_missing_labels labels (Z.of_nat W) = Ret out /\ margin_ok W K T out.
Proof.
  intros W K T labels HW HT HL HR. exists (front_single_labels W labels).
  split; [apply g_pad_missing_labels_eq; exact HW | apply front_single_margin; assumption].
Qed.
Print Assumptions C04_code_single.

(* split_joint_labels raises instead of returning when the joint list has the wrong length *)
Theorem C04_code_split_checks_length : forall (lens : list nat) (l : list Z),
  length l <> list_sum lens -> g_split_joint_labels l (map Z.of_nat lens) = Raise "AssertionError"%string.
Proof. exact g_split_joint_labels_bad. Qed.
Print Assumptions C04_code_split_checks_length.

(* split by the stacked lengths, then pad each part: one list per series, in order, each of its series' length *)
Theorem C04_code_joint : forall W K (lens : list nat) (labels : list Z),
  1 <= W -> Forall (fun T => W <= T) lens ->
  length labels = list_sum (map (fun T => T + 1 - W) lens) -> Forall (in_range K) labels ->
  exists parts, g_split_joint_labels labels (map Z.of_nat (map (num_windows W) lens)) = Ret parts /\
    mapM (fun p => g_pad_missing_labels p (Z.of_nat W)) parts = Ret (front_joint_labels W lens labels) /\
    Forall2 (margin_ok W K) lens (front_joint_labels W lens labels).
Proof.
  intros W K lens labels HW Hl HL HR. exists (split_by (map (num_windows W) lens) labels).
  split; [apply g_split_joint_labels_eq; exact HL|].
  split; [|apply front_joint_margin; assumption].
  unfold front_joint_labels. apply mapM_pure. intros p _. apply g_pad_missing_labels_eq. exact HW.
Qed.
Print Assumptions C04_code_joint.

(* ---- the single-series front end AS TRANSLATED in skeleton mode (Gen/G_front_single.v; every callee an oracle; facts:
   Proofs/GenEquivFE.v): a call that returns made exactly the calls  UserArguments(...), stack_training_data(data, W),
   fit_stacked_data(params, stacked), pad_missing_labels(result.point_labels, W), result.point_labels = padded  in this
   order - so the labels handed back are the main loop's labels padded for window W, and nothing else touches them ---- *)
From Ticc Require Import Gen.PySkel Gen.G_front_single Proofs.GenEquivFE.
Theorem C04_code_single_plumbing : forall (V : Type) (getattr : V -> string -> V)
    (oracle : list (event V) -> string -> list V -> res V)
    (data W K lam beta lim eps procs m biased r : V) (log log' : list (event V)),
  g_ticc_labels V getattr oracle data W K lam beta lim eps procs m biased log = (Ret r, log') ->
  exists params stacked res padded,
    log' = (log ++ [Ev f_args [W; K; lam; beta; lim; eps; procs; m; biased];
                    Ev f_stack [data; W];
                    Ev f_fit [params; stacked];
                    Ev f_pad [getattr res "point_labels"%string; W];
                    Ev "setattr:point_labels"%string [res; padded]])%list /\
    oracle log f_args [W; K; lam; beta; lim; eps; procs; m; biased] = Ret params /\
    oracle (log ++ [Ev f_args [W; K; lam; beta; lim; eps; procs; m; biased]])%list f_stack [data; W] = Ret stacked.
Proof. exact single_returns. Qed.
Print Assumptions C04_code_single_plumbing.

(* ---- where the main loop's labels come from, AS TRANSLATED (Gen/G_main_loop_suffix.v, Proofs/GenEquivRS.v): the label
   list of the result is filled by exactly T = data.shape[0] copy steps  labels[i] = final_state.point_labels[i], i = 0 .. T-1
   in order, and the result is built from that list, the final state's num_clusters and window_size and the MRF list
   comprehended over the same final state ---- *)
From Ticc Require Import Gen.G_main_loop_suffix Proofs.GenEquivRS.
Theorem C04_code_result_labels : forall (V : Type) (vint : Z -> V) (as_int : V -> option Z) (getattr : V -> string -> V)
    (oracle : list (event V) -> string -> list V -> res V)
    (state data npoints r : V) (log log' : list (event V)) (T : Z),
  as_int (getattr (getattr data "shape"%string) "[0]"%string) = Some T ->
  g_fit_stacked_data_result V vint as_int getattr oracle state data npoints log = (Ret r, log') ->
  exists pre copies post labelsT mrfs head9,
    log' = (log ++ pre ++ copies ++ post)%list /\ length pre = 4%nat /\
    length copies = (2 * Z.to_nat T)%nat /\
    (forall i, (i < Z.to_nat T)%nat -> exists lb v, firstn 2 (skipn (2 * i) copies) = copy_events V vint getattr state lb i v) /\
    nth_error post 0 = Some (Ev f_mrfs [state]) /\
    nth_error post 9 = Some (Ev f_result (head9 ++ [mrfs; getattr (getattr state "arguments"%string) "num_clusters"%string; labelsT;
                                 getattr (getattr state "arguments"%string) "window_size"%string])%list) /\
    length head9 = 9%nat /\ length post = 10%nat.
Proof.
  intros V vint as_int getattr oracle state data npoints r log log' T HT Hrun.
  destruct (result_assembly V vint as_int getattr oracle state data npoints r log log' T HT Hrun)
    as (bic & chi & minus1 & copies & labelsT & mrfs & by_cluster & chained & all_ll & total & mean & median & cmean & cmedian
        & Hlog & Hlen & Hcopies & _).
  exists [Ev "cluster_metrics.bayesian_information_criterion"%string [state];
          Ev "cluster_metrics.calinski_harabasz_index"%string [data; state];
          Ev "expr:[-1]"%string []; Ev "op:*"%string [minus1; npoints]], copies.
  eexists. exists labelsT, mrfs, [bic; chi; getattr state "label_assignment_cost"%string; total; mean; median; cmean; cmedian; all_ll].
  split; [rewrite Hlog; reflexivity|].
  split; [reflexivity|]. split; [exact Hlen|]. split; [exact Hcopies|].
  split; [reflexivity|]. split; [reflexivity|]. split; reflexivity.
Qed.
Print Assumptions C04_code_result_labels.

(* ---- the control skeleton of front_end._split_combined_result INTERPRETED (Proofs/InterpSplit.v): with a concrete value type and every
   callee answered by the hand model's own function (split_by, pad; the accumulator list's contents are what the logged `append`
   calls put there), the skeleton AS TRANSLATED - its split / pad / append / length-check loop - returns exactly the model's
   front_joint_labels, for every window size, every list of series lengths and every master labelling of the right length; and when
   the padded lengths are not the series' lengths it raises the AssertionError instead of returning.  C04_code_joint above composes the
   translated helpers by hand; this is the code's own composition. ---- *)
From Ticc Require Import Gen.G_front_split Proofs.InterpSplit.
Theorem C04_code_split_skeleton_computes_model : forall (W : nat) (Ts : list nat) (labels : list Z),
  (1 <= W)%nat -> Forall (fun T => (W <= T)%nat) Ts -> length labels = list_sum (map (num_windows W) Ts) ->
  exists log', g_split_combined_result val VInt veq getattr as_list oracle_model
                 (VMaster W labels) (VSizes (map (num_windows W) Ts)) (VSeriesList Ts) []
               = (Ret (VResult (front_joint_labels W Ts labels)), log').
Proof. exact split_skeleton_is_model. Qed.
Print Assumptions C04_code_split_skeleton_computes_model.

Theorem C04_code_split_skeleton_checks_lengths : forall (W : nat) (Ts : list nat) (labels : list Z),
  map (@length Z) (front_joint_labels W Ts labels) <> Ts ->
  exists log', g_split_combined_result val VInt veq getattr as_list oracle_model
                 (VMaster W labels) (VSizes (map (num_windows W) Ts)) (VSeriesList Ts) []
               = (Raise "AssertionError"%string, log').
Proof. exact split_skeleton_assertion. Qed.
Print Assumptions C04_code_split_skeleton_checks_lengths.

(* ---- END TO END for the joint front end AS TRANSLATED (Proofs/InterpJoint.v): the two control skeletons LINKED - in the interpretation
   of ticc_joint_labels the callee _split_combined_result is answered by RUNNING the interpreted splitter skeleton - with the main loop
   answering any master labelling of the right length and range.  The property itself, for the code's own composition: one list per
   series, in order, list i has exactly T_i entries, its first floor((W-1)/2) and last (W-1)-floor((W-1)/2) entries are -1, the rest
   are labels in [0, K). ---- *)
From Ticc Require Import Gen.G_front_joint Proofs.InterpJoint Proofs.FrontLabelsP.
Theorem C04_code_joint_end_to_end : forall (W K : nat) (Ts : list nat) (labels : list Z) (lam beta lim eps procs m biased : val),
  (1 <= W)%nat -> Forall (fun T => (W <= T)%nat) Ts -> length labels = list_sum (map (num_windows W) Ts) ->
  Forall (in_range K) labels ->
  exists (parts : list (list Z)) (log' : list (event val)),
    g_ticc_joint_labels val veq getattr (oracle_joint W Ts K labels)
      (VSeriesList Ts) (VInt (Z.of_nat W)) (VInt (Z.of_nat K)) lam beta lim eps procs m biased []
    = (Ret (VResult parts), log')
    /\ Forall2 (margin_ok W K) Ts parts
    /\ map (@length Z) parts = Ts
    /\ pad_front W = ((W - 1) / 2)%nat /\ pad_back W = ((W - 1) - (W - 1) / 2)%nat.
Proof. exact joint_front_end_C04. Qed.
Print Assumptions C04_code_joint_end_to_end.

(* ---- END TO END for the single-series front end AS TRANSLATED (Proofs/InterpSingle.v): the skeleton of ticc_labels interpreted by the
   hand model, the main loop answering any labelling of the right length and range: exactly T labels, the first floor((W-1)/2) and
   the last (W-1)-floor((W-1)/2) of them -1, the rest the main loop's labels in [0, K) ---- *)
From Ticc Require Import Gen.G_front_single Proofs.InterpSingle.
Theorem C04_code_single_end_to_end : forall (W T K : nat) (labels : list Z) (data lam beta lim eps procs m biased : val),
  (1 <= W)%nat -> (W <= T)%nat -> length labels = (T + 1 - W)%nat -> Forall (in_range K) labels ->
  exists (padded : list Z) (log' : list (event val)),
    g_ticc_labels val getattr (oracle_single W T K labels) data (VInt (Z.of_nat W)) (VInt (Z.of_nat K)) lam beta lim eps procs m biased []
    = (Ret (VMaster W padded), log')
    /\ margin_ok W K T padded /\ length padded = T
    /\ pad_front W = ((W - 1) / 2)%nat /\ pad_back W = ((W - 1) - (W - 1) / 2)%nat.
Proof. exact single_front_end_C04. Qed.
Print Assumptions C04_code_single_end_to_end.
