(* C02 - cluster MRF is the block-Toeplitz graphical-lasso optimum (PARTIAL).
   Statements only; proofs in Proofs/AdmmP.v.

   Proved here, for all inputs: the pieces of the ADMM iteration that make its
   fixed points optimal - the Z update is the exact minimiser of its sub-problem
   class by class and produces an exactly block-Toeplitz matrix; the scalar map
   of the X update solves the X sub-problem's optimality equation with a positive
   root; the loop stops only when its tolerance test holds.
   NOT proved (cited / tested, see MANIFEST level_note): that an eps-KKT point is
   eps-optimal (convexity of -log det), the lift of the scalar map through the
   eigendecomposition (LAPACK eigh is an oracle), and that the loop always stops
   within its budget in the stated domain (ADMM convergence rate). *)
From Coq Require Import List Arith Reals Lra.
Import ListNotations.
From Ticc Require Import Model.Viterbi Model.TriIndex Model.Admm Model.InstR Proofs.AdmmP.

(* the Z update writes every compressed index exactly once, with a value that depends only
   on the Toeplitz class: (any carrier, so also binary64) *)
Theorem C02_z_class_value : forall (A : Type) (zero one : A) (add sub mul div : A -> A -> A)
    (ltb : A -> A -> bool) (of_nat : nat -> A) (rho : A) (lam_of : nat -> nat -> nat -> A)
    (N W : nat) (u x : list A) (brc : nat * nat * nat) (k : nat),
  length x = N * W * (N * W + 1) / 2 -> length u = length x ->
  In brc (classes N W) -> In k (let '(b, r, c) := brc in locations_compressed b r c N W) ->
  length (z_update zero one add sub mul div ltb of_nat rho lam_of N W u x) = length x /\
  nth k (z_update zero one add sub mul div ltb of_nat rho lam_of N W u x) zero =
    z_class_value zero one add sub mul div ltb of_nat rho (map2 add x u) lam_of N W brc.
Proof. exact (@z_update_class_value). Qed.
Print Assumptions C02_z_class_value.

(* hence Z is exactly block-Toeplitz with symmetric leading block: positions that are equal
   under block-Toeplitz structure carry the same value *)
Theorem C02_z_toeplitz : forall (A : Type) (zero one : A) (add sub mul div : A -> A -> A)
    (ltb : A -> A -> bool) (of_nat : nat -> A) (rho : A) (lam_of : nat -> nat -> nat -> A)
    (N W : nat) (u x : list A) (R C R' C' : nat),
  0 < N -> length x = N * W * (N * W + 1) / 2 -> length u = length x ->
  R <= C < N * W -> R' <= C' < N * W ->
  C / N - R / N = C' / N - R' / N -> R mod N = R' mod N -> C mod N = C' mod N ->
  nth (tri_index (N * W) R C) (z_update zero one add sub mul div ltb of_nat rho lam_of N W u x) zero =
  nth (tri_index (N * W) R' C') (z_update zero one add sub mul div ltb of_nat rho lam_of N W u x) zero.
Proof. exact (@z_update_toeplitz). Qed.
Print Assumptions C02_z_toeplitz.

(* the class value is the minimiser of  Q|z| + (rho/2) sum_l (z - s_l)^2  (equation 9) *)
Theorem C02_soft_threshold_optimal : forall (sl : list R) (rho q z : R),
  (0 < rho)%R -> sl <> [] -> (0 <= q)%R ->
  let zs := softR (rho * fsumR sl) q (rho * INR (length sl)) in
  (q * Rabs zs + rho / 2 * fsumR (map (fun s => (zs - s) ^ 2) sl)
   <= q * Rabs z + rho / 2 * fsumR (map (fun s => (z - s) ^ 2) sl))%R.
Proof. exact soft_threshold_optimal_class. Qed.
Print Assumptions C02_soft_threshold_optimal.

(* the eigenvalue map of the X update is the positive root of rho*theta - 1/theta = d,
   in its numerically stable form and in the original form alike *)
Theorem C02_theta_prox : forall rho d : R, (0 < rho)%R ->
  (0 < thetaR rho d)%R /\ (rho * thetaR rho d - / thetaR rho d = d)%R /\ thetaR rho d = theta_legacyR rho d.
Proof. intros rho d H. destruct (theta_prox rho d H) as [H1 H2]. repeat split; try assumption. apply theta_eq_legacy; exact H. Qed.
Print Assumptions C02_theta_prox.

(* the scaled dual variable after an iteration certifies stationarity: if the X update solved
   its sub-problem (g + rho (x - z_old + u_old) = 0, g the gradient of -log det + tr(S.)) then
   g + rho u_new = -rho (z_new - z_old) *)
Theorem C02_iteration_identity : forall g rho x zold znew uold unew : R,
  (g + rho * (x - zold + uold) = 0)%R -> unew = (uold + x - znew)%R ->
  (g + rho * unew = - rho * (znew - zold))%R.
Proof. exact dual_identity. Qed.
Print Assumptions C02_iteration_identity.

(* when the loop reports convergence, its tolerance test held on the returned iterates and the
   returned Z is a Z update (hence exactly Toeplitz by C02_z_toeplitz): the result is an eps-KKT
   point with eps the solver's own tolerances; otherwise it used its whole budget *)
Theorem C02_stop_gives_eps_kkt : forall (A : Type) (zero one : A) (add sub mul div : A -> A -> A) (sqrtA : A -> A)
    (ltb leb : A -> A -> bool) (of_nat : nat -> A)
    (xprox : nat -> A -> list A -> list A -> list A) (norms : nat -> admm_state -> A * A * A * A * A)
    (rho_update : option (A -> A -> A -> A -> A -> A)) (abs_tol rel_tol c0001 : A)
    (fuel it : nat) (lam_of : nat -> nat -> nat -> A) (N W : nat) (s s' : admm_state) (it' : nat),
  admm_loop zero one add sub mul div sqrtA ltb leb of_nat xprox norms rho_update abs_tol rel_tol c0001
            fuel it lam_of N W s = (s', it', true) ->
  it < it' /\ it' <= it + fuel /\ 2 <= it' /\
  (let '(nx, nz, nru, rp, rd) := norms (it' - 1) s' in
   converged add mul sqrtA ltb leb of_nat (length (st_x s')) abs_tol rel_tol c0001 nx nz nru rp rd = true) /\
  exists rho0 u0, st_z s' = z_update zero one add sub mul div ltb of_nat rho0 lam_of N W u0 (st_x s').
Proof. exact (@admm_loop_stop). Qed.
Print Assumptions C02_stop_gives_eps_kkt.

(* non-vacuity (binary64 instance, computed) *)
From Coq Require Import PrimFloat.
From Ticc Require Import Model.InstF Corr.RunAdmm.
Example C02_example :
  softF 3%float 1%float 2%float = 1%float /\ softF (-3)%float 1%float 2%float = (-1)%float /\
  softF 0.5%float 1%float 2%float = 0%float /\
  z_updateF 1%float (fun b _ _ => lam_scalarF 0.5%float b 2) 1 2 [0; 0; 0]%float [2; 1; 4]%float = [2.5; 0.5; 2.5]%float.
Proof. vm_compute. repeat split. Qed.
Print Assumptions C02_example.
