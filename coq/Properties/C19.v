(* C19 - caller-owned data is never modified (PARTIAL: NumPy's view / copy semantics enter through
   the hand-written effect summaries, validated by the dynamic read-only / snapshot check and by
   the mutation-site inventory regenerated from the source on every run).  Statements only. *)
From Coq Require Import List Arith.
Import ListNotations.
From Ticc Require Import Model.Effects Model.Summaries Proofs.EffectsP.

(* soundness of the provenance check: a summary accepted by [safe] leaves the content of every
   caller-owned buffer unchanged - on the normal and on the exceptional exit alike *)
Theorem C19_safe_sound : forall (p : list effect) (s s' : cstate),
  safe all_caller p = true -> wf_c s -> exec s p = Some s' ->
  forall b, b < next s -> owner_caller s b = true -> content s' b = content s b.
Proof. exact safe_sound_all_caller. Qed.
Print Assumptions C19_safe_sound.

(* the check is not vacuous: it rejects a write to a parameter and through a view of one,
   accepts writes to copies and fresh arrays (also after an exception point) ... *)
Example C19_safe_examples :
  safe all_caller [EWrite 0 5] = false /\ safe all_caller [EView 1 0; EWrite 1 5] = false /\
  safe all_caller [ECopy 1 0; EWrite 1 5] = true /\ safe all_caller [EAlloc 2; EView 3 2; EWrite 3 1; ERaise; EWrite 0 1] = true.
Proof. exact safe_examples. Qed.
Print Assumptions C19_safe_examples.
(* ... and a rejected summary really can modify caller data *)
Example C19_unsafe_really_writes : exists s s', wf_c s /\ owner_caller s 0 = true /\ content s 0 = 7 /\
  exec s [EView 1 0; EWrite 1 5] = Some s' /\ content s' 0 = 5.
Proof. exact unsafe_really_writes. Qed.
Print Assumptions C19_unsafe_really_writes.

(* the effect summaries (Model/Summaries.v) of every function that contains an in-place write are all accepted *)
Theorem C19_entrypoints_safe : forallb (safe all_caller) all_summaries = true.
Proof. reflexivity. Qed.
Print Assumptions C19_entrypoints_safe.
