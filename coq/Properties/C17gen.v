(* C17 on cluster_metrics.calinski_harabasz_index AS TRANSLATED from /repo's current source by vcheck/py2coq.py
   (Gen/G_cluster_metrics.v, regenerated on every run; equivalence: Proofs/GenEquivCH.v).  SOURCE-LEVEL FORM OF THE KNOWN
   FINDING scalar-centre: over the reals the value the code as translated returns is the model's ch_impl - the index centred on
   np.mean of ALL entries, one scalar for every column - which Properties/C17.v proves different from the definition
   (C17_refuted: 66 vs 50) and equal to it exactly when every column mean equals that scalar (C17_equal_iff_centred).
   The matrices the code accumulates are opaque; assumed of them: the trace is linear and trace(v v^T) = v.v.
   (A repair of the defect changes the translated text; this statement then has to be replaced by its positive counterpart.)
   Statements only. *)
From Coq Require Import String.
From Coq Require Import List Arith ZArith QArith Reals.
Import ListNotations.
From Ticc Require Import Gen.PyRt Gen.G_cluster_metrics Model.Viterbi Model.Accounting Proofs.AccountingP Proofs.GenEquivCH.

Theorem C17_code_is_scalar_centre_formula : forall (M : Type) (np_mean_all : arr2 R -> R) (np_outer : list R -> list R -> M)
    (np_mat_of_int : Z -> M) (np_mat_add : M -> M -> M) (np_mat_scale : R -> M -> M) (np_trace : M -> R) (of_q : Q -> R),
  np_trace (np_mat_of_int 0%Z) = 0%R ->
  (forall A B : M, np_trace (np_mat_add A B) = (np_trace A + np_trace B)%R) ->
  (forall (s : R) (A : M), np_trace (np_mat_scale s A) = (s * np_trace A)%R) ->
  (forall v : list R, np_trace (np_outer v v) = sqR v) ->
  (forall a b : Z, of_q (Qdiv (inject_Z a) (inject_Z b)) = (IZR a / IZR b)%R) ->
  forall (K T d : nat) (data : list (list R)) (mems : nat -> list nat) (mu : nat -> list R),
  (2 <= K)%nat -> (K <= T)%nat -> length data = T -> Forall (fun r => length r = d) data ->
  (forall k, (k < K)%nat -> length (mu k) = d) ->
  (forall k, (k < K)%nat -> Forall (fun p => (p < T)%nat) (mems k)) ->
  np_mean_all (mk_arr2 (Z.of_nat T) (Z.of_nat d) data) = grand_scalarR data ->
  g_calinski_harabasz_index R Rminus Rmult Rdiv IZR M np_mean_all np_outer np_mat_of_int np_mat_add np_mat_scale np_trace of_q
     (mk_arr2 (Z.of_nat T) (Z.of_nat d) data) (ch_state K mems mu)
  = Ret (ch_implR K data mems mu).
Proof. exact g_ch_eq. Qed.
Print Assumptions C17_code_is_scalar_centre_formula.

(* non-vacuity: the translated function computed on the 4 x 2 example of C17_refuted (integer carrier, a matrix represented
   by its trace): 66, where the definition gives 50 *)
Example C17_code_example :
  g_calinski_harabasz_index Z Z.sub Z.mul Z.div (fun z => z) Z (fun a => 8%Z) zdot (fun z => z) Z.add Z.mul (fun m => m)
     (fun q => (Qnum q / Zpos (Qden q))%Z) (mk_arr2 4 2 zdata)
     (mk_ch_model (map (fun k => mk_ch_cluster (Z.of_nat (length (zmems k))) (map Z.of_nat (zmems k)) (zmu k)) (seq 0 2)))
  = Ret 66%Z.
Proof. vm_compute. reflexivity. Qed.
Print Assumptions C17_code_example.
