(* C16 on cluster_metrics.bayesian_information_criterion AS TRANSLATED from /repo's current source by vcheck/py2coq.py
   (Gen/G_cluster_metrics.v, regenerated on every run; equivalence with the model: Proofs/GenEquivCM.v).
   The NumPy matrix functions are uninterpreted symbols of the translation:
     np_slogdet_logabs m   = np.linalg.slogdet(m)[1]         (ln |det m|)
     np_trace_dot a b      = np.trace(np.dot(a, b))
     np_count_above m t    = np.sum(np.abs(m) > t)            (a count, hence >= 0)
     np_log, flit "2e-05"  = np.log, the literal 2e-5.
   Statements only. *)
From Coq Require Import String.
From Coq Require Import List Arith ZArith Reals Lra.
Import ListNotations.
From Ticc Require Import Gen.PyRt Gen.G_cluster_metrics Model.Viterbi Model.Accounting Proofs.AccountingP Proofs.GenEquivCM.

(* the translated function IS the model (run counting + assembly), for every carrier *)
Theorem C16_code_is_model : forall (F : Type) (zero two : F) (add sub mul : F -> F -> F)
    (of_nat : nat -> F) (of_int : Z -> F) (M : Type) (flit : string -> F) (np_log : F -> F)
    (np_slogdet_logabs : M -> F) (np_trace_dot : M -> M -> F) (np_count_above : M -> F -> Z),
  of_int 0%Z = zero -> of_int 2%Z = two -> (forall n : nat, of_int (Z.of_nat n) = of_nat n) ->
  (forall (m : M) (t : F), (0 <= np_count_above m t)%Z) ->
  forall (cl : list (bic_cluster M)) (labels : list nat),
  Forall (fun l => l < length cl) labels ->
  g_bayesian_information_criterion F add sub mul of_int M flit np_log np_slogdet_logabs np_trace_dot np_count_above
    (mk_bic_model (mk_bic_args (Z.of_nat (length cl))) cl (map Z.of_nat labels))
  = Ret (bic zero two add sub mul of_nat
             (run_params (params_of F M flit np_count_above cl) labels)
             (np_log (of_nat (length labels)))
             (map (fun c => np_slogdet_logabs (bc_train_inverse c)) cl)
             (map (fun c => np_trace_dot (bc_train_inverse c) (bc_empirical_covariance c)) cl)).
Proof. exact g_bic_eq. Qed.
Print Assumptions C16_code_is_model.

(* over the reals: for every K, every labelling with labels in [0,K) and every K matrices, the value the code as
   translated returns is  P ln T - 2 sum_k (ln det Theta_k - tr(Theta_k S_k))  with T the number of labelled windows and
   P the sum, over the maximal runs of equal consecutive labels, of the number of entries above 2e-5 of that cluster's MRF *)
Theorem C16_code_formula : forall (M : Type) (flit : string -> R) (np_log : R -> R)
    (np_slogdet_logabs : M -> R) (np_trace_dot : M -> M -> R) (np_count_above : M -> R -> Z),
  (forall (m : M) (t : R), (0 <= np_count_above m t)%Z) ->
  forall (cl : list (bic_cluster M)) (labels : list nat),
  Forall (fun l => l < length cl) labels ->
  let params := params_of R M flit np_count_above cl in
  g_bayesian_information_criterion R Rplus Rminus Rmult IZR M flit np_log np_slogdet_logabs np_trace_dot np_count_above
    (mk_bic_model (mk_bic_args (Z.of_nat (length cl))) cl (map Z.of_nat labels))
  = Ret (INR (list_sum (map params (runs labels))) * np_log (INR (length labels))
         - 2 * fold_right Rplus 0
                 (map (fun c => np_slogdet_logabs (bc_train_inverse c)
                                - np_trace_dot (bc_train_inverse c) (bc_empirical_covariance c)) cl))%R.
Proof.
  intros M flit np_log sld trd cnt Hcnt cl labels Hl params.
  rewrite (g_bic_eq R 0%R 2%R Rplus Rminus Rmult INR IZR M flit np_log sld trd cnt
                    eq_refl eq_refl (fun n => eq_sym (INR_IZR_INZ n)) Hcnt cl labels Hl).
  f_equal. fold params. fold (bicR (run_params params labels) (np_log (INR (length labels)))
     (map (fun c => sld (bc_train_inverse c)) cl) (map (fun c => trd (bc_train_inverse c) (bc_empirical_covariance c)) cl)).
  rewrite bic_formula by (rewrite !map_length; reflexivity).
  rewrite run_params_is_runs. f_equal. f_equal. f_equal.
  clear Hl params. induction cl as [|c cl IH]; [reflexivity|]. cbn [map map2]. f_equal.
  exact IH.
Qed.
Print Assumptions C16_code_formula.

(* non-vacuity: three clusters, labels with a repeated run; counts m + t, log-dets 2m, traces a*b on an integer carrier *)
Example C16_code_example :
  g_bayesian_information_criterion Z Z.add Z.sub Z.mul (fun z => z) Z (fun _ => 5%Z) (fun x => (x + 100)%Z)
     (fun m => (2 * m)%Z) (fun a b => (a * b)%Z) (fun m t => (m + t)%Z)
     (mk_bic_model (mk_bic_args 3) [mk_bic_cluster 3 4; mk_bic_cluster 10 1; mk_bic_cluster 7 7]%Z
                   (map Z.of_nat [2; 2; 0; 0; 0; 2; 1]))
  = Ret 5091%Z.
Proof. vm_compute. reflexivity. Qed.
Print Assumptions C16_code_example.
