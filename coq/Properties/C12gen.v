(* C12 on cluster_maintenance.update_cluster_member_data_statistics AS TRANSLATED from /repo's current source by
   vcheck/py2coq.py (Gen/G_cluster_maintenance.v, regenerated on every run; equivalence: Proofs/GenEquivCR.v).
   np.cov(np.transpose(X), bias=b) and np.mean(X, axis=0) are uninterpreted symbols of the translation.  Statements only. *)
From Coq Require Import String.
From Coq Require Import List Arith ZArith Bool.
Import ListNotations.
From Ticc Require Import Gen.PyRt Gen.G_cluster_maintenance Model.Viterbi Model.Stats Proofs.GenEquivCR.

(* for every data matrix, every non-empty member list and both estimator flags: the covariance and the mean stored in the
   returned cluster are np.cov / np.mean of exactly the rows named by the cluster's member list - no other row, none missing,
   in that order - and np.cov is asked for the biased estimate exactly when the caller asked for it or the cluster holds a
   single window; size and member list are returned unchanged *)
Theorem C12_code_statistics_of_own_windows : forall (F M : Type) (np_cov_of_rows : arr2 F -> bool -> M) (np_mean_rows : arr2 F -> list F)
    (T NW : nat) (data : list (list F)) (members : list nat) (cov0 : M) (mean0 : list F) (biased : bool),
  members <> [] -> Forall (fun p => p < T) members -> length data = T ->
  let X := mk_arr2 (Z.of_nat (length members)) (Z.of_nat NW) (select members data) in
  g_update_cluster_member_data_statistics F M np_cov_of_rows np_mean_rows
    (mk_st_cluster (Z.of_nat (length members)) (map Z.of_nat members) cov0 mean0) (mk_arr2 (Z.of_nat T) (Z.of_nat NW) data) biased
  = Ret (mk_st_cluster (Z.of_nat (length members)) (map Z.of_nat members)
           (np_cov_of_rows X (biased || Nat.ltb (length members) 2)) (np_mean_rows X)).
Proof. exact g_update_cluster_statistics_eq. Qed.
Print Assumptions C12_code_statistics_of_own_windows.

(* the flag handed to np.cov is the model's divisor rule: n for biased or a single window, n - 1 otherwise *)
Theorem C12_code_estimator_flag : forall (biased : bool) (n : nat),
  divisor biased n = if (biased || Nat.ltb n 2)%bool then n else n - 1.
Proof. reflexivity. Qed.
Print Assumptions C12_code_estimator_flag.
