(* C12 on cluster_maintenance.update_cluster_member_data_statistics AS TRANSLATED from /repo's current source by
   vcheck/py2coq.py (Gen/G_cluster_maintenance.v, regenerated on every run; equivalence: Proofs/GenEquivCR.v).
   np.cov(np.transpose(X), bias=b) and np.mean(X, axis=0) are uninterpreted symbols of the translation.  Statements only. *)
From Coq Require Import String.
From Coq Require Import List Arith ZArith Bool.
Import ListNotations.
From Ticc Require Import Gen.PyRt Gen.G_cluster_maintenance Model.Viterbi Model.Stats Proofs.GenEquivCR.

(* for every data matrix, every non-empty member list and both estimator flags: the covariance and the mean stored in the
   returned cluster are np.cov / np.mean of exactly the rows named by the cluster's member list - no other row, none missing,
   in that order - and np.cov is asked for the biased estimate exactly when the caller asked for it or the cluster holds a
   single window; size and member list are returned unchanged *)
Theorem C12_code_statistics_of_own_windows : forall (F M : Type) (np_cov_of_rows : arr2 F -> bool -> M) (np_mean_rows : arr2 F -> list F)
    (T NW : nat) (data : list (list F)) (members : list nat) (cov0 : M) (mean0 : list F) (biased : bool),
  members <> [] -> Forall (fun p => p < T) members -> length data = T ->
  let X := mk_arr2 (Z.of_nat (length members)) (Z.of_nat NW) (select members data) in
  g_update_cluster_member_data_statistics F M np_cov_of_rows np_mean_rows
    (mk_st_cluster (Z.of_nat (length members)) (map Z.of_nat members) cov0 mean0) (mk_arr2 (Z.of_nat T) (Z.of_nat NW) data) biased
  = Ret (mk_st_cluster (Z.of_nat (length members)) (map Z.of_nat members)
           (np_cov_of_rows X (biased || Nat.ltb (length members) 2)) (np_mean_rows X)).
Proof. exact g_update_cluster_statistics_eq. Qed.
Print Assumptions C12_code_statistics_of_own_windows.

(* the flag handed to np.cov is the model's divisor rule: n for biased or a single window, n - 1 otherwise *)
Theorem C12_code_estimator_flag : forall (biased : bool) (n : nat),
  divisor biased n = if (biased || Nat.ltb n 2)%bool then n else n - 1.
Proof. reflexivity. Qed.
Print Assumptions C12_code_estimator_flag.

(* ---- the scatter step of the optimise phase AS TRANSLATED in skeleton mode (graphical_lasso.optimize_markov_random_fields,
   _setup_optimization_task -> Gen/G_gl_optimize.v, G_gl_setup.v; facts: Proofs/GenEquivGO.v): the optimisation task of
   cluster k is set up from the cluster fetched at index k, with the number of series int(NW / W), the window size, THE USER'S
   sparsity weight and the pool, for k = 0 .. K-1 in this order; and a task hands the pool  admm.admm_optimize_theta  with the
   argument list built from (cluster.empirical_covariance, density_penalty, window_size, num_data_series) and the fixed
   solver settings - for every behaviour of every callee ---- *)
From Ticc Require Import Gen.PySkel Gen.G_gl_optimize Gen.G_gl_setup Proofs.GenEquivGO.
Local Open Scope string_scope.

Theorem C12_code_tasks_in_cluster_order : forall (V : Type) (vint : Z -> V) (as_int : V -> option Z) (getattr : V -> string -> V)
    (oracle : list (event V) -> string -> list V -> res V) (model data pool r : V) (log log' : list (event V)) (K : Z),
  as_int (getattr (getattr model "arguments") "num_clusters") = Some K ->
  g_optimize_markov_random_fields V vint as_int getattr oracle model data pool log = (Ret r, log') ->
  exists q N none tasks0 ext tasks_final,
    log' = (log ++ [Ev "op:/" [getattr (getattr data "shape") "[1]"; getattr (getattr model "arguments") "window_size"];
                    Ev "int" [q]; Ev "expr:[None]" []; Ev "op:*" [none; getattr (getattr model "arguments") "num_clusters"]]
                ++ ext ++ [Ev "_retrieve_optimization_results" [model; tasks_final]])%list /\
    oracle (log ++ [Ev "op:/" [getattr (getattr data "shape") "[1]"; getattr (getattr model "arguments") "window_size"]])%list "int" [q] = Ret N /\
    oracle (log ++ [Ev "op:/" [getattr (getattr data "shape") "[1]"; getattr (getattr model "arguments") "window_size"];
                    Ev "int" [q]; Ev "expr:[None]" []])%list "op:*" [none; getattr (getattr model "arguments") "num_clusters"] = Ret tasks0 /\
    length ext = 3 * Z.to_nat K /\
    (forall k, k < Z.to_nat K ->
       exists c t tb, firstn 3 (skipn (3 * k) ext) = setup_events V vint getattr model N pool tb k c t).
Proof. exact optimize_returns. Qed.
Print Assumptions C12_code_tasks_in_cluster_order.

Theorem C12_code_task_arguments : forall (V : Type) (vglobal : string -> V) (oracle : list (event V) -> string -> list V -> res V)
    (cluster N W lam pool r : V) (log log' : list (event V)),
  g_setup_optimization_task V vglobal oracle cluster N W lam pool log = (Ret r, log') ->
  exists args kwargs,
    log' = (log ++ [Ev "expr:[cluster.empirical_covariance, density_penalty, window_size, num_data_series]" [cluster; lam; N; W];
                    Ev "expr:{'rho': 1, 'rho_update': None, 'max_iterations': 1000, 'relative_tolerance': 1e-06, 'absolute_tolerance': 1e-06, 'verbose': False}" [];
                    Ev "method:apply_async" [pool; vglobal "admm.admm_optimize_theta"; args; kwargs]])%list.
Proof. exact setup_returns. Qed.
Print Assumptions C12_code_task_arguments.
