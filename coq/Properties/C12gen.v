(* C12 on cluster_maintenance.update_cluster_member_data_statistics AS TRANSLATED from /repo's current source by
   vcheck/py2coq.py (Gen/G_cluster_maintenance.v, regenerated on every run; equivalence: Proofs/GenEquivCR.v).
   np.cov(np.transpose(X), bias=b) and np.mean(X, axis=0) are uninterpreted symbols of the translation.  Statements only. *)
From Coq Require Import String.
From Coq Require Import List Arith ZArith Bool.
Import ListNotations.
From Ticc Require Import Gen.PyRt Gen.G_cluster_maintenance Model.Viterbi Model.Stats Proofs.GenEquivCR.

(* for every data matrix, every non-empty member list and both estimator flags: the covariance and the mean stored in the
   returned cluster are np.cov / np.mean of exactly the rows named by the cluster's member list - no other row, none missing,
   in that order - and np.cov is asked for the biased estimate exactly when the caller asked for it or the cluster holds a
   single window; size and member list are returned unchanged *)
Theorem C12_code_statistics_of_own_windows : forall (F M : Type) (np_cov_of_rows : arr2 F -> bool -> M) (np_mean_rows : arr2 F -> list F)
    (T NW : nat) (data : list (list F)) (members : list nat) (cov0 : M) (mean0 : list F) (biased : bool),
  members <> [] -> Forall (fun p => p < T) members -> length data = T ->
  let X := mk_arr2 (Z.of_nat (length members)) (Z.of_nat NW) (select members data) in
  g_update_cluster_member_data_statistics F M np_cov_of_rows np_mean_rows
    (mk_st_cluster (Z.of_nat (length members)) (map Z.of_nat members) cov0 mean0) (mk_arr2 (Z.of_nat T) (Z.of_nat NW) data) biased
  = Ret (mk_st_cluster (Z.of_nat (length members)) (map Z.of_nat members)
           (np_cov_of_rows X (biased || Nat.ltb (length members) 2)) (np_mean_rows X)).
Proof. exact g_update_cluster_statistics_eq. Qed.
Print Assumptions C12_code_statistics_of_own_windows.

(* the flag handed to np.cov is the model's divisor rule: n for biased or a single window, n - 1 otherwise *)
Theorem C12_code_estimator_flag : forall (biased : bool) (n : nat),
  divisor biased n = if (biased || Nat.ltb n 2)%bool then n else n - 1.
Proof. reflexivity. Qed.
Print Assumptions C12_code_estimator_flag.

(* ---- the scatter step of the optimise phase AS TRANSLATED in skeleton mode (graphical_lasso.optimize_markov_random_fields,
   _setup_optimization_task -> Gen/G_gl_optimize.v, G_gl_setup.v; facts: Proofs/GenEquivGO.v): the optimisation task of
   cluster k is set up from the cluster fetched at index k, with the number of series int(NW / W), the window size, THE USER'S
   sparsity weight and the pool, for k = 0 .. K-1 in this order; and a task hands the pool  admm.admm_optimize_theta  with the
   argument list built from (cluster.empirical_covariance, density_penalty, window_size, num_data_series) and the fixed
   solver settings - for every behaviour of every callee ---- *)
From Ticc Require Import Gen.PySkel Gen.G_gl_optimize Gen.G_gl_setup Proofs.GenEquivGO.
Local Open Scope string_scope.

Theorem C12_code_tasks_in_cluster_order : forall (V : Type) (vint : Z -> V) (as_int : V -> option Z) (getattr : V -> string -> V)
    (oracle : list (event V) -> string -> list V -> res V) (model data pool r : V) (log log' : list (event V)) (K : Z),
  as_int (getattr (getattr model "arguments") "num_clusters") = Some K ->
  g_optimize_markov_random_fields V vint as_int getattr oracle model data pool log = (Ret r, log') ->
  exists q N none tasks0 ext tasks_final,
    log' = (log ++ [Ev "op:/" [getattr (getattr data "shape") "[1]"; getattr (getattr model "arguments") "window_size"];
                    Ev "int" [q]; Ev "expr:[None]" []; Ev "op:*" [none; getattr (getattr model "arguments") "num_clusters"]]
                ++ ext ++ [Ev "_retrieve_optimization_results" [model; tasks_final]])%list /\
    oracle (log ++ [Ev "op:/" [getattr (getattr data "shape") "[1]"; getattr (getattr model "arguments") "window_size"]])%list "int" [q] = Ret N /\
    oracle (log ++ [Ev "op:/" [getattr (getattr data "shape") "[1]"; getattr (getattr model "arguments") "window_size"];
                    Ev "int" [q]; Ev "expr:[None]" []])%list "op:*" [none; getattr (getattr model "arguments") "num_clusters"] = Ret tasks0 /\
    length ext = 3 * Z.to_nat K /\
    (forall k, k < Z.to_nat K ->
       exists c t tb, firstn 3 (skipn (3 * k) ext) = setup_events V vint getattr model N pool tb k c t).
Proof. exact optimize_returns. Qed.
Print Assumptions C12_code_tasks_in_cluster_order.

Theorem C12_code_task_arguments : forall (V : Type) (vglobal : string -> V) (oracle : list (event V) -> string -> list V -> res V)
    (cluster N W lam pool r : V) (log log' : list (event V)),
  g_setup_optimization_task V vglobal oracle cluster N W lam pool log = (Ret r, log') ->
  exists args kwargs,
    log' = (log ++ [Ev "expr:[cluster.empirical_covariance, density_penalty, window_size, num_data_series]" [cluster; lam; N; W];
                    Ev "expr:{'rho': 1, 'rho_update': None, 'max_iterations': 1000, 'relative_tolerance': 1e-06, 'absolute_tolerance': 1e-06, 'verbose': False}" [];
                    Ev "method:apply_async" [pool; vglobal "admm.admm_optimize_theta"; args; kwargs]])%list.
Proof. exact setup_returns. Qed.
Print Assumptions C12_code_task_arguments.

(* ---- the STATISTICS PHASE AS TRANSLATED in skeleton mode (Gen/G_cm_update_all.v; facts: Proofs/GenEquivPH.v): every cluster
   0 .. K-1 is refreshed exactly once, in order, by update_cluster_member_data_statistics(cluster k of the copy, THE training data
   of the call, the biased flag of the given model's arguments) and stored back at its own index k ---- *)
From Ticc Require Import Gen.PySkel Gen.G_cm_update_all Proofs.GenEquivPH.
Section SkelPH12.
  Local Open Scope string_scope.
  Variable V : Type.
  Variable vnone : V.
  Variable vint : Z -> V.
  Variable as_int : V -> option Z.
  Variable veq : V -> V -> bool.
  Variable getattr : V -> string -> V.
  Variable truthy : V -> bool.
  Variable is_none : V -> bool.
  Variables vtrue vfalse : V.
  Variable as_list : V -> list V.
  Variable vglobal : string -> V.
  Variable oracle : list (event V) -> string -> list V -> res V.
  Let last_state := GenEquivPH.last_state V.
  Let member_events := GenEquivPH.member_events V getattr.
  Let refresh_events := GenEquivPH.refresh_events V vint getattr.
  Let refresh_answers := GenEquivPH.refresh_answers V vint getattr oracle.
  Theorem C12_code_statistics_phase (model data r : V) (log log' : list (event V)) (K : Z) :
    as_int (getattr (getattr model "arguments") "num_clusters") = Some K ->
    g_update_all_cluster_statistics V vint as_int getattr as_list oracle model data log = (Ret r, log') ->
    exists members en gs u0 ans,
      let pre := (log ++ [Ev f_members [getattr (getattr model "arguments") "num_clusters"];
                          Ev "enumerate" [getattr model "point_labels"]]
                      ++ member_events members (as_list en) gs)%list in
      length gs = length (as_list en) /\
      length ans = Z.to_nat K /\
      log' = (pre ++ [Ev "method:shallow_copy" [model]] ++ refresh_events model data 0 u0 ans)%list /\
      oracle log f_members [getattr (getattr model "arguments") "num_clusters"] = Ret members /\
      oracle (log ++ [Ev f_members [getattr (getattr model "arguments") "num_clusters"]])%list
             "enumerate" [getattr model "point_labels"] = Ret en /\
      oracle pre "method:shallow_copy" [model] = Ret u0 /\
      refresh_answers model data (pre ++ [Ev "method:shallow_copy" [model]])%list 0 u0 ans /\
      r = last_state u0 ans.
  Proof. intros; eapply update_all_returns; eassumption. Qed.
End SkelPH12.
Print Assumptions C12_code_statistics_phase.

(* ---- graphical_lasso._update_cluster_statistics AS TRANSLATED (Gen/G_gl_stats.v; facts: Proofs/GenEquivLW.v): mean and covariance are
   computed from the SAME selected rows (the cluster's member points), with the bias flag of the call ---- *)
From Ticc Require Import Gen.PySkel Gen.G_gl_stats Proofs.GenEquivLW.
Section SkelLW12.
  Local Open Scope string_scope.
  Variable V : Type.
  Variable vnone : V.
  Variable vint : Z -> V.
  Variable as_int : V -> option Z.
  Variable veq : V -> V -> bool.
  Variable getattr : V -> string -> V.
  Variable truthy : V -> bool.
  Variable is_none : V -> bool.
  Variables vtrue vfalse : V.
  Variable as_list : V -> list V.
  Variable vglobal : string -> V.
  Variable oracle : list (event V) -> string -> list V -> res V.
  Let stats_events := GenEquivLW.stats_events V vint.
  Let assert_events := GenEquivLW.assert_events V.
  Theorem C12_code_cluster_statistics (cluster training_data biased_covariance r : V) (log log' : list (event V)) (n : Z) :
    as_int (getattr cluster "size") = Some n -> n <> 0%Z ->
    g_update_cluster_statistics V vint as_int getattr truthy oracle cluster training_data biased_covariance log = (Ret r, log') ->
    exists u0 rows mean u1 rowsT cov,
      log' = (log ++ stats_events cluster training_data biased_covariance u0 rows mean u1 rowsT cov)%list /\
      oracle (log ++ [Ev "method:shallow_copy" [cluster]])%list f_rows [cluster; training_data] = Ret rows /\
      oracle (log ++ firstn 6 (stats_events cluster training_data biased_covariance u0 rows mean u1 rowsT cov))%list
             "setattr:empirical_covariance" [u1; cov] = Ret r.
  Proof. intros; eapply gl_stats_returns; eassumption. Qed.
  Theorem C12_code_cluster_statistics_empty (cluster training_data biased_covariance r : V) (log log' : list (event V)) :
    as_int (getattr cluster "size") = Some 0%Z ->
    g_update_cluster_statistics V vint as_int getattr truthy oracle cluster training_data biased_covariance log = (Ret r, log') ->
    exists msg err u0 rows mean u1 rowsT cov,
      log' = (log ++ assert_events msg
                  ++ stats_events cluster training_data biased_covariance u0 rows mean u1 rowsT cov)%list /\
      oracle log f_empty_msg [] = Ret msg /\
      oracle (log ++ [Ev f_empty_msg []])%list "RuntimeError" [msg] = Ret err /\ truthy err = true /\
      oracle (log ++ assert_events msg ++ [Ev "method:shallow_copy" [cluster]])%list f_rows [cluster; training_data] = Ret rows /\
      oracle (log ++ assert_events msg
                  ++ firstn 6 (stats_events cluster training_data biased_covariance u0 rows mean u1 rowsT cov))%list
             "setattr:empirical_covariance" [u1; cov] = Ret r.
  Proof. intros; eapply gl_stats_returns_empty; eassumption. Qed.
End SkelLW12.
Print Assumptions C12_code_cluster_statistics.
Print Assumptions C12_code_cluster_statistics_empty.

(* ---- the OPTIMISE PHASE END TO END for the code AS TRANSLATED (Proofs/InterpOptimise.v): four control skeletons LINKED -
   optimize_markov_random_fields, _setup_optimization_task, _retrieve_optimization_results, _update_cluster_covariances; each inner
   function is answered by RUNNING its own generated skeleton - over abstract covariances / matrices and an arbitrary solver.  A task
   handle answers `get()` with the solver's answer to the covariance the task was created with, by the identity of the handle and
   whatever the history (= whatever order the pool finishes its tasks in); objects obtained by shallow_copy are marked fresh and every
   store into an object that is not fresh raises.  For every number of clusters: the phase returns a FRESH state in which every
   cluster, in order, carries the solver's answer to ITS OWN covariance (and the inverse / log-determinant of that very matrix), its
   covariance unchanged - and since the run returns, the code never stored into the state or the clusters it was given. ---- *)
From Ticc Require Import Gen.G_gl_optimize Proofs.InterpOptimise.
Theorem C12_code_optimise_phase_end_to_end : forall (C Mx L : Type) (solve : C -> Mx) (post inv : Mx -> Mx) (logdet : Mx -> L)
    (cs : list (cluster_data C Mx L)) (W N : nat) (data pool : val C Mx L),
  exists log' : list (PySkel.event (val C Mx L)),
    g_optimize_markov_random_fields (val C Mx L) (VInt C Mx L) (InterpOptimise.as_int C Mx L) (InterpOptimise.getattr C Mx L)
      (oracle_opt C Mx L solve post inv logdet) (VModel C Mx L cs (length cs) W N) data pool nil
    = (PyRt.Ret (VFresh C Mx L (VModel C Mx L (List.map (fit C Mx L solve post inv logdet) cs) (length cs) W N)), log').
Proof. exact optimise_phase_end_to_end. Qed.
Print Assumptions C12_code_optimise_phase_end_to_end.

Theorem C12_code_optimise_own_covariance : forall (C Mx L : Type) (solve : C -> Mx) (post inv : Mx -> Mx) (logdet : Mx -> L)
    (cs : list (cluster_data C Mx L)) (W N : nat) (data pool : val C Mx L) (d : cluster_data C Mx L),
  exists (cs' : list (cluster_data C Mx L)) (log' : list (PySkel.event (val C Mx L))),
    g_optimize_markov_random_fields (val C Mx L) (VInt C Mx L) (InterpOptimise.as_int C Mx L) (InterpOptimise.getattr C Mx L)
      (oracle_opt C Mx L solve post inv logdet) (VModel C Mx L cs (length cs) W N) data pool nil
    = (PyRt.Ret (VFresh C Mx L (VModel C Mx L cs' (length cs) W N)), log') /\
    (forall k : nat, (k < length cs)%nat ->
       cov C Mx L (List.nth k cs' d) = cov C Mx L (List.nth k cs d) /\
       mrf C Mx L (List.nth k cs' d) = Some (post (solve (cov C Mx L (List.nth k cs d))))).
Proof. exact optimise_phase_own_covariance_nth. Qed.
Print Assumptions C12_code_optimise_own_covariance.

(* ---- the STATISTICS PHASE END TO END for the code AS TRANSLATED (Proofs/InterpStatistics.v): the skeleton of
   update_all_cluster_statistics interpreted over abstract clusters / data and an arbitrary statistics helper, with the fresh-copy
   discipline (a store into an object that did not come from shallow_copy raises).  For every number of clusters: the phase returns a
   FRESH state in which cluster k, for every k in order, is the helper applied to THAT cluster, THE data of the call and the biased flag
   of the GIVEN model's arguments; the state given is never stored into. ---- *)
From Ticc Require Import Gen.G_cm_update_all Proofs.InterpStatistics.
Theorem C12_code_statistics_phase_end_to_end : forall (Cl Dt : Type) (stats_of : Cl -> Dt -> bool -> Cl)
    (cs : list Cl) (b : bool) (labels : list nat) (d : Dt),
  exists log' : list (PySkel.event (InterpStatistics.val Cl Dt)),
    g_update_all_cluster_statistics (InterpStatistics.val Cl Dt) (InterpStatistics.VInt Cl Dt) (InterpStatistics.as_int Cl Dt)
      (InterpStatistics.getattr Cl Dt) (InterpStatistics.as_list Cl Dt) (InterpStatistics.oracle_model Cl Dt stats_of)
      (InterpStatistics.VModel Cl Dt cs b labels) (InterpStatistics.VData Cl Dt d) nil
    = (PyRt.Ret (InterpStatistics.VFresh Cl Dt (InterpStatistics.VModel Cl Dt (List.map (fun c : Cl => stats_of c d b) cs) b labels)), log').
Proof. exact statistics_phase_end_to_end. Qed.
Print Assumptions C12_code_statistics_phase_end_to_end.
