(* C14 - results are reproducible and independent of process scheduling (PARTIAL: the OS
   scheduler, fork and BLAS threading are not modelled).  Statements only. *)
From Coq Require Import List Arith Permutation.
Import ListNotations.
From Ticc Require Import Model.Sched Model.MainLoop Proofs.SchedP Proofs.MainLoopExt.

(* the gather step reads results by task index, so for EVERY completion order (and hence every
   number of workers and every assignment of tasks to workers) it returns map f args *)
Theorem C14_gather_schedule_independent : forall (Arg Res : Type) (f : Arg -> Res) (args : list Arg) (sched : list nat) (d : Arg),
  Permutation sched (seq 0 (length args)) ->
  run_pool f args sched d = map (fun a => Some (f a)) args.
Proof. exact (@gather_schedule_independent). Qed.
Print Assumptions C14_gather_schedule_independent.

Theorem C14_any_two_schedules : forall (Arg Res : Type) (f : Arg -> Res) (args : list Arg) (s1 s2 : list nat) (d : Arg),
  Permutation s1 (seq 0 (length args)) -> Permutation s2 (seq 0 (length args)) ->
  run_pool f args s1 d = run_pool f args s2 d.
Proof. exact (@gather_any_two_schedules). Qed.
Print Assumptions C14_any_two_schedules.

(* whole runs: two executions of the main loop that differ only in the completion order of the
   optimisation tasks of every round (any schedules, chosen per round by the current labelling)
   return the same outcome - same rounds, same labels, same cost, same models *)
Theorem C14_run_schedule_independent : forall (Arg Res C : Type) (opt : Arg -> Res) (args_of : list nat -> list Arg) (d : Arg)
    (repopF : list nat -> option (list nat)) (labelF : list (option Res) -> list nat * C)
    (sched1 sched2 : list nat -> list nat) (limit : nat) (init : list nat),
  (forall l, Permutation (sched1 l) (seq 0 (length (args_of l)))) ->
  (forall l, Permutation (sched2 l) (seq 0 (length (args_of l)))) ->
  run repopF (fit_with opt args_of d sched1) labelF limit init = run repopF (fit_with opt args_of d sched2) labelF limit init.
Proof. intros. apply run_schedule_independent; assumption. Qed.
Print Assumptions C14_run_schedule_independent.

(* memoised index helpers: as long as every cached pair is (k, f k), a call returns f k whatever
   calls were made earlier in the process, and calls preserve that invariant *)
Theorem C14_memo : forall (Key Val : Type) (key_eqb : Key -> Key -> bool) (f : Key -> Val),
  (forall a b, key_eqb a b = true <-> a = b) ->
  forall (c : list (Key * Val)) (ks : list Key), cache_ok f c ->
  fst (memo_calls key_eqb f c ks) = map f ks /\ cache_ok f (snd (memo_calls key_eqb f c ks)).
Proof. intros Key Val key_eqb f H c ks Hc. apply (memo_calls_correct key_eqb f H). exact Hc. Qed.
Print Assumptions C14_memo.

Theorem C14_memo_history_independent : forall (Key Val : Type) (key_eqb : Key -> Key -> bool) (f : Key -> Val),
  (forall a b, key_eqb a b = true <-> a = b) ->
  forall (ks1 ks2 : list Key) (k : Key),
  fst (memo_call key_eqb f (snd (memo_calls key_eqb f [] ks1)) k) = fst (memo_call key_eqb f (snd (memo_calls key_eqb f [] ks2)) k).
Proof. intros Key Val key_eqb f H. apply (memo_history_independent key_eqb f H). Qed.
Print Assumptions C14_memo_history_independent.

(* ... and an in-place edit of a cached list breaks it: why no caller may mutate what the
   cached helpers return (checked on the implementation by digests of the cached objects) *)
Example C14_memo_poison_example : let f := fun k : nat => k + 1 in
  fst (memo_call Nat.eqb f [(3, 99)] 3) <> f 3 /\ ~ cache_ok f [(3, 99)].
Proof. exact memo_poison_example. Qed.
Print Assumptions C14_memo_poison_example.
