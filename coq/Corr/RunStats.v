From Coq Require Import List Arith ZArith QArith.
Import ListNotations.
From Ticc Require Import Model.Stats.

Definition ofnQ (n : nat) : Q := inject_Z (Z.of_nat n).
Definition meanQ := mean_vec 0%Q Qplus Qdiv ofnQ.
Definition covQ := cov 0%Q Qplus Qminus Qmult Qdiv ofnQ.
Definition qpair (q : Q) : Z * Z := let r := Qred q in (Qnum r, Zpos (Qden r)).
(* integer data, selected rows, flag -> (mean, covariance) as reduced fractions *)
Definition run_stats (c : list (list Z) * list nat * bool * nat) : list (Z * Z) * list (list (Z * Z)) :=
  let '(dataZ, rows, biased, d) := c in
  let X := select rows (map (map inject_Z) dataZ) in
  (map qpair (meanQ d X), map (map qpair) (covQ biased d X)).
