From Coq Require Import List Arith Bool NArith ZArith Uint63.
Import ListNotations.
From Ticc Require Import Model.State Model.MainLoop Corr.Hash.

Fixpoint assoc (tbl : list (list nat * list nat)) (l : list nat) : option (list nat) :=
  match tbl with
  | [] => None
  | (k, v) :: r => if list_eqb k l then Some v else assoc r l
  end.
Definition opt_is (o : option (list nat)) (l : list nat) : bool :=
  match o with Some x => list_eqb x l | None => false end.

(* the model loop driven by recorded phase outputs:
   repop_tbl : labels at the start of a round -> labels after repopulation
   fit_tbl   : labels the clusters were fitted to -> labels assigned by that round
   fail_repop / fail_fit : the labels on which the injected fault strikes (if any) *)
Definition replay (c : nat * list nat * list (list nat * list nat) * list (list nat * list nat)
                       * option (list nat) * option (list nat)) : list int :=
  let '(limit, init, repop_tbl, fit_tbl, fail_repop, fail_fit) := c in
  let repopF := fun l => if opt_is fail_repop l then None
                         else match assoc repop_tbl l with Some x => Some x | None => Some l end in
  let fitF := fun l : list nat => if opt_is fail_fit l then None else Some l in
  let labelF := fun m : list nat => (match assoc fit_tbl m with Some o => o | None => [] end, 0) in
  let pool_code := fun p => match p with PoolOpen => 0 | PoolClosedJoined => 1 | PoolTerminatedJoined => 2 end in
  match run repopF fitF labelF limit init with
  | None => [0%uint63]
  | Some (Done t e p) =>
    [1%uint63; Uint63.of_Z (Z.of_nat (length t)); (if e then 1 else 0)%uint63; Uint63.of_Z (Z.of_nat (pool_code p));
     hashN (map N.of_nat (match result_of t with Some (l, _, _) => l | None => [] end))]
  | Some (Failed t p) =>
    [2%uint63; Uint63.of_Z (Z.of_nat (length t)); 0%uint63; Uint63.of_Z (Z.of_nat (pool_code p)); 0%uint63]
  end.

(* the verified acceptor on a recorded trace *)
Definition accept (c : nat * nat * list nat * list rec3 * list nat) : bool :=
  let '(K, limit, init, t, res) := c in accept_c09 K limit init t res.
