From Coq Require Import List NArith ZArith Arith Uint63.
Import ListNotations.
From Ticc Require Import Model.Stacking Corr.Hash.

(* input cell (r,c) of a T x N series carries the tag base + r*N + c *)
Definition tagdata (T n : nat) (base : N) : list (list N) :=
  map (fun r => map (fun c => (base + N.of_nat (r * n + c))%N) (seq 0 n)) (seq 0 T).

Definition run_stack (c : nat * nat * nat) : int :=
  let '(T, W, n) := c in hash_rows (stack W (tagdata T n 0)).

Fixpoint tag_series (s : N) (n : nat) (Ts : list nat) : list (list (list N)) :=
  match Ts with
  | [] => []
  | T :: r => tagdata T n (s * 100000)%N :: tag_series (s + 1)%N n r
  end.
Definition run_multi (c : nat * nat * list nat) : int :=
  let '(W, n, Ts) := c in hash_rows (stack_multi W (tag_series 0 n Ts)).

(* split + pad: joint labels are the tags 0,1,2,... as Z *)
Definition run_joint (c : nat * list nat) : int :=
  let '(W, Ts) := c in
  let n := list_sum (map (num_windows W) Ts) in
  hash_rowsZ (front_joint_labels W Ts (map Z.of_nat (seq 0 n))).
Definition run_single (c : nat * nat) : int :=
  let '(W, T) := c in
  hash_rowsZ [front_single_labels W (map Z.of_nat (seq 0 (num_windows W T)))].

Definition run_template (lens : list nat) : int :=
  hashN (map (fun b : bool => if b then 1%N else 0%N) (template lens)).

(* front ends on explicit labels (end-to-end: labels of the final model state) *)
Definition run_front_joint (c : nat * list nat * list Z) : int :=
  let '(W, Ts, labels) := c in hash_rowsZ (front_joint_labels W Ts labels).
Definition run_front_single (c : nat * list Z) : int :=
  let '(W, labels) := c in hash_rowsZ [front_single_labels W labels].
