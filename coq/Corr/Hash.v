(* Checksums used by the correspondence harness so that Coq prints short
   values instead of large terms.  Mirrored by vcheck/coqfmt.py.
   Arithmetic is on primitive 63-bit integers (wraps mod 2^63). *)
From Coq Require Import List NArith ZArith Uint63.
Import ListNotations.

Definition hstep (h x : int) : int := (h * 1000003 + x + 1)%uint63.
Definition hashI (l : list int) : int := fold_left hstep l 7%uint63.
Definition ofN (n : N) : int := Uint63.of_Z (Z.of_N n).
Definition hashN (l : list N) : int := hashI (map ofN l).
(* rows with shape: number of rows, then each row preceded by its length *)
Definition hash_rows (rows : list (list N)) : int :=
  hashN (N.of_nat (length rows) :: concat (map (fun r => N.of_nat (length r) :: r) rows)).
(* Z values are shifted to be non-negative (labels are >= -1) *)
Definition ZtoN (z : Z) : N := Z.to_N (z + 1000)%Z.
Definition hash_rowsZ (rows : list (list Z)) : int := hash_rows (map (map ZtoN) rows).
