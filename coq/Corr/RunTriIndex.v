From Coq Require Import List NArith ZArith Arith Uint63.
Import ListNotations.
From Ticc Require Import Model.TriIndex Proofs.TriIndexFast Corr.Hash.

Definition pairsN (l : list (nat * nat)) : list N :=
  concat (map (fun rc => [N.of_nat (fst rc); N.of_nat (snd rc)]) l).

(* np.triu_indices(n) as (r,c) pairs, then _compressed_index of each pair, then _full_matrix_size *)
Definition run_triu (n : nat) : int :=
  (* N.of_nat (tri_index ..) = tri_indexN .. by Proofs/TriIndexFast.tri_indexN_eq *)
  hashN (pairsN (triu n) ++ map (fun rc => tri_indexN (N.of_nat n) (N.of_nat (fst rc)) (N.of_nat (snd rc))) (triu n)
         ++ [N.of_nat (full_matrix_size (n * (n + 1) / 2))]).

(* compress_matrix / reinflate_matrix on integer-valued matrices (exact in binary64):
   M r c = 1 + min(r,c)*n + max(r,c)  (symmetric);  v k = 1 + 3k *)
Definition symM (n r c : nat) : Z := (1 + Z.of_nat (Nat.min r c) * Z.of_nat n + Z.of_nat (Nat.max r c))%Z.
Definition run_compress (n : nat) : int :=
  hash_rowsZ [compress n (symM n)].
Definition run_reinflate (n : nat) : int :=
  let v := map (fun k => (1 + 3 * Z.of_nat k)%Z) (seq 0 (n * (n + 1) / 2)) in
  (* reinflate_fast = reinflate by Proofs/TriIndexFast.matrix_rows_reinflate_fast *)
  hash_rowsZ (matrix_rows n (reinflate_fast 0%Z Z.add Z.sub v)).

(* all Toeplitz classes of (N, W) in the enumeration order of the Z update:
   (b, r, c), the (row, col) positions, the compressed indices *)
Definition run_classes (c : nat * nat) : int :=
  let '(n, w) := c in
  hashN (concat (map (fun brc =>
      let '(b, r, cc) := brc in
      [N.of_nat b; N.of_nat r; N.of_nat cc]
      ++ map N.of_nat (fst (locations_slices b r cc n w))
      ++ map N.of_nat (snd (locations_slices b r cc n w))
      (* = map N.of_nat (locations_compressed ..) by Proofs/TriIndexFast.locations_compressedN_eq *)
      ++ locations_compressedN b r cc n w) (classes n w))).
