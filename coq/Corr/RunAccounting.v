From Coq Require Import List Arith NArith ZArith QArith PrimFloat Bool.
Import ListNotations.
From Ticc Require Import Model.Viterbi Model.Repop Model.Accounting Model.InstF.

Fixpoint bad_from (i : nat) (l : list bool) : list nat :=
  match l with [] => [] | true :: r => bad_from (S i) r | false :: r => i :: bad_from (S i) r end.
Definition bad (l : list bool) : list nat := bad_from 0 l.

(* ---- binary64 ---- *)
Definition llF := ll 0.5%float PrimFloat.sub PrimFloat.mul.
Definition nwlF := nw_log_2pi PrimFloat.mul of_natF.
(* (logdet, quad, nw, log2pi, expected) *)
Definition chk_ll (c : float * float * nat * float * float) : bool :=
  let '(ld, q, nw, l2p, e) := c in feqb (llF ld q (nwlF nw l2p)) e.

Definition nnzF := nnz 0%float PrimFloat.sub PrimFloat.ltb.
Definition bicF := bic 0%float 2%float PrimFloat.add PrimFloat.sub PrimFloat.mul of_natF.
(* (threshold, entries of one MRF, expected count) *)
Definition chk_nnz (c : float * list float * nat) : bool :=
  let '(t, th, e) := c in Nat.eqb (nnzF t th) e.
(* (per-cluster parameter counts, labels, ln T, log-dets, traces, expected P, expected BIC) *)
Definition chk_bic (c : list nat * list nat * float * list float * list float * nat * float) : bool :=
  let '(params, labels, lnT, lds, trs, eP, e) := c in
  let P := run_params (fun k => nth k params 0%nat) labels in
  Nat.eqb P eP && feqb (bicF P lnT lds trs) e.

(* ---- bucketing on integer-valued per-point values (exact) ---- *)
(* (K, labels, values, expected flattened list, expected per-cluster lists) *)
Definition chk_buckets (c : nat * list nat * list Z * list Z * list (list Z)) : bool :=
  let '(K, labels, vals, eflat, eb) := c in
  let b := buckets K labels (fun p => nth p vals 0%Z) in
  (if list_eq_dec Z.eq_dec (flatten b) eflat then true else false) &&
  (if list_eq_dec (list_eq_dec Z.eq_dec) b eb then true else false).

(* ---- Calinski-Harabasz over Q (exact rationals) ---- *)
Definition ofnQ (n : nat) : Q := inject_Z (Z.of_nat n).
Definition ch_implQ := ch_impl 0%Q Qplus Qminus Qmult Qdiv ofnQ.
Definition ch_defQ := ch_def 0%Q Qplus Qminus Qmult Qdiv ofnQ.
Definition member_meanQ := member_mean 0%Q Qplus Qdiv ofnQ.
(* data as integers, labels; clusters' means are the member means; returns (num, den) of both *)
Definition run_ch (c : nat * list (list Z) * list nat) : (Z * Z) * (Z * Z) :=
  let '(K, dataZ, labels) := c in
  let data := map (map inject_Z) dataZ in
  let mems := fun k => members labels k in
  let mu := fun k => member_meanQ data (mems k) in
  let a := Qred (ch_implQ K data mems mu) in
  let b := Qred (ch_defQ K data mems mu) in
  ((Qnum a, Zpos (Qden a)), (Qnum b, Zpos (Qden b))).
