From Coq Require Import List Arith Bool.
Import ListNotations.
From Ticc Require Import Model.Repop.

Definition oeq (a b : option (list nat)) : bool :=
  match a, b with
  | None, None => true
  | Some x, Some y => if list_eq_dec Nat.eq_dec x y then true else false
  | _, _ => false
  end.
Definition run (c : nat * nat * list nat * list nat * list (list nat) * list nat) : option (list nat) :=
  let '(K, m, sp, order, draws, labels) := c in
  repopulate K m (fun k => nth k sp 0) order draws labels.
Fixpoint bad_from (i : nat) (l : list bool) : list nat :=
  match l with [] => [] | true :: r => bad_from (S i) r | false :: r => i :: bad_from (S i) r end.
Definition mismatches (cases : list (nat * nat * list nat * list nat * list (list nat) * list nat))
           (expected : list (option (list nat))) : list nat :=
  bad_from 0 (map (fun ce => oeq (run (fst ce)) (snd ce)) (combine cases expected)).
