From Coq Require Import List Arith NArith ZArith Bool Uint63 FMapPositive.
Import ListNotations.
From Ticc Require Import Model.State Model.Repop Corr.Hash.

(* ---- signature of the object graph reachable from a list of state handles ----
   A deterministic traversal lists every reference (0 for None, loc+1 otherwise);
   references are then renamed by order of first occurrence, which makes the
   sequence invariant under renaming of locations: equal sequences <=> isomorphic
   aliasing graphs (same sharing) along the traversal. *)
Definition oref (o : option loc) : nat := match o with Some l => S l | None => 0 end.

Definition cluster_refs (h : heap) (c : loc) : list nat :=
  match get h c with
  | Some (OCluster mem ec mean ti cc ic ld) => [S c; S mem; oref ec; oref mean; oref ti; oref cc; oref ic]
  | _ => [S c]
  end.
Definition state_refs (h : heap) (s : loc) : list nat :=
  match get h s with
  | Some (OState a cl lab cost data) =>
    [S s; S a] ++
    (match get h a with Some (OArgs _ _ lam beta) => [oref lam; oref beta] | _ => [] end) ++
    [S cl] ++ concat (map (cluster_refs h) (get_refs h cl)) ++ [oref lab; S data]
  | _ => [S s]
  end.

(* rename by first occurrence; 0 stays 0 (a positive-keyed map keeps this near-linear) *)
Fixpoint canon_go (seen : PositiveMap.t nat) (cnt : nat) (l : list nat) : list nat :=
  match l with
  | [] => []
  | 0 :: r => 0 :: canon_go seen cnt r
  | x :: r => let key := Pos.of_nat x in
              match PositiveMap.find key seen with
              | Some k => S k :: canon_go seen cnt r
              | None => S cnt :: canon_go (PositiveMap.add key cnt seen) (S cnt) r
              end
  end.
Definition canon (l : list nat) : list nat := canon_go (PositiveMap.empty nat) 0 l.

(* contents: labels, member lists, presence of cost / log-det, and the partition of all arrays
   and log-det values into classes of equal content (again by first occurrence) *)
Definition cluster_vals (h : heap) (c : loc) : list nat :=
  match get h c with
  | Some (OCluster mem _ _ _ _ _ ld) =>
    length (get_list h mem) :: get_list h mem ++ [match ld with Some _ => 1 | None => 0 end]
  | _ => []
  end.
Definition state_vals (h : heap) (s : loc) : list nat :=
  match get h s with
  | Some (OState a cl lab cost data) =>
    (match lab with Some l => S (length (get_list h l)) :: get_list h l | None => [0] end) ++
    [match cost with Some _ => 1 | None => 0 end] ++
    concat (map (cluster_vals h) (get_refs h cl))
  | _ => []
  end.

(* content classes: list of contents (list nat) in traversal order, canonised by first occurrence *)
Definition arr_content (h : heap) (o : option loc) : option (list nat) :=
  match o with
  | Some l => match get h l with Some (OArr c) => Some (0 :: c) | _ => None end
  | None => None
  end.
Definition cluster_contents (h : heap) (c : loc) : list (option (list nat)) :=
  match get h c with
  | Some (OCluster _ ec mean ti cc ic ld) =>
    [arr_content h ec; arr_content h mean; arr_content h ti; arr_content h cc; arr_content h ic;
     match ld with Some v => Some (1 :: v) | None => None end]
  | _ => []
  end.
Definition state_contents (h : heap) (s : loc) : list (option (list nat)) :=
  match get h s with
  | Some (OState a cl lab cost data) => concat (map (cluster_contents h) (get_refs h cl))
  | _ => []
  end.
(* contents are first hashed to a 63-bit integer, then renamed by first occurrence *)
Definition content_key (x : list nat) : positive :=
  Z.to_pos (1 + Uint63.to_Z (hashN (map N.of_nat x))).
Fixpoint canon_c (seen : PositiveMap.t nat) (cnt : nat) (l : list (option (list nat))) : list nat :=
  match l with
  | [] => []
  | None :: r => 0 :: canon_c seen cnt r
  | Some x :: r => let key := content_key x in
                   match PositiveMap.find key seen with
                   | Some k => S k :: canon_c seen cnt r
                   | None => S cnt :: canon_c (PositiveMap.add key cnt seen) (S cnt) r
                   end
  end.

Definition signature (h : heap) (handles : list loc) : int :=
  hashN (map N.of_nat (canon (concat (map (state_refs h) handles))
                       ++ [99999] ++ concat (map (state_vals h) handles)
                       ++ [99999] ++ canon_c (PositiveMap.empty nat) 0 (concat (map (state_contents h) handles)))).

Definition recent (hs : list loc) : list loc := skipn (length hs - 4) hs.

(* run an op sequence, emitting after every op the signature over the four most recent handles, and after the last op over all handles;
   a failing op ends the trace with the marker 1 *)
Fixpoint run_sig (h : heap) (s : loc) (handles : list loc) (ops : list op) : list int :=
  match ops with
  | [] => []
  | o :: r =>
    match step (h, s) o with
    | None => [1%uint63]
    | Some (h', s') =>
      let hs := if existsb (Nat.eqb s') handles then handles else handles ++ [s'] in
      signature h' (recent hs) :: (match r with [] => [signature h' hs] | _ => [] end) ++ run_sig h' s' hs r
    end
  end.

Definition run_case (c : nat * nat * bool * bool * list op) : int :=
  let '(K, m, la, ba, ops) := c in
  let '(h, s) := init K m la ba in
  hashI (signature h [s] :: run_sig h s [s] ops).

(* ---- operation sequences extracted from REAL main-loop runs (hooks H1): the optimise step carries one
   tag per cluster (equal tags <=> the optimiser received bit-identical covariances), everything else
   as in [op].  Uses the same phase functions as [step]. *)
Inductive eop :=
| ESet (labels : list nat)
| ERepop (spread order : list nat) (draws : list (list nat))
| EStats (biased : bool)
| EOpt (tags : list nat)
| ERelabel (labels : list nat) (cost : nat).

Definition estep (hs : heap * loc) (o : eop) : option (heap * loc) :=
  let '(h, s) := hs in
  match o with
  | ESet ls => let '(h1, l) := alloc h (OList ls) in Some (set_labels h1 s l, s)
  | ERepop sp order draws => phase_repopulate h s (fun k => nth k sp 0) order draws
  | EStats b => phase_statistics h s b
  | EOpt tags => Some (phase_optimise h s (fun k => [nth k tags 0]))
  | ERelabel ls c => Some (phase_relabel h s ls [c])
  end.

Fixpoint erun_sig (h : heap) (s : loc) (handles : list loc) (ops : list eop) : list int :=
  match ops with
  | [] => []
  | o :: r =>
    match estep (h, s) o with
    | None => [1%uint63]
    | Some (h', s') =>
      let hs := if existsb (Nat.eqb s') handles then handles else handles ++ [s'] in
      signature h' (recent hs) :: erun_sig h' s' hs r
    end
  end.

Definition erun_case (c : nat * nat * bool * bool * list eop) : int :=
  let '(K, m, la, ba, ops) := c in
  let '(h, s) := init K m la ba in
  hashI (erun_sig h s [s] ops).
