From Coq Require Import List Arith NArith PrimFloat Bool.
Import ListNotations.
From Ticc Require Import Model.Viterbi Model.InstF.

Definition viterbiF := viterbi 0%float PrimFloat.add PrimFloat.sub PrimFloat.ltb.
Definition pcostF := pcost 0%float PrimFloat.add.

Fixpoint list_nat_eqb (a b : list nat) : bool :=
  match a, b with
  | [], [] => true
  | x :: a', y :: b' => Nat.eqb x y && list_nat_eqb a' b'
  | _, _ => false
  end.

(* 0 = labels and cost agree bit for bit; 1 = cost agrees, labels differ; 2 = cost differs *)
Definition check_case (c : nat * list (list float) * list float * list nat * float) : nat :=
  let '(K, rows, betas, labels, cost) := c in
  let '(l, v) := viterbiF K rows betas in
  if feqb v cost then (if list_nat_eqb l labels then 0 else 1) else 2.

Fixpoint bad_from (i : nat) (codes : list nat) : list (nat * nat) :=
  match codes with
  | [] => []
  | 0 :: r => bad_from (S i) r
  | c :: r => (i, c) :: bad_from (S i) r
  end.
Definition mismatches (cases : list (nat * list (list float) * list float * list nat * float)) :=
  bad_from 0 (map check_case cases).
