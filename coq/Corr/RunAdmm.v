From Coq Require Import List Arith NArith ZArith PrimFloat Bool.
Import ListNotations.
From Ticc Require Import Model.Viterbi Model.TriIndex Model.Admm Model.InstF.

Definition ltF := PrimFloat.ltb.
Definition leF := PrimFloat.leb.
Definition softF := soft_threshold 0%float 1%float PrimFloat.add PrimFloat.sub PrimFloat.mul PrimFloat.div ltF.
Definition np_sumF := np_sum 0%float PrimFloat.add.
Definition lam_scalarF := lambda_sum_scalar PrimFloat.mul of_natF.
Definition lam_matrixF := lambda_sum_matrix fsumF.
Definition z_updateF := z_update 0%float 1%float PrimFloat.add PrimFloat.sub PrimFloat.mul PrimFloat.div ltF of_natF.
Definition u_updateF := u_update PrimFloat.add PrimFloat.sub.
Definition thetaF := theta 0%float 1%float PrimFloat.add PrimFloat.sub PrimFloat.mul PrimFloat.div PrimFloat.sqrt ltF 2%float 4%float.
Definition theta_legacyF := theta_legacy 1%float PrimFloat.add PrimFloat.mul PrimFloat.div PrimFloat.sqrt 2%float 4%float.
Definition zero_smallF := zero_small 0%float PrimFloat.sub ltF.
Definition tolerancesF := tolerances PrimFloat.add PrimFloat.mul PrimFloat.sqrt ltF of_natF.
Definition convergedF := converged PrimFloat.add PrimFloat.mul PrimFloat.sqrt ltF leF of_natF.

Fixpoint bad_from (i : nat) (l : list bool) : list nat :=
  match l with [] => [] | true :: r => bad_from (S i) r | false :: r => i :: bad_from (S i) r end.
Definition bad (l : list bool) : list nat := bad_from 0 l.

(* 1. soft threshold: (s, q, rr, expected) *)
Definition chk_soft (c : float * float * float * float) : bool :=
  let '(s, q, rr, e) := c in feqb (softF s q rr) e.
(* 2a. np.sum of a short array *)
Definition chk_sum (c : list float * float) : bool := feqb (np_sumF (fst c)) (snd c).
(* 2b. lambda sum, scalar branch: (lam, b, W, expected) *)
Definition chk_lam_scalar (c : float * nat * nat * float) : bool :=
  let '(lam, b, W, e) := c in feqb (lam_scalarF lam b W) e.
(* 2c. lambda sum, matrix branch: (matrix rows, b, r, c, N, W, expected) *)
Definition mat_of (rows : list (list float)) (i j : nat) : float := nth j (nth i rows []) 0%float.
Definition chk_lam_matrix (c : list (list float) * nat * nat * nat * nat * nat * float) : bool :=
  let '(rows, b, r, cc, n, w, e) := c in feqb (lam_matrixF (mat_of rows) b r cc n w) e.
(* 3. Z update: (N, W, rho, scalar lambda or matrix, u, x, expected z) *)
Definition lam_of (lam : float + list (list float)) (n w : nat) : nat -> nat -> nat -> float :=
  match lam with
  | inl l => fun b _ _ => lam_scalarF l b w
  | inr rows => fun b r c => lam_matrixF (mat_of rows) b r c n w
  end.
Definition chk_z (c : nat * nat * float * (float + list (list float)) * list float * list float * list float) : bool :=
  let '(n, w, rho, lam, u, x, e) := c in list_feqb (z_updateF rho (lam_of lam n w) n w u x) e.
(* 4. U update *)
Definition chk_u (c : list float * list float * list float * list float) : bool :=
  let '(u, x, z, e) := c in list_feqb (u_updateF u x z) e.
(* 5. eigenvalue map: (rho, d, expected Theta eigenvalue) *)
Definition chk_theta (c : float * float * float) : bool :=
  let '(rho, d, e) := c in feqb (thetaF rho d) e.
(* 6. small-element filter *)
Definition chk_zero_small (c : float * list float * list float) : bool :=
  let '(eps, xs, e) := c in list_feqb (map (zero_smallF eps) xs) e.
(* 7. convergence test with the norms as oracle inputs:
      (size, abs, rel, nx, nz, nru, rp, rd, expected tol_primal, tol_dual, stop) *)
Definition chk_conv (c : nat * float * float * float * float * float * float * float * float * float * bool) : bool :=
  let '(size, a, r, nx, nz, nru, rp, rd, etp, etd, es) := c in
  let '(tp, td) := tolerancesF size a r c0001F nx nz nru in
  feqb tp etp && feqb td etd && Bool.eqb (convergedF size a r c0001F nx nz nru rp rd) es.

(* 8. the loop, replayed with the recorded X updates and norms:
      (N, W, rho, lambda, max_iterations, abs, rel, xs per iteration, norms per iteration,
       expected iterations, stopped, final z, final u) *)
Definition loopF (xs : list (list float)) (ns : list (float * float * float * float * float)) :=
  admm_loop 0%float 1%float PrimFloat.add PrimFloat.sub PrimFloat.mul PrimFloat.div PrimFloat.sqrt ltF leF of_natF
            (fun it _ _ _ => nth it xs [])
            (fun it _ => nth it ns (0, 0, 0, 0, 0)%float)
            None.
Definition chk_loop (c : nat * nat * float * (float + list (list float)) * nat * float * float
                         * list (list float) * list (float * float * float * float * float)
                         * nat * bool * list float * list float) : bool :=
  let '(n, w, rho, lam, maxit, a, r, xs, ns, eit, estop, ez, eu) := c in
  let m := (n * w) * (n * w + 1) / 2 in
  let z0 := repeat 0%float m in
  let '(s, it, stopped) := loopF xs ns a r c0001F maxit 0 (lam_of lam n w) n w
                                 (mk_admm z0 z0 z0 z0 rho) in
  Nat.eqb it eit && Bool.eqb stopped estop && list_feqb (st_z s) ez && list_feqb (st_u s) eu.

(* the same with the residual-balancing callback used by the harness:
   rp > 10 rd -> 2 rho ; rd > 10 rp -> rho / 2 ; else rho *)
Definition boydF (rho rp tp rd td : float) : float :=
  if ltF (10 * rd)%float rp then (2 * rho)%float else if ltF (10 * rp)%float rd then (rho / 2)%float else rho.
Definition loop_cbF (xs : list (list float)) (ns : list (float * float * float * float * float)) :=
  admm_loop 0%float 1%float PrimFloat.add PrimFloat.sub PrimFloat.mul PrimFloat.div PrimFloat.sqrt ltF leF of_natF
            (fun it _ _ _ => nth it xs [])
            (fun it _ => nth it ns (0, 0, 0, 0, 0)%float)
            (Some boydF).
Definition chk_loop_cb (c : nat * nat * float * (float + list (list float)) * nat * float * float
                         * list (list float) * list (float * float * float * float * float)
                         * nat * bool * list float * list float) : bool :=
  let '(n, w, rho, lam, maxit, a, r, xs, ns, eit, estop, ez, eu) := c in
  let m := (n * w) * (n * w + 1) / 2 in
  let z0 := repeat 0%float m in
  let '(s, it, stopped) := loop_cbF xs ns a r c0001F maxit 0 (lam_of lam n w) n w
                                    (mk_admm z0 z0 z0 z0 rho) in
  Nat.eqb it eit && Bool.eqb stopped estop && list_feqb (st_z s) ez && list_feqb (st_u s) eu.
