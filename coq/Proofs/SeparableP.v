(* Joint labelling of several series with the boundary-masked switching cost
   is the same as labelling every series separately (over the reals). *)
From Coq Require Import List Arith NArith Lia Reals Lra Bool.
Import ListNotations.
From Ticc Require Import Model.Viterbi Model.InstR Model.Stacking Proofs.ViterbiShape Proofs.ViterbiR Proofs.StackingP.
Open Scope R_scope.

Definition masked_betas (b : R) (lens : list nat) : list R :=
  map (fun t : bool => if t then b else 0) (template lens).

(* ------------------------------------------------------------------ *)
(* small list facts                                                    *)
(* ------------------------------------------------------------------ *)
Lemma map_const_repeat {A B} (f : A -> B) (v : B) (l : list A) :
  (forall x, In x l -> f x = v) -> map f l = repeat v (length l).
Proof.
  induction l as [|x l IH]; intros H; simpl; [reflexivity|].
  rewrite (H x (or_introl eq_refl)). f_equal. apply IH. intros y Hy. apply H. right. exact Hy.
Qed.

Lemma map_repeat' {A B} (f : A -> B) (x : A) n : map f (repeat x n) = repeat (f x) n.
Proof. induction n as [|n IH]; simpl; [reflexivity|]. rewrite IH. reflexivity. Qed.

Lemma Forall_concat' {A} (P : A -> Prop) (ls : list (list A)) :
  Forall (Forall P) ls -> Forall P (concat ls).
Proof.
  induction 1 as [|l ls Hl _ IH]; simpl; [constructor|]. apply Forall_app. split; assumption.
Qed.

Lemma Forall_split_by {A} (P : A -> Prop) (lens : list nat) : forall l : list A,
  Forall P l -> Forall (Forall P) (split_by lens l).
Proof.
  induction lens as [|n lens IH]; intros l H; simpl; [constructor|].
  rewrite <- (firstn_skipn n l) in H. apply Forall_app in H. destruct H as [H1 H2].
  constructor; [exact H1|]. apply IH. exact H2.
Qed.

Lemma concat_length' {A} (ls : list (list A)) :
  length (concat ls) = list_sum (map (@length A) ls).
Proof. induction ls as [|l ls IH]; simpl; [reflexivity|]. rewrite app_length, IH. reflexivity. Qed.

Lemma Forall2_of_lengths {A B} (ts : list (list A)) : forall ps : list (list B),
  map (@length B) ps = map (@length A) ts ->
  Forall2 (fun t p => length p = length t) ts ps.
Proof.
  induction ts as [|t ts IH]; intros [|p ps] H; simpl in H; try discriminate; [constructor|].
  injection H as H1 H2. constructor; [exact H1|]. apply IH. exact H2.
Qed.

Lemma Forall2_concat_length {A B} (ts : list (list A)) (ps : list (list B)) :
  Forall2 (fun t p => length p = length t) ts ps ->
  length (concat ps) = length (concat ts).
Proof.
  induction 1 as [|t p ts ps Hl _ IH]; simpl; [reflexivity|]. rewrite !app_length, IH, Hl. reflexivity.
Qed.

(* ------------------------------------------------------------------ *)
(* structure of the template                                           *)
(* ------------------------------------------------------------------ *)
Definition tmpl_from (acc : nat) (lens : list nat) : list bool :=
  map (fun i => negb (existsb (Nat.eqb i) (boundary_pairs_from acc lens)))
      (seq acc (list_sum lens)).

Fixpoint tmpl_rec (lens : list nat) : list bool :=
  match lens with
  | [] => []
  | n :: rest =>
    match rest with
    | [] => repeat true n
    | _ :: _ => repeat true (n - 1) ++ false :: tmpl_rec rest
    end
  end.

Lemma bp_ge lens : forall acc i,
  Forall (fun n => (1 <= n)%nat) lens -> In i (boundary_pairs_from acc lens) -> (acc <= i)%nat.
Proof.
  induction lens as [|n rest IH]; intros acc i Hpos Hin; [destruct Hin|].
  destruct rest as [|n2 rest']; [destruct Hin|].
  pose proof (Forall_inv Hpos) as Hn. cbv beta in Hn. pose proof (Forall_inv_tail Hpos) as Hrest.
  cbn [boundary_pairs_from In] in Hin. destruct Hin as [Hin|Hin]; [lia|].
  specialize (IH (acc + n)%nat i Hrest Hin). lia.
Qed.

Lemma tmpl_from_rec lens : forall acc,
  Forall (fun n => (1 <= n)%nat) lens -> tmpl_from acc lens = tmpl_rec lens.
Proof.
  induction lens as [|n rest IH]; intros acc Hpos; [reflexivity|].
  pose proof (Forall_inv Hpos) as Hn. cbv beta in Hn. pose proof (Forall_inv_tail Hpos) as Hrest.
  destruct rest as [|n2 rest'].
  - unfold tmpl_from. cbn [boundary_pairs_from list_sum fold_right existsb negb tmpl_rec].
    rewrite Nat.add_0_r.
    rewrite (map_const_repeat _ true) by (intros; reflexivity). rewrite seq_length. reflexivity.
  - specialize (IH (acc + n)%nat Hrest).
    change (tmpl_rec (n :: n2 :: rest'))
      with (repeat true (n - 1) ++ false :: tmpl_rec (n2 :: rest')).
    rewrite <- IH. unfold tmpl_from.
    change (boundary_pairs_from acc (n :: n2 :: rest'))
      with ((acc + n - 1)%nat :: boundary_pairs_from (acc + n) (n2 :: rest')).
    set (L :=boundary_pairs_from (acc + n) (n2 :: rest')).
    assert (HL : forall i, In i L -> (acc + n <= i)%nat) by (intros i Hi; apply (bp_ge _ _ _ Hrest Hi)).
    change (list_sum (n :: n2 :: rest')) with (n + list_sum (n2 :: rest'))%nat.
    set (S2 := list_sum (n2 :: rest')).
    replace (n + S2)%nat with ((n - 1) + (1 + S2))%nat by lia.
    rewrite seq_app, map_app. f_equal.
    + rewrite (map_const_repeat _ true); [rewrite seq_length; reflexivity|].
      intros i Hi. apply in_seq in Hi.
      destruct (existsb (Nat.eqb i) ((acc + n - 1)%nat :: L)) eqn:E; [|reflexivity].
      apply existsb_eqb_In in E. destruct E as [E|E]; [lia|]. specialize (HL i E). lia.
    + cbn [Nat.add seq map]. f_equal.
      * cbn [existsb]. replace (acc + (n - 1))%nat with (acc + n - 1)%nat by lia.
        rewrite Nat.eqb_refl. reflexivity.
      * replace (S (acc + (n - 1)))%nat with (acc + n)%nat by lia.
        apply map_ext_in. intros i Hi. apply in_seq in Hi. cbn [existsb].
        replace (Nat.eqb i (acc + n - 1)) with false; [reflexivity|].
        symmetry. apply Nat.eqb_neq. lia.
Qed.

Lemma template_rec lens :
  Forall (fun n => (1 <= n)%nat) lens -> template lens = tmpl_rec lens.
Proof. intros H. exact (tmpl_from_rec lens 0%nat H). Qed.

Lemma masked_one b n : masked_betas b [n] = repeat b n.
Proof. unfold masked_betas. rewrite template_single, map_repeat'. reflexivity. Qed.

Lemma masked_cons b n n2 rest :
  Forall (fun n => (1 <= n)%nat) (n :: n2 :: rest) ->
  masked_betas b (n :: n2 :: rest) = repeat b (n - 1) ++ [0] ++ masked_betas b (n2 :: rest).
Proof.
  intros H. unfold masked_betas.
  rewrite (template_rec _ H), (template_rec _ (Forall_inv_tail H)).
  change (tmpl_rec (n :: n2 :: rest))
    with (repeat true (n - 1) ++ false :: tmpl_rec (n2 :: rest)).
  rewrite map_app, map_repeat'. reflexivity.
Qed.

Lemma masked_nonneg b lens : 0 <= b -> Forall (fun x => 0 <= x) (masked_betas b lens).
Proof.
  intros Hb. unfold masked_betas. apply Forall_forall. intros x Hx.
  apply in_map_iff in Hx. destruct Hx as [[|] [<- _]]; lra.
Qed.

Lemma lens_pos {A} (tables : list (list A)) :
  Forall (fun t => t <> []) tables ->
  Forall (fun n => (1 <= n)%nat) (map (@length A) tables).
Proof.
  induction 1 as [|t ts Ht _ IH]; simpl; constructor; [|exact IH].
  destruct t; [congruence|simpl; lia].
Qed.

(* ------------------------------------------------------------------ *)
(* (1) the cost splits at a zero-priced junction                       *)
(* ------------------------------------------------------------------ *)
Lemma tcost_junction b bs rest ps : forall t1 c q1,
  length q1 = length t1 ->
  tcostR c (t1 ++ rest) (repeat b (length t1) ++ 0 :: bs) (q1 ++ ps)
  = tcostR c t1 (repeat b (S (length t1))) q1 + pcostR rest bs ps.
Proof.
  induction t1 as [|r t1 IH]; intros c [|c' q1] Hl; simpl in Hl; try lia.
  - cbn [app repeat length Viterbi.tcost]. destruct rest as [|r2 rest']; [simpl; lra|].
    destruct ps as [|c2 ps']; [simpl; lra|].
    cbn [Viterbi.tcost Viterbi.pcost hd tl]. destruct (Nat.eqb c c2); lra.
  - cbn [app repeat length Viterbi.tcost hd tl].
    rewrite IH by lia. cbn [repeat]. lra.
Qed.

Lemma pcost_junction b bs rest ps t1 p1 :
  t1 <> [] -> length p1 = length t1 ->
  pcostR (t1 ++ rest) (repeat b (length t1 - 1) ++ [0] ++ bs) (p1 ++ ps)
  = pcostR t1 (repeat b (length t1)) p1 + pcostR rest bs ps.
Proof.
  intros Hne Hl. destruct t1 as [|r t1]; [congruence|]. destruct p1 as [|c q1]; [simpl in Hl; lia|].
  cbn [length]. replace (S (length t1) - 1)%nat with (length t1) by lia.
  cbn [app Viterbi.pcost].
  rewrite tcost_junction by (simpl in Hl; lia). lra.
Qed.

Theorem pcost_masked_split (tables : list (list (list R))) (paths : list (list nat)) (b : R) :
  Forall (fun t => t <> []) tables ->
  Forall2 (fun t p => length p = length t) tables paths ->
  pcostR (concat tables) (masked_betas b (map (@length (list R)) tables)) (concat paths)
  = fold_right Rplus 0 (map (fun tp => pcostR (fst tp) (repeat b (length (fst tp))) (snd tp)) (combine tables paths)).
Proof.
  intros Hne H2. induction H2 as [|t p ts ps Hlen H2 IH].
  - reflexivity.
  - pose proof (Forall_inv Hne) as Ht. cbv beta in Ht. pose proof (Forall_inv_tail Hne) as Hts.
    specialize (IH Hts). pose proof (lens_pos _ Hne) as Hpos.
    destruct H2 as [|t2 p2 ts' ps' Hlen2 H2'].
    + cbn [concat map combine fold_right fst snd]. rewrite !app_nil_r, masked_one. lra.
    + cbn [map] in *. rewrite (masked_cons _ _ _ _ Hpos).
      change (concat (t :: t2 :: ts')) with (t ++ concat (t2 :: ts')).
      change (concat (p :: p2 :: ps')) with (p ++ concat (p2 :: ps')).
      rewrite (pcost_junction b _ _ _ t p Ht Hlen). rewrite IH.
      cbn [combine map fold_right fst snd]. reflexivity.
Qed.

(* ------------------------------------------------------------------ *)
(* (2) joint optimum = sum of per-series optima                        *)
(* ------------------------------------------------------------------ *)
Lemma sum_upper K b (tables : list (list (list R))) :
  (0 < K)%nat -> (N.of_nat K <= 65536)%N -> 0 <= b ->
  Forall (fun t => t <> [] /\ wf_rows K t) tables ->
  fold_right Rplus 0
    (map (fun tp => pcostR (fst tp) (repeat b (length (fst tp))) (snd tp))
         (combine tables (map (fun t => fst (viterbiR K t (repeat b (length t)))) tables)))
  = fold_right Rplus 0 (map (fun t => snd (viterbiR K t (repeat b (length t)))) tables).
Proof.
  intros HK HK16 Hb. induction 1 as [|t ts [Hne Hwf] _ IH]; [reflexivity|].
  cbn [map combine fold_right fst snd]. rewrite IH.
  rewrite (viterbi_cost_is_path_cost K t (repeat b (length t)) HK HK16 Hne Hwf)
    by (apply Forall_repeat; exact Hb).
  reflexivity.
Qed.

Lemma sum_lower K b (tables : list (list (list R))) (paths : list (list nat)) :
  (0 < K)%nat -> (N.of_nat K <= 65536)%N -> 0 <= b ->
  Forall (fun t => t <> [] /\ wf_rows K t) tables ->
  Forall2 (fun t p => length p = length t) tables paths ->
  Forall (wf_path K) paths ->
  fold_right Rplus 0 (map (fun t => snd (viterbiR K t (repeat b (length t)))) tables)
  <= fold_right Rplus 0
       (map (fun tp => pcostR (fst tp) (repeat b (length (fst tp))) (snd tp)) (combine tables paths)).
Proof.
  intros HK HK16 Hb Hall H2. induction H2 as [|t p ts ps Hlen H2 IH]; intros Hwp.
  - simpl. lra.
  - pose proof (Forall_inv Hall) as [Hne Hwf]. pose proof (Forall_inv_tail Hall) as Hall'.
    pose proof (Forall_inv Hwp) as Hp. pose proof (Forall_inv_tail Hwp) as Hwp'.
    specialize (IH Hall' Hwp').
    cbn [map combine fold_right fst snd].
    pose proof (viterbi_optimal K t (repeat b (length t)) HK HK16 Hne Hwf
                  (Forall_repeat _ b _ Hb) p Hlen Hp) as Ho.
    lra.
Qed.

Theorem masked_separable (K : nat) (tables : list (list (list R))) (b : R) :
  (0 < K)%nat -> (N.of_nat K <= 65536)%N -> 0 <= b -> tables <> [] ->
  Forall (fun t => t <> [] /\ wf_rows K t) tables ->
  snd (viterbiR K (concat tables) (masked_betas b (map (@length (list R)) tables)))
  = fold_right Rplus 0 (map (fun t => snd (viterbiR K t (repeat b (length t)))) tables).
Proof.
  intros HK HK16 Hb Hne Hall.
  set (lens := map (@length (list R)) tables).
  assert (Hne' : Forall (fun t => t <> []) tables)
    by (eapply Forall_impl; [|exact Hall]; intros t [H _]; exact H).
  assert (Hwf' : Forall (wf_rows K) tables)
    by (eapply Forall_impl; [|exact Hall]; intros t [_ H]; exact H).
  assert (Hcne : concat tables <> []).
  { destruct tables as [|t ts]; [congruence|]. pose proof (Forall_inv Hne') as Ht. cbv beta in Ht.
    destruct t; [congruence|]. simpl. discriminate. }
  assert (Hcwf : wf_rows K (concat tables)) by (apply Forall_concat'; exact Hwf').
  assert (Hbs : Forall (fun x => 0 <= x) (masked_betas b lens)) by (apply masked_nonneg; exact Hb).
  apply Rle_antisym.
  - set (paths := map (fun t => fst (viterbiR K t (repeat b (length t)))) tables).
    assert (Hsh : forall t, In t tables ->
              length (fst (viterbiR K t (repeat b (length t)))) = length t /\
              wf_path K (fst (viterbiR K t (repeat b (length t))))).
    { intros t Ht. rewrite Forall_forall in Hall. destruct (Hall t Ht) as [Htne Htwf].
      apply viterbi_shape; assumption. }
    assert (HF2 : Forall2 (fun t p => length p = length t) tables paths).
    { apply Forall2_of_lengths. unfold paths. rewrite map_map. apply map_ext_in.
      intros t Ht. apply (Hsh t Ht). }
    assert (Hwp : Forall (wf_path K) paths).
    { unfold paths. apply Forall_forall. intros p Hp. apply in_map_iff in Hp.
      destruct Hp as [t [<- Ht]]. apply (Hsh t Ht). }
    pose proof (viterbi_optimal K (concat tables) (masked_betas b lens) HK HK16 Hcne Hcwf Hbs
                  (concat paths) (Forall2_concat_length _ _ HF2) (Forall_concat' _ _ Hwp)) as Hopt.
    unfold lens in Hopt. rewrite (pcost_masked_split tables paths b Hne' HF2) in Hopt.
    unfold paths in Hopt. rewrite (sum_upper K b tables HK HK16 Hb Hall) in Hopt. exact Hopt.
  - destruct (viterbi_shape 0 Rplus Rminus Rltb K (concat tables) (masked_betas b lens) HK Hcne Hcwf)
      as [Hl Hw].
    rewrite (viterbi_cost_is_path_cost K (concat tables) (masked_betas b lens) HK HK16 Hcne Hcwf Hbs).
    set (jp := fst (viterbiR K (concat tables) (masked_betas b lens))) in *.
    assert (Hjl : length jp = list_sum lens) by (rewrite Hl; apply concat_length').
    set (paths := split_by lens jp).
    assert (HF2 : Forall2 (fun t p => length p = length t) tables paths).
    { apply Forall2_of_lengths. unfold paths. apply split_by_lengths. exact Hjl. }
    assert (Hwp : Forall (wf_path K) paths) by (apply Forall_split_by; exact Hw).
    rewrite <- (split_by_concat_id lens jp Hjl). fold paths. unfold lens.
    rewrite (pcost_masked_split tables paths b Hne' HF2).
    apply sum_lower; assumption.
Qed.

(* ------------------------------------------------------------------ *)
(* (3) one series: the mask is all ones                                *)
(* ------------------------------------------------------------------ *)
Theorem masked_single (K : nat) (t : list (list R)) (b : R) :
  viterbiR K (concat [t]) (masked_betas b (map (@length (list R)) [t])) = viterbiR K t (repeat b (length t)).
Proof.
  cbn [map concat]. rewrite app_nil_r, masked_one. reflexivity.
Qed.

Print Assumptions pcost_masked_split.
Print Assumptions masked_separable.
Print Assumptions masked_single.
