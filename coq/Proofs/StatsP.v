(* What the statistics and optimise phases store in the clusters (on the heap model). *)
From Coq Require Import List Arith Lia Bool.
Import ListNotations.
From Ticc Require Import Model.Repop Model.State Proofs.StateP.

Notation Inv := Ticc.Model.State.Inv.

Definition cov_token (biased : bool) (rows : list nat) : list nat :=
  if Nat.eqb (length rows) 1 then [1; 1] else 1 :: (if biased then 1 else 0) :: rows.

(* ------------------------------------------------------------------ *)
(* an index-aware description of map_heap_idx                          *)
(* ------------------------------------------------------------------ *)

Section MapNth.
Variable f : heap -> nat * loc -> heap * loc.
Hypothesis Hf : forall h kc h' c', isclus h (snd kc) -> f h kc = (h', c') -> ext h h'.

Lemma map_heap_idx_nth : forall cs h k h' cs',
  map_heap_idx f h k cs = (h', cs') -> (forall c, In c cs -> isclus h c) ->
  ext h h' /\ length cs' = length cs /\
  forall i c, nth_error cs i = Some c ->
    exists c' ha hb, nth_error cs' i = Some c' /\ ext h ha /\ ext hb h' /\
                     f ha (k + i, c) = (hb, c').
Proof.
  induction cs as [|c r IH]; intros h k h' cs' E Hcl; cbn [map_heap_idx] in E.
  - inversion E; subst. split; [apply ext_refl|]. split; auto. intros [|i] c H; discriminate.
  - destruct (f h (k, c)) as [h1 c1] eqn:E1.
    destruct (map_heap_idx f h1 (S k) r) as [h2 r2] eqn:E2.
    inversion E; subst h' cs'. clear E.
    pose proof (Hf h (k, c) h1 c1 (Hcl c (in_eq _ _)) E1) as X1.
    assert (Hcl1 : forall x, In x r -> isclus h1 x).
    { intros x Hx. eapply isclus_ext; eauto. apply Hcl; right; auto. }
    destruct (IH h1 (S k) h2 r2 E2 Hcl1) as (X2 & Hlen & Hnth).
    split; [eapply ext_trans; eauto|]. split; [cbn; lia|].
    intros [|i] x Hx; cbn in Hx.
    + inversion Hx; subst x. exists c1, h, h1. rewrite Nat.add_0_r.
      split; [reflexivity|]. split; [apply ext_refl|]. auto.
    + destruct (Hnth i x Hx) as (c' & ha & hb & A & B & C & D).
      exists c', ha, hb. split; [exact A|]. split; [eapply ext_trans; eauto|]. split; auto.
      replace (k + S i) with (S k + i) by lia. exact D.
Qed.
End MapNth.

Lemma nth_error_same_len {A B} (l : list A) (l' : list B) k y :
  length l' = length l -> nth_error l' k = Some y -> exists x, nth_error l k = Some x.
Proof.
  intros Hlen Hk. destruct (nth_error l k) as [x|] eqn:E; eauto.
  apply nth_error_None in E.
  assert (k < length l') by (apply nth_error_Some; congruence). lia.
Qed.

Lemma get_upd_refs_other h x r r' l o :
  get h x = Some (ORefs r) -> get h l = Some o -> (forall r0, o <> ORefs r0) ->
  get (upd h x (ORefs r')) l = Some o.
Proof.
  intros Hx Hl Hne. rewrite get_upd_other; auto. intros ->. rewrite Hx in Hl.
  inversion Hl; subst. eapply Hne; eauto.
Qed.

(* ------------------------------------------------------------------ *)
(* what one application of stat_cluster / opt_cluster builds           *)
(* ------------------------------------------------------------------ *)

Lemma stat_cluster_full b h c mem ec mean ti cc ic ld ms h' c' :
  get h c = Some (OCluster mem ec mean ti cc ic ld) -> get h mem = Some (OList ms) ->
  stat_cluster b h c = (h', c') ->
  ext h h' /\
  exists ml ecl meanl,
    get h' c' = Some (OCluster ml (Some ecl) (Some meanl) ti cc ic ld) /\
    get h' ml = Some (OList ms) /\
    get h' ecl = Some (OArr (cov_token b ms)) /\
    get h' meanl = Some (OArr (2 :: ms)).
Proof.
  intros Hc Hm.
  assert (Hcm : cluster_members h c = ms).
  { apply clus_members. exists mem, ec, mean, ti, cc, ic, ld. auto. }
  unfold stat_cluster. cbv zeta. rewrite Hcm.
  destruct (cluster_shallow_copy h c) as [h1 c1] eqn:E1.
  destruct (cluster_shallow_copy_spec _ _ _ _ _ _ _ _ _ _ _ _ Hc Hm E1) as (X1 & B1 & G1 & G2 & L1).
  rewrite G1. unfold alloc. cbv beta iota. intros E. inversion E; subst h' c'. clear E.
  fold (cov_token b ms).
  set (o1 := OArr (cov_token b ms)). set (o2 := OArr (2 :: ms)).
  set (h3 := (h1 ++ [o1]) ++ [o2]).
  assert (X3 : ext h1 h3) by (unfold h3; eapply ext_trans; apply ext_app).
  assert (L3 : length h3 = length h1 + 2).
  { unfold h3. rewrite !app_length. cbn. lia. }
  assert (Hne : length h <> c1).
  { intros Heq. rewrite <- Heq in G1. congruence. }
  split.
  - apply ext_upd_fresh; [eapply ext_trans; eauto|lia].
  - exists (length h), (length h1), (length (h1 ++ [o1])). split; [|split; [|split]].
    + apply get_upd_same. lia.
    + rewrite get_upd_other by auto. eapply ext_get; eauto.
    + rewrite get_upd_other by lia. unfold h3.
      rewrite get_app_old by (rewrite app_length; cbn; lia). apply get_app_new.
    + rewrite get_upd_other by (rewrite app_length; cbn; lia). unfold h3. apply get_app_new.
Qed.

Lemma opt_cluster_full mrf h k c mem ec mean ti cc ic ld ms h' c' :
  get h c = Some (OCluster mem ec mean ti cc ic ld) -> get h mem = Some (OList ms) ->
  opt_cluster mrf h (k, c) = (h', c') ->
  ext h h' /\
  exists mem' ti' cc',
    get h' c' = Some (OCluster mem' ec mean (Some ti') (Some cc') ic (Some (5 :: mrf k))) /\
    get h' mem' = Some (OList ms) /\
    get h' ti' = Some (OArr (3 :: mrf k)).
Proof.
  intros Hc Hm. unfold opt_cluster.
  destruct (cluster_shallow_copy h c) as [h1 c1] eqn:E1.
  destruct (cluster_shallow_copy_spec _ _ _ _ _ _ _ _ _ _ _ _ Hc Hm E1) as (X1 & B1 & G1 & G2 & L1).
  rewrite G1. unfold alloc. cbv beta iota. intros E. inversion E; subst h' c'. clear E.
  set (o1 := OArr (3 :: mrf k)). set (o2 := OArr (4 :: mrf k)).
  set (h3 := (h1 ++ [o1]) ++ [o2]).
  assert (X3 : ext h1 h3) by (unfold h3; eapply ext_trans; apply ext_app).
  assert (L3 : length h3 = length h1 + 2).
  { unfold h3. rewrite !app_length. cbn. lia. }
  assert (Hne : length h <> c1).
  { intros Heq. rewrite <- Heq in G1. congruence. }
  split.
  - apply ext_upd_fresh; [eapply ext_trans; eauto|lia].
  - exists (length h), (length h1), (length (h1 ++ [o1])). split; [|split].
    + apply get_upd_same. lia.
    + rewrite get_upd_other by auto. eapply ext_get; eauto.
    + rewrite get_upd_other by lia. unfold h3.
      rewrite get_app_old by (rewrite app_length; cbn; lia). apply get_app_new.
Qed.

(* ------------------------------------------------------------------ *)
(* (R1)                                                                *)
(* ------------------------------------------------------------------ *)

Theorem statistics_rows h s b h' s' labels : WF h s -> Inv h s -> state_labels h s = Some labels ->
  phase_statistics h s b = Some (h', s') ->
  state_labels h' s' = Some labels /\
  forall k c, nth_error (state_clusters h' s') k = Some c ->
    exists ml ecl meanl ti cc ic ld,
      get h' c = Some (OCluster ml (Some ecl) (Some meanl) ti cc ic ld) /\
      get h' ecl = Some (OArr (cov_token b (positions labels k))) /\
      get h' meanl = Some (OArr (2 :: positions labels k)) /\
      get_list h' ml = positions labels k /\
      positions labels k <> [].
Proof.
  intros HWF HI Hlab E. apply WF_SD in HWF.
  destruct HWF as (a & cl & lab & cost & data & K & m & lam & beta & cs & HSD).
  apply (Inv_InvD _ _ _ _ _ _ _ _ _ _ _ _ HSD) in HI.
  rewrite (SD_labels _ _ _ _ _ _ _ _ _ _ _ _ HSD) in Hlab.
  destruct lab as [l|]; [|discriminate]. injection Hlab as Hll.
  unfold InvD in HI. rewrite Hll in HI.
  destruct (SD_lab _ _ _ _ _ _ _ _ _ _ _ _ HSD l eq_refl) as [ls Hls].
  unfold phase_statistics in E.
  rewrite (SD_clusters _ _ _ _ _ _ _ _ _ _ _ _ HSD), (SD_K _ _ _ _ _ _ _ _ _ _ _ _ HSD),
          (SD_firstn _ _ _ _ _ _ _ _ _ _ _ _ HSD), (SD_skipn _ _ _ _ _ _ _ _ _ _ _ _ HSD) in E.
  destruct (forallb _ cs) eqn:Efb; [|discriminate].
  destruct (state_shallow_copy h s) as [h1 s1] eqn:E1.
  destruct (map_heap (stat_cluster b) h1 cs) as [h2 cs'] eqn:E2.
  destruct (shallow_SD _ _ _ _ _ _ _ _ _ _ _ _ _ _ HSD E1) as (X1 & Hs1 & L1 & SD1 & _).
  rewrite (map_heap_idx_eq (stat_cluster b) cs h1 0) in E2.
  assert (Hf : forall h0 (kc : nat * loc) h0' c', isclus h0 (snd kc) ->
                 (fun (h : heap) (kc : nat * loc) => stat_cluster b h (snd kc)) h0 kc = (h0', c') ->
                 ext h0 h0').
  { intros h0 [k c] h0' c' [ms Hc] Eq. cbn in *.
    destruct (stat_cluster_clus _ _ _ _ _ _ Hc Eq) as (A & _). auto. }
  destruct (map_heap_idx_nth _ Hf cs h1 0 h2 cs' E2 (SD_isclus _ _ _ _ _ _ _ _ _ _ _ _ SD1))
    as (X2 & Hlen & Hnth).
  pose proof (SD_ext _ _ _ _ _ _ _ _ _ _ _ _ _ X2 SD1) as (A1 & A2 & A3 & A4 & A5 & A6 & A7).
  rewrite A1, app_nil_r in E. inversion E; subst h' s'. clear E.
  pose proof (ext_trans _ _ _ X1 X2) as X02.
  pose proof (ext_len _ _ X02) as L2. pose proof (ext_len _ _ X2) as L12.
  pose proof (get_lt _ _ _ Hls) as Ll.
  assert (Hs' : get (upd h2 (length h) (ORefs cs')) s1 = Some (OState a (length h) (Some l) cost data)).
  { rewrite get_upd_other by lia. auto. }
  split.
  - unfold state_labels. rewrite Hs'. f_equal. rewrite <- Hll.
    unfold get_list. rewrite get_upd_other by lia.
    rewrite (ext_get _ _ _ _ X02 Hls), Hls. reflexivity.
  - unfold state_clusters, get_refs. rewrite Hs'. rewrite get_upd_same by lia.
    intros k c' Hk.
    destruct (nth_error_same_len cs cs' k c' Hlen Hk) as [c Hc].
    destruct (Hnth k c Hc) as (c'' & ha & hb & Hk' & Xa & Xb & Ef). cbn in Ef.
    rewrite Hk in Hk'. inversion Hk'; subst c''. clear Hk'.
    destruct (HI k c Hc) as (mem & ec & mean & ti & cc & ic & ld & Gc & Gm).
    pose proof (ext_trans _ _ _ X1 Xa) as X0a.
    destruct (stat_cluster_full _ _ _ _ _ _ _ _ _ _ _ _ _
                (ext_get _ _ _ _ X0a Gc) (ext_get _ _ _ _ X0a Gm) Ef)
      as (_ & ml & ecl & meanl & G1 & G2 & G3 & G4).
    exists ml, ecl, meanl, ti, cc, ic, ld.
    split; [|split; [|split; [|split]]].
    + eapply get_upd_refs_other; eauto; [eapply ext_get; eauto|discriminate].
    + eapply get_upd_refs_other; eauto; [eapply ext_get; eauto|discriminate].
    + eapply get_upd_refs_other; eauto; [eapply ext_get; eauto|discriminate].
    + apply get_list_eq. eapply get_upd_refs_other; eauto; [eapply ext_get; eauto|discriminate].
    + intros Hnil. rewrite forallb_forall in Efb.
      specialize (Efb c (nth_error_In _ _ Hc)).
      rewrite (clus_members _ _ _ (HI k c Hc)), Hnil in Efb. cbn in Efb. discriminate.
Qed.

(* ------------------------------------------------------------------ *)
(* (R2)                                                                *)
(* ------------------------------------------------------------------ *)

Theorem statistics_rows_reachable K m la ba ops h s b h' s' labels :
  run_ops (init K m la ba) ops = Some (h, s) -> state_labels h s = Some labels ->
  phase_statistics h s b = Some (h', s') ->
  forall k c, nth_error (state_clusters h' s') k = Some c ->
    exists ml ecl meanl ti cc ic ld,
      get h' c = Some (OCluster ml (Some ecl) (Some meanl) ti cc ic ld) /\
      get h' ecl = Some (OArr (cov_token b (positions labels k))) /\
      get h' meanl = Some (OArr (2 :: positions labels k)).
Proof.
  intros Er Hl E k c Hk.
  destruct (run_ops_wf_inv _ _ _ _ _ _ _ Er) as [HW HI].
  destruct (statistics_rows _ _ _ _ _ _ HW HI Hl E) as [_ H].
  destruct (H k c Hk) as (ml & ecl & meanl & ti & cc & ic & ld & A & B & C & _).
  exists ml, ecl, meanl, ti, cc, ic, ld. auto.
Qed.

(* ------------------------------------------------------------------ *)
(* (R3)                                                                *)
(* ------------------------------------------------------------------ *)

(* The statement with WF alone is false: WF does not exclude a dangling covariance / mean
   reference (a location beyond the end of the heap), and then the location gets occupied
   by an object allocated during the phase.  Counterexample: empirical_covariance = Some 5
   in a heap of length 5. *)
Definition cex_opt : heap :=
  [OArgs 1 0 None None; OList []; OCluster 1 (Some 5) None None None None None;
   ORefs [2]; OState 0 3 None None 0].

Lemma optimise_keeps_statistics_needs_typed :
  WF cex_opt 4 /\ nth_error (state_clusters cex_opt 4) 0 = Some 2 /\
  get cex_opt 2 = Some (OCluster 1 (Some 5) None None None None None) /\
  get (fst (phase_optimise cex_opt 4 (fun _ => []))) 5 <> get cex_opt 5.
Proof.
  split; [|split; [|split]]; try reflexivity.
  - exists 0, 3, None, None, 0, 1, 0, None, None, [2].
    repeat split; try reflexivity.
    + constructor; [intros []|constructor].
    + intros c [<-|[]]. exists 1, (Some 5), None, None, None, None, None, []. split; reflexivity.
    + intros l El. discriminate.
  - vm_compute. discriminate.
Qed.

(* general form: the references that point into the old heap are preserved *)
Lemma optimise_keeps_statistics_gen h s mrf h' s' : WF h s -> phase_optimise h s mrf = (h', s') ->
  state_labels h' s' = state_labels h s /\
  forall k c, nth_error (state_clusters h s) k = Some c ->
    exists c', nth_error (state_clusters h' s') k = Some c' /\
      forall mem ec mean ti cc ic ld, get h c = Some (OCluster mem ec mean ti cc ic ld) ->
        exists mem' ti' cc' ld',
          get h' c' = Some (OCluster mem' ec mean (Some ti') (Some cc') ic ld') /\
          get_list h' mem' = get_list h mem /\
          get h' ti' = Some (OArr (3 :: mrf k)) /\
          (forall l, l < length h -> get h' l = get h l).
Proof.
  intros HWF E. apply WF_SD in HWF.
  destruct HWF as (a & cl & lab & cost & data & K & m & lam & beta & cs & HSD).
  unfold phase_optimise in E.
  rewrite (SD_clusters _ _ _ _ _ _ _ _ _ _ _ _ HSD) in *.
  destruct (map_heap_idx (opt_cluster mrf) h 0 cs) as [h1 cs'] eqn:E1.
  destruct (state_shallow_copy h1 s) as [h2 s1] eqn:E2.
  inversion E; subst h' s'. clear E.
  assert (Hf : forall h0 kc h0' c', isclus h0 (snd kc) -> opt_cluster mrf h0 kc = (h0', c') -> ext h0 h0').
  { intros h0 [k c] h0' c' [ms Hc] Eq. cbn in Hc.
    destruct (opt_cluster_clus _ _ _ _ _ _ _ Hc Eq) as (A & _). auto. }
  assert (Hf' : forall h0 kc h0' c', isclus h0 (snd kc) -> opt_cluster mrf h0 kc = (h0', c') ->
                                     ext h0 h0' /\ length h0 <= c' < length h0').
  { intros h0 [k c] h0' c' [ms Hc] Eq. cbn in Hc.
    destruct (opt_cluster_clus _ _ _ _ _ _ _ Hc Eq) as (A & B & _). auto. }
  assert (Hf2 : forall h0 kc h0' c' ms, clus h0 (snd kc) ms -> opt_cluster mrf h0 kc = (h0', c') ->
                                        clus h0' c' ms).
  { intros h0 [k c] h0' c' ms Hc Eq. cbn in Hc.
    destruct (opt_cluster_clus _ _ _ _ _ _ _ Hc Eq) as (A & B & C). auto. }
  pose proof (SD_isclus _ _ _ _ _ _ _ _ _ _ _ _ HSD) as Hcl.
  destruct (map_heap_idx_nth _ Hf cs h 0 h1 cs' E1 Hcl) as (X1 & Hlen & Hnth).
  destruct (map_heap_idx_clus _ Hf' Hf2 cs h 0 h1 cs' E1 Hcl) as (_ & FA & ND & _ & F2).
  pose proof (SD_ext _ _ _ _ _ _ _ _ _ _ _ _ _ X1 HSD) as SD1.
  destruct (shallow_SD _ _ _ _ _ _ _ _ _ _ _ _ _ _ SD1 E2) as (X2 & Hs1 & L2 & SD2 & _).
  pose proof SD2 as (A1 & A2 & A3 & A4 & A5 & A6 & A7).
  assert (Hcl' : forall c, In c cs' -> isclus h2 c).
  { intros c Hc. eapply isclus_ext; eauto. eapply isclus_copy; eauto. }
  destruct (set_clusters_SD h2 s1 a (length h1) lab cost data K m lam beta cs' A1 A2
              ltac:(lia) ND Hcl' A7) as (HM & Hmut & SD3).
  set (h3 := set_clusters h2 s1 cs') in *.
  pose proof (ext_len _ _ X1) as L1.
  assert (X03 : ext h h3).
  { eapply ext_modonly_fresh; [|exact HM|]; [exact (ext_trans _ _ _ X1 X2)|].
    constructor; [lia|constructor]. }
  split.
  - rewrite (SD_labels _ _ _ _ _ _ _ _ _ _ _ _ SD3), (SD_labels _ _ _ _ _ _ _ _ _ _ _ _ HSD).
    destruct lab as [l|]; auto. f_equal.
    eapply lab_get_list_ext; eauto. eapply SD_lab; eauto.
  - rewrite (SD_clusters _ _ _ _ _ _ _ _ _ _ _ _ SD3).
    intros k c Hc. destruct (Hnth k c Hc) as (c' & ha & hb & Hk' & Xa & Xb & Ef). cbn in Ef.
    exists c'. split; auto.
    intros mem ec mean ti cc ic ld Gc.
    destruct (Hcl c (nth_error_In _ _ Hc)) as (ms & mem0 & ec0 & mean0 & ti0 & cc0 & ic0 & ld0 & Gc0 & Gm).
    rewrite Gc in Gc0. inversion Gc0; subst mem0 ec0 mean0 ti0 cc0 ic0 ld0. clear Gc0.
    destruct (opt_cluster_full _ _ _ _ _ _ _ _ _ _ _ _ _ _
                (ext_get _ _ _ _ Xa Gc) (ext_get _ _ _ _ Xa Gm) Ef)
      as (_ & mem' & ti' & cc' & G1 & G2 & G3).
    pose proof (ext_trans _ _ _ Xb X2) as Xb2.
    assert (Hcn : ~ In c' [s1]).
    { intros [<-|[]]. rewrite (ext_get _ _ _ _ Xb2 G1) in A1. discriminate. }
    exists mem', ti', cc', (Some (5 :: mrf k)).
    split; [|split; [|split]].
    + eapply (modonly_keep [s1] h2 h3); [exact HM|exact Hcn|]. eapply ext_get; [exact Xb2|exact G1].
    + rewrite (get_list_eq _ _ _ Gm). apply get_list_eq.
      eapply (modonly_imm [s1] h2 h3); [exact HM|exact Hmut|eapply ext_get; [exact Xb2|exact G2]|cbn; lia].
    + eapply (modonly_imm [s1] h2 h3); [exact HM|exact Hmut|eapply ext_get; [exact Xb2|exact G3]|cbn; lia].
    + intros l Hl. destruct X03 as [_ G]. auto.
Qed.

(* (R3), with the hypothesis that the array-valued fields are arrays (true in every
   reachable configuration, see run_ops_typed) *)
Theorem optimise_keeps_statistics h s mrf h' s' : WF h s -> Typed h s ->
  phase_optimise h s mrf = (h', s') ->
  state_labels h' s' = state_labels h s /\
  forall k c, nth_error (state_clusters h s) k = Some c ->
    exists c', nth_error (state_clusters h' s') k = Some c' /\
      forall mem ec mean ti cc ic ld, get h c = Some (OCluster mem ec mean ti cc ic ld) ->
        exists mem' ti' cc' ld',
          get h' c' = Some (OCluster mem' ec mean (Some ti') (Some cc') ic ld') /\
          get_list h' mem' = get_list h mem /\
          get h' ti' = Some (OArr (3 :: mrf k)) /\
          (forall l, ec = Some l -> get h' l = get h l) /\
          (forall l, mean = Some l -> get h' l = get h l).
Proof.
  intros HWF HT E. destruct (optimise_keeps_statistics_gen _ _ _ _ _ HWF E) as [Hl H].
  split; auto. intros k c Hc. destruct (H k c Hc) as (c' & Hk' & Hf). exists c'. split; auto.
  intros mem ec mean ti cc ic ld Gc.
  destruct (Hf _ _ _ _ _ _ _ Gc) as (mem' & ti' & cc' & ld' & G1 & G2 & G3 & G4).
  exists mem', ti', cc', ld'. split; auto. split; auto. split; auto.
  apply WF_SD in HWF.
  destruct HWF as (a & cl & lab & cost & data & K & m & lam & beta & cs & HSD).
  destruct (HT _ _ _ _ _ (proj1 HSD)) as (_ & _ & Hcarr).
  rewrite (SD_refs _ _ _ _ _ _ _ _ _ _ _ _ HSD) in Hcarr.
  rewrite (SD_clusters _ _ _ _ _ _ _ _ _ _ _ _ HSD) in Hc.
  destruct (Hcarr c (nth_error_In _ _ Hc) _ _ _ _ _ _ _ Gc) as (T1 & T2 & _).
  split; intros l El.
  - destruct (T1 l El) as [x Hx]. apply G4. eapply get_lt; eauto.
  - destruct (T2 l El) as [x Hx]. apply G4. eapply get_lt; eauto.
Qed.

Corollary optimise_keeps_statistics_reachable K m la ba ops h s mrf h' s' :
  run_ops (init K m la ba) ops = Some (h, s) -> phase_optimise h s mrf = (h', s') ->
  state_labels h' s' = state_labels h s /\
  forall k c, nth_error (state_clusters h s) k = Some c ->
    exists c', nth_error (state_clusters h' s') k = Some c' /\
      forall mem ec mean ti cc ic ld, get h c = Some (OCluster mem ec mean ti cc ic ld) ->
        exists mem' ti' cc' ld',
          get h' c' = Some (OCluster mem' ec mean (Some ti') (Some cc') ic ld') /\
          get_list h' mem' = get_list h mem /\
          get h' ti' = Some (OArr (3 :: mrf k)) /\
          (forall l, ec = Some l -> get h' l = get h l) /\
          (forall l, mean = Some l -> get h' l = get h l).
Proof.
  intros Er E. destruct (run_ops_wf_inv _ _ _ _ _ _ _ Er) as [HW _].
  destruct (run_ops_typed _ _ _ _ _ _ _ Er) as [_ HT].
  apply optimise_keeps_statistics; auto.
Qed.

Print Assumptions statistics_rows.
Print Assumptions statistics_rows_reachable.
Print Assumptions optimise_keeps_statistics.
Print Assumptions optimise_keeps_statistics_reachable.
