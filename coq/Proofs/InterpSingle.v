(* The generated control skeleton of the single-series front end front_end.ticc_labels (Gen/G_front_single.v), with its
   uninterpreted callees INTERPRETED as far as the labels are concerned: the argument bundle and the stacked array are values
   that do not matter (VNone), the main loop returns a result object carrying an arbitrary labelling [labels],
   pad_missing_labels is the hand model's [pad] (Model/Stacking.v; the answer of InterpSplit.oracle_model for that callee),
   and the attribute assignment  ticc_result.point_labels = ...  returns the result object with its label field replaced.

   End to end, with NO hypothesis: the front end AS TRANSLATED returns the result object whose labels are the model's
   [front_single_labels W labels].  Hence (C04), for a series of T >= W >= 1 rows and one label in [0,K) per stacked row:
   exactly T labels, the first floor((W-1)/2) and the last (W-1)-floor((W-1)/2) of them -1, the others the main loop's.
   Closed under the global context. *)
From Coq Require Import String ZArith List Bool Lia Arith.
From Ticc Require Import Gen.PyRt Gen.PySkel Gen.G_front_single
     Model.Stacking Proofs.StackingP Proofs.FrontLabelsP Proofs.InterpSplit.
Import ListNotations.
Local Open Scope string_scope.

(* ---------------------------------------------------------------- the labels of the front end's callees, as generated *)

Definition fs_args := "arguments.UserArguments(window_size=,num_clusters=,sparsity_weight=,label_switching_cost=,iteration_limit=,min_meaningful_covariance=,num_processors=,min_cluster_size=,biased_covariance=)".
Definition fs_stack := "data_preparation.stack_training_data".
Definition fs_fit := "main_loop.fit_stacked_data".
Definition fs_set := "setattr:point_labels".

(* The callees of the front end, for a run on a series of T rows with window W in which the main loop answers a result
   carrying [labels].  T and K are not used: the number of rows only travels inside the data, the number of clusters inside
   the argument bundle.  pad_missing_labels (InterpSplit.f_pad) and every other callee keep their InterpSplit answer:
   oracle_model answers  f_pad [VLabels l; VInt w]  with  VLabels (pad (-1) (Z.to_nat w) l). *)
Definition oracle_single (W T K : nat) (labels : list Z)
           (log : list (event val)) (f : string) (a : list val) : res val :=
  if String.eqb f fs_args then
    match a with [_; _; _; _; _; _; _; _; _] => Ret VNone | _ => unexpected end
  else if String.eqb f fs_stack then
    match a with [_; VInt _] => Ret VNone | _ => unexpected end
  else if String.eqb f fs_fit then
    match a with [_; _] => Ret (VMaster W labels) | _ => unexpected end
  else if String.eqb f fs_set then
    match a with [VMaster W' _; VLabels p] => Ret (VMaster W' p) | _ => unexpected end
  else InterpSplit.oracle_model log f a.

Section Single.
  Variables (W T K : nat) (labels : list Z).

  Local Notation OS := (oracle_single W T K labels).

  (* ---------------------------------------------------------------- the oracle, one callee at a time *)

  Lemma oracle_s_args (log : list (event val)) (a1 a2 a3 a4 a5 a6 a7 a8 a9 : val) :
    OS log fs_args [a1; a2; a3; a4; a5; a6; a7; a8; a9] = Ret VNone.
  Proof. reflexivity. Qed.
  Lemma oracle_s_stack (log : list (event val)) (data : val) (w : Z) :
    OS log fs_stack [data; VInt w] = Ret VNone.
  Proof. reflexivity. Qed.
  Lemma oracle_s_fit (log : list (event val)) (a c : val) :
    OS log fs_fit [a; c] = Ret (VMaster W labels).
  Proof. reflexivity. Qed.
  (* the delegation: this callee is answered by InterpSplit.oracle_model *)
  Lemma oracle_s_pad_delegates (log : list (event val)) (a : list val) :
    OS log f_pad a = InterpSplit.oracle_model log f_pad a.
  Proof. reflexivity. Qed.
  Lemma oracle_s_pad (log : list (event val)) (l : list Z) (W' : nat) :
    OS log f_pad [VLabels l; VInt (Z.of_nat W')] = Ret (VLabels (pad (-1)%Z W' l)).
  Proof. rewrite oracle_s_pad_delegates. apply InterpSplit.oracle_pad. Qed.
  Lemma oracle_s_set (log : list (event val)) (W' : nat) (l p : list Z) :
    OS log fs_set [VMaster W' l; VLabels p] = Ret (VMaster W' p).
  Proof. reflexivity. Qed.

  (* ---------------------------------------------------------------- the monad, one step at a time *)

  Lemma s_bind_call (B : Type) (f : string) (a : list val) (k : val -> M val B) (log : list (event val)) (v : val) :
    OS log f a = Ret v -> mbind (call OS f a) k log = k v (log ++ [Ev f a])%list.
  Proof. intros Ho. unfold mbind, call. rewrite Ho. reflexivity. Qed.

  (* try: t = f(a)  except exc: raise new  - when the callee returns *)
  Lemma s_bind_try_call (B : Type) (f : string) (a : list val) (exc new : string) (k : val -> M val B)
        (log : list (event val)) (v : val) :
    OS log f a = Ret v ->
    mbind (try_map (mbind (call OS f a) (fun t => mret t)) exc new) k log = k v (log ++ [Ev f a])%list.
  Proof. intros Ho. unfold mbind, try_map, call, mret. rewrite Ho. reflexivity. Qed.

  (* ---------------------------------------------------------------- the whole function *)

  (* the arguments in the order of the Python signature *)
  Definition single_run (data lam beta lim eps procs m biased : val) : res val * list (event val) :=
    g_ticc_labels val getattr OS data (VInt (Z.of_nat W)) (VInt (Z.of_nat K)) lam beta lim eps procs m biased [].

  (* the complete log of the run: the five calls, in the order the code makes them, with the data flow between them *)
  Definition single_log (data lam beta lim eps procs m biased : val) : list (event val) :=
    [Ev fs_args [VInt (Z.of_nat W); VInt (Z.of_nat K); lam; beta; lim; eps; procs; m; biased];
     Ev fs_stack [data; VInt (Z.of_nat W)];
     Ev fs_fit [VNone; VNone];
     Ev f_pad [VLabels labels; VInt (Z.of_nat W)];
     Ev fs_set [VMaster W labels; VLabels (pad (-1)%Z W labels)]].

  (* no hypothesis: value and log *)
  Lemma single_run_result (data lam beta lim eps procs m biased : val) :
    single_run data lam beta lim eps procs m biased
    = (Ret (VMaster W (front_single_labels W labels)), single_log data lam beta lim eps procs m biased).
  Proof.
    unfold single_run, g_ticc_labels. cbv zeta.
    fold fs_args fs_stack fs_fit fs_set f_pad.
    rewrite (s_bind_call _ _ _ _ _ _ (oracle_s_args _ _ _ _ _ _ _ _ _ _)). cbv beta.
    rewrite (s_bind_try_call _ _ _ _ _ _ _ _ (oracle_s_stack _ _ _)). cbv beta.
    rewrite (s_bind_call _ _ _ _ _ _ (oracle_s_fit _ _ _)). cbv beta.
    rewrite getattr_pl.
    rewrite (s_bind_call _ _ _ _ _ _ (oracle_s_pad _ _ _)). cbv beta.
    rewrite (s_bind_call _ _ _ _ _ _ (oracle_s_set _ _ _ _)). cbv beta.
    reflexivity.
  Qed.
End Single.

(* ================================================================ the theorems *)

(* END TO END, no hypothesis: the single-series front end as translated returns the main loop's result object with its labels
   replaced by the model's padded labels *)
Theorem single_front_end_end_to_end : forall (W T K : nat) (labels : list Z) (data lam beta lim eps procs m biased : val),
  exists log', g_ticc_labels val getattr (oracle_single W T K labels)
                 data (VInt (Z.of_nat W)) (VInt (Z.of_nat K)) lam beta lim eps procs m biased []
               = (Ret (VMaster W (front_single_labels W labels)), log').
Proof.
  intros W T K labels data lam beta lim eps procs m biased.
  exists (single_log W K labels data lam beta lim eps procs m biased).
  apply (single_run_result W T K labels data lam beta lim eps procs m biased).
Qed.

(* C04 for the code as translated: exactly T labels; the first floor((W-1)/2) and the last (W-1)-floor((W-1)/2) are -1 and the
   others are the main loop's labels, in [0,K) *)
Corollary single_front_end_C04 : forall (W T K : nat) (labels : list Z) (data lam beta lim eps procs m biased : val),
  (1 <= W)%nat -> (W <= T)%nat -> length labels = (T + 1 - W)%nat -> Forall (in_range K) labels ->
  exists (padded : list Z) (log' : list (event val)),
    g_ticc_labels val getattr (oracle_single W T K labels)
      data (VInt (Z.of_nat W)) (VInt (Z.of_nat K)) lam beta lim eps procs m biased []
    = (Ret (VMaster W padded), log')
    /\ margin_ok W K T padded
    /\ length padded = T
    /\ pad_front W = ((W - 1) / 2)%nat /\ pad_back W = ((W - 1) - (W - 1) / 2)%nat.
Proof.
  intros W T K labels data lam beta lim eps procs m biased HW HT HL HR.
  destruct (single_front_end_end_to_end W T K labels data lam beta lim eps procs m biased) as (log' & Hrun).
  assert (Hm : margin_ok W K T (front_single_labels W labels)).
  { apply front_single_margin; assumption. }
  exists (front_single_labels W labels), log'.
  split; [exact Hrun|].
  split; [exact Hm|].
  split; [exact (proj1 Hm)|].
  split; reflexivity.
Qed.

(* the middle of the returned list is the main loop's labelling, unchanged *)
Corollary single_front_end_middle : forall (W T K : nat) (labels : list Z) (data lam beta lim eps procs m biased : val),
  exists (padded : list Z) (log' : list (event val)),
    g_ticc_labels val getattr (oracle_single W T K labels)
      data (VInt (Z.of_nat W)) (VInt (Z.of_nat K)) lam beta lim eps procs m biased []
    = (Ret (VMaster W padded), log')
    /\ padded = (repeat (-1)%Z (pad_front W) ++ labels ++ repeat (-1)%Z (pad_back W))%list.
Proof.
  intros W T K labels data lam beta lim eps procs m biased.
  destruct (single_front_end_end_to_end W T K labels data lam beta lim eps procs m biased) as (log' & Hrun).
  exists (front_single_labels W labels), log'. split; [exact Hrun|reflexivity].
Qed.

(* ================================================================ non-vacuity *)

(* W = 4, K = 3, T = 6: front margin (4-1)/2 = 1, back margin 2 *)
Example single_front_end_example :
  let r := g_ticc_labels val getattr (oracle_single 4 6 3 [2; 0; 1]%Z)
             (VSeries 6) (VInt 4) (VInt 3) VNone VNone VNone VNone VNone VNone VNone [] in
  fst r = Ret (VMaster 4 [-1; 2; 0; 1; -1; -1]%Z)
  /\ map (@ev_fn val) (snd r) = [fs_args; fs_stack; fs_fit; f_pad; fs_set]
  /\ front_single_labels 4 [2; 0; 1]%Z = [-1; 2; 0; 1; -1; -1]%Z.
Proof. vm_compute. repeat split. Qed.

(* the hypotheses of the corollary are satisfiable: the same instance *)
Example single_front_end_C04_example :
  exists (padded : list Z) (log' : list (event val)),
    g_ticc_labels val getattr (oracle_single 4 6 3 [2; 0; 1]%Z)
      (VSeries 6) (VInt (Z.of_nat 4)) (VInt (Z.of_nat 3)) VNone VNone VNone VNone VNone VNone VNone []
    = (Ret (VMaster 4 padded), log')
    /\ margin_ok 4 3 6 padded /\ length padded = 6
    /\ pad_front 4 = ((4 - 1) / 2)%nat /\ pad_back 4 = ((4 - 1) - (4 - 1) / 2)%nat.
Proof.
  apply single_front_end_C04; [lia|lia|reflexivity|].
  repeat constructor; unfold in_range; simpl; lia.
Qed.

Print Assumptions single_front_end_end_to_end.
Print Assumptions single_front_end_C04.
